"""C13 push ruleset edit state machine."""
import json
import os

import vlib

RULE = ("TLC explores every behaviour of the PushRuleset state machine for one rule kind (override-like / plain) over ids "
        "{a,b[,c]}, two invalid ids and two server-default ids from the empty and the server-default list, and emits every "
        "(reachable state, operation) pair with the set of outcomes the specification permits; each pair is executed on a "
        "real Ruleset built in that state (override; underride and content for the plain kind). A pair is non-trivial when "
        "the operation is an insert with an anchor, a re-insert of an existing rule, or any call the spec answers with an "
        "error; distinct = distinct emitted (state, op) pairs. Recorded random walks over all five kinds are validated by "
        "Trace_C13 step by step; in the walks that start from the empty ruleset the rule get_match selects for a probe event after "
        "every edit must be the first enabled matching rule of the lists as the specification has them (evaluation after edits).")


def apalache_inductive():
    """Init => IndInv and IndInv /\\ Next => IndInv' with apalache-mc; a timeout is reported as not run (no verdict)."""
    import subprocess
    d = os.path.join(vlib.MC, "C13", "apalache")
    out = os.path.join(vlib.workdir("C13"), "apalache")
    res = {}
    for name, args in (("base", ["--init=Init", "--length=0"]), ("step", ["--init=IndInit", "--length=1"])):
        cmd = ["apalache-mc", "check", "--out-dir=" + out, "--cinit=ConstInit", "--inv=IndInv"] + args + ["PushRulesetIndApa.tla"]
        try:
            p = subprocess.run(cmd, cwd=d, stdout=subprocess.PIPE, stderr=subprocess.STDOUT, text=True, timeout=1500)
        except (subprocess.TimeoutExpired, FileNotFoundError) as e:
            res[name] = "not run (%s)" % type(e).__name__
            continue
        if "EXITCODE: OK" in p.stdout:
            res[name] = "proved"
        elif "EXITCODE: ERROR (12)" in p.stdout:
            raise vlib.ToolError("Apalache found a counterexample to the inductive invariant of PushRulesetInd (%s): see %s" % (name, out))
        else:
            res[name] = "not run (%s)" % p.stdout.strip().split("\n")[-1][:80]
    return res


def run(rep, tier):
    thorough = tier == "thorough"
    wd = vlib.workdir("C13")
    cpath = os.path.join(wd, "cases.ndjson")
    total = 0
    cfgs = ["TRUE_A", "FALSE_A", "TRUE_B", "FALSE_B"]
    for i, c in enumerate(cfgs):
        n, _ = vlib.stream_cases(rep, "C13", "MC_C13", "MC_C13_%s.cfg" % c, cpath, part="mc_" + c, append=i > 0)
        total += n
    opath = os.path.join(wd, "replay_out.ndjson")
    vlib.run_harness(["replay", "c13"], stdin_path=cpath, stdout_path=opath)
    out = vlib.read_ndjson(opath)
    summary = out[-1]["summary"]
    for m in out[:-1]:
        rep.violation("push/" + m["class"], {"kind": m["kind"], "case": m["case"], "result": m["res"], "post": m["post"]})
    # non-trivial count: measured on the emitted cases
    nontrivial = 0
    with open(cpath) as f:
        for ln in f:
            c = json.loads(ln)
            if c["err"] != "ok" or (c["op"] == "insert" and (c["after"] != [0] or c["before"] != [0] or
                                                              any(r[0] == c["id"] for r in c["pre"]))):
                nontrivial += 1
    rep.part("replay", executed=summary["executed"], mismatches=summary["mismatches"])
    # impl -> spec
    runs, steps = (4000, 250) if thorough else (40, 150)
    tpath = vlib.record_trace("C13", ["record", "c13", "--runs", str(runs), "--steps", str(steps)])
    recs = vlib.read_ndjson(tpath)
    res = vlib.run_tlc("C13", "Trace_C13", name="trace", env={"TRACE": tpath}, workers=1, deque=True, stack="1g")
    if res.violated or res.rc != 0:
        raise vlib.ToolError("Trace_C13 failed: %s" % res.lines[-20:])
    if res.distinct != len(recs) + 1:
        raise vlib.ToolError("Trace_C13 consumed %d of %d records" % (res.distinct - 1, len(recs)))
    rep.add_tlc(res, "trace")
    bad = sorted({int(t.split(",")[0]) for t in res.tuples("MISMATCH")})
    for l in bad:
        r = recs[l - 1]
        # context: the previous state of that kind
        prev = None
        for q in reversed(recs[: l - 1]):
            if q["ev"] == "reset":
                prev = q[r["kind"]]
                break
            if q.get("kind") == r["kind"]:
                prev = q["post"]
                break
        if r["ev"] == "reset":
            cls = "push/trace/evaluation-of-a-fresh-ruleset"
        else:
            cls = "push/trace/%s/%s" % (r["op"], "panic" if r["res"] == "panic" else "unexplained-or-evaluation-differs")
        rep.violation(cls, {"pre": prev, "record": r})
    rep.part("trace", records=len(recs), runs=runs, mismatches=len(bad))
    rep.sample({"trace_record": recs[min(7, len(recs) - 1)]})
    # design level, beyond TLC's three ids: the invariants as an inductive invariant of the edit machine, decided by Apalache for
    # rule lists of any content up to length 5 over 8 arbitrary ids (PushRulesetInd), tied to PushRuleset by a TLC equivalence check
    eq = vlib.run_tlc("C13", "EqCheck", name="eqcheck", workers=4, mcdir="C13/apalache")
    if eq.violated or eq.rc != 0:
        raise vlib.ToolError("PushRulesetInd and PushRuleset disagree: %s" % eq.lines[-15:])
    rep.add_tlc(eq, "eqcheck")
    if thorough or os.environ.get("VERIF_APALACHE"):
        rep.part("apalache", **apalache_inductive())
    rep.cov["traces_validated_against_impl"] = summary["executed"] + runs
    rep.cov["evaluations"] = summary["executed"] + len(recs)
    rep.cov["distinct_nontrivial"] = nontrivial
    rep.cov["exhaustive"] = True
    rep.cov["rule"] = RULE
    rep.assumptions += ["a rule's payload is projected as the number of conditions / pattern length, its actions as their count",
                        "room and sender kinds are exercised by the recorded walks only (their ids must be room / user ids)"]


def replay(rep, path):
    d = json.load(open(path))["detail"]
    wd = vlib.workdir("C13")
    if "case" in d:
        cpath = os.path.join(wd, "replay_case.ndjson")
        vlib.write_ndjson(cpath, [d["case"]])
        opath = os.path.join(wd, "replay_case_out.ndjson")
        vlib.run_harness(["replay", "c13"], stdin_path=cpath, stdout_path=opath)
        for m in vlib.read_ndjson(opath)[:-1]:
            rep.violation("push/" + m["class"], m)
    else:
        r = d["record"]
        t = os.path.join(wd, "replay_trace.ndjson")
        reset = {"l": 1, "ev": "reset", "override": [], "underride": [], "content": [], "room": [], "sender": []}
        reset[r["kind"]] = d["pre"] or []
        vlib.write_ndjson(t, [reset, r])
        res = vlib.run_tlc("C13", "Trace_C13", name="replaytrace", env={"TRACE": t}, workers=1, deque=True)
        for _ in res.tuples("MISMATCH"):
            rep.violation("push/trace", d)

"""C03 event signatures across redaction and required signers; shared pipeline with C05."""
import base64
import hashlib
import json

import vlib

RULE03 = ("TLC enumerates room version 1-11 x 16 event shapes (join, invite, third-party invite, restricted join, create, "
          "power_levels, join_rules, aliases, redaction, history_visibility, message) x all signer subsets of {sender's server, "
          "event-ID's server, authorising server} x one step (none / redacted copy / other `unsigned` / mutation of each top-level, "
          "content and third_party_invite key incl. `hashes` / dropping one signature), proves the sentences of the property as "
          "theorems of EventSigning.tla and emits the expected verify_event result; the harness signs with real keys through "
          "hash_and_sign_event, applies the step and calls verify_event. Non-trivial = at least one signer.")
RULE05 = ("same enumeration; for every case the model gives the key sets of the content-hash and reference-hash pre-images and the "
          "base64 alphabet; the harness restricts the signed event to them, the driver hashes the bytes with hashlib/base64 and "
          "compares with content_hash / reference_hash / hashes.sha256; reference hash of the redacted copy and with different "
          "`unsigned` must be unchanged. Size boundary: pre-images padded to 65533..65539 bytes with 1/2/4-byte characters in kept "
          "and stripped keys for versions 1,3,4,9,11.")


def pipeline(rep, pid):
    cases, _ = vlib.model_check(rep, pid, "MC_C03")
    obs = vlib.replay_cases(pid, cases, ["replay", "c03"])
    return cases, obs


def brief(c):
    return {k: c[k] for k in ("v", "shape", "signers", "step", "required", "expected")}


def run(rep, tier):
    cases, obs = pipeline(rep, "C03")
    nontriv = 0
    for c, o in zip(cases, obs):
        if "panic" in o:
            rep.violation("eventsig/panic", {"case": brief(c), "observed": o})
            continue
        if c["signers"]:
            nontriv += 1
        if o["sign_err"]:
            rep.violation("eventsig/hash_and_sign-failed", {"case": brief(c)})
        if o["verify"] != c["expected"]:
            step = c["step"][0]
            # the one recorded deviation: join_authorised_via_users_server demands a signature on events that are not joins
            # (exactly what the "any event" reading of the model gives; anything else is reported as usual)
            if c["shape"] in ("leavej", "messagej") and o["verify"] == c["expected_any_event"]:
                rep.violation("eventsig/authorising-server-demanded-although-the-event-is-not-a-join/%s" % c["shape"], {"case": brief(c), "observed": o["verify"], "expected": c["expected"]})
                continue
            rep.violation("eventsig/%s/got-%s-expected-%s" % (step, o["verify"], c["expected"]), {"case": brief(c), "observed": o["verify"], "top": c["top"], "content": c["content"]})
    rep.sample({"case": brief(cases[5000]), "observed": obs[5000]["verify"]})
    rep.cov["evaluations"] = len(cases)
    rep.cov["distinct_nontrivial"] = nontriv
    rep.cov["traces_validated_against_impl"] = len(cases)
    rep.cov["exhaustive"] = True
    rep.cov["rule"] = RULE03
    # the same functions inside the system model: servers exchanging signed PDUs, receipt checks, alterations in flight
    from checks import fed
    fed.run_part(rep, "C03", tier)
    rep.assumptions += ["SHA-256 and Ed25519 are abstract injective functions in the model; real keys in the harness",
                        "keys whose mutation changes the required signers or the redaction table (type, sender, event_id, membership, "
                        "join_authorised_via_users_server, third_party_invite as a whole) are not mutated"]


def h(pre, alphabet):
    d = hashlib.sha256(pre.encode("utf-8")).digest()
    enc = base64.b64encode(d) if alphabet == "standard" else base64.urlsafe_b64encode(d)
    return enc.decode().rstrip("=")


def run05(rep, tier):
    cases, obs = pipeline(rep, "C05")
    seen = set()
    nontriv = 0
    for c, o in zip(cases, obs):
        if "panic" in o:
            rep.violation("hash/panic", {"case": brief(c), "observed": o})
            continue
        # once per signed event: the plain one and the one that carried a stale `hashes` when it was signed
        key = (c["v"], c["shape"], tuple(sorted(c["signers"])), c["step"][0] == "prehash")
        if key not in seen:
            nontriv += 1       # distinct signed events; every case is judged (the step does not change what was signed)
        seen.add(key)
        want_ch = h(o["chpre"], "standard")
        want_rh = h(o["rhpre"], c["alphabet"])
        det = {"case": brief(c), "content_pre_image": o["chpre"], "reference_pre_image": o["rhpre"], "alphabet": c["alphabet"]}
        if o["content_hash"] != want_ch:
            rep.violation("hash/content-hash-differs", dict(det, expected=want_ch, observed=o["content_hash"]))
        if c["signers"] and o["stored_hash"] != want_ch:
            rep.violation("hash/stored-hashes.sha256-differs", dict(det, expected=want_ch, observed=o["stored_hash"]))
        if o["reference_hash"] != want_rh:
            rep.violation("hash/reference-hash-differs/v%d" % c["v"], dict(det, expected=want_rh, observed=o["reference_hash"]))
        if o["rh_redacted"] != o["reference_hash"]:
            rep.violation("hash/reference-hash-changed-by-redaction", dict(det, observed=[o["reference_hash"], o["rh_redacted"]]))
        if o["rh_unsigned"] != o["reference_hash"] or o["ch_unsigned"] != o["content_hash"]:
            rep.violation("hash/depends-on-unsigned", dict(det, observed=[o["reference_hash"], o["rh_unsigned"], o["content_hash"], o["ch_unsigned"]]))
        # `hashes` present, `signatures` and `unsigned` absent: the content hash covers neither of the three
        if o["ch_bare"] != o["content_hash"]:
            rep.violation("hash/content-hash-depends-on-signatures-unsigned-or-hashes", dict(det, observed=[o["content_hash"], o["ch_bare"]]))
    rep.sample({"case": brief(cases[3000]), "reference_pre_image": obs[3000]["rhpre"], "reference_hash": obs[3000]["reference_hash"]})
    # size boundary
    _, out, _ = vlib.run_harness(["size", "c05"])
    nsize = 0
    for ln in out.splitlines():
        r = json.loads(ln)
        if "skip" in r:
            continue
        if "panic" in r:
            rep.violation("hash/size/panic", r)
            continue
        nsize += 1
        LIM = 65535
        if r["content_pre_len"] > LIM and (r["content_hash_ok"] or r["hash_and_sign_ok"]):
            rep.violation("hash/size/oversized-content-pre-image-accepted", r)
        if r["reference_pre_len"] > LIM and r["reference_hash_ok"]:
            rep.violation("hash/size/oversized-reference-pre-image-accepted", r)
        if r["whole_len"] <= LIM and not (r["content_hash_ok"] and r["reference_hash_ok"] and r["hash_and_sign_ok"]):
            rep.violation("hash/size/legal-event-refused", r)
    rep.part("size", cases=nsize)
    rep.cov["evaluations"] = len(cases) + nsize
    rep.cov["distinct_nontrivial"] = nontriv + nsize
    rep.cov["traces_validated_against_impl"] = len(cases)
    rep.cov["exhaustive"] = True
    rep.cov["rule"] = RULE05
    rep.assumptions += ["SHA-256 / base64 reference: Python hashlib and base64 on the pre-image bytes selected by the model's key sets",
                        "pre-image bytes are serialised with serde_json over sorted maps (ASCII keys and values, integers only)"]


def replay(rep, path):
    print(open(path).read()[:3000])

"""C15 HTML sanitisation idempotence and fixpoints (shares the C14 pipeline)."""
from checks import c14


def run(rep, tier):
    c14.run15(rep, tier)


replay = c14.replay

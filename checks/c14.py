"""C14 sanitised HTML is safe; shared pipeline with C15 (idempotence / fixpoints)."""
import json

import vlib

RULE14 = ("model: TLC checks Safe(Clean(t, c), c), text order and text preservation over ~780k (tree, configuration) pairs (13 element "
          "classes, <= 2 of 16 attribute/value choices incl. every scheme spelling, 7 child forests, 25 named builder configurations). "
          "binding: grammar-generated HTML (allowed, deprecated, forbidden, foreign and unknown elements; 18 attribute names sorting "
          "before and after href/src; 25 values incl. scheme spellings, class lists; unclosed tags, comments, doctype, CDATA; nesting "
          "chains of 1..110 levels (JSON nesting limit of the trace reader)) is parsed, sanitised with a named configuration and dumped before / after / re-parsed; Trace_C14 "
          "requires after = Clean(before) and Safe(re-parsed output). Non-trivial = the document contains something the "
          "configuration must change.")
RULE15 = ("same model (Clean(Clean(t)) = Clean(t); Safe /\\\\ NoDeprecated => Clean(t) = t for the four standard configurations) and the same "
          "recorded documents, a quarter of them generated from the allow-list grammar itself: sanitising the same object twice, "
          "sanitising the re-parsed output, and plain parse-and-reserialise must coincide; clean documents must be unchanged.")


def pipeline(rep, pid, tier, cfgname):
    mc = vlib.run_tlc(pid, "MC_C14", name="mc", stack="1g", heap="12g")
    if mc.violated or mc.rc != 0:
        raise vlib.ToolError("model theorem violated in MC_C14: %s\n%s" % (mc.violated, "\n".join(mc.lines[-30:])))
    rep.add_tlc(mc, "mc")
    n = 20000 if tier == "thorough" else 1500
    tpath = vlib.record_trace(pid, ["record", "c14", "--n", str(n)])
    recs = vlib.read_ndjson(tpath)
    nrec, bad = vlib.validate_trace(rep, pid, "Trace_C14", tpath, cfg=cfgname, stack="1g", heap="12g")
    if nrec != len(recs):
        # identical records collapse into one TLC state only if they are equal; indices make them distinct
        raise vlib.ToolError("trace validation covered %d of %d records" % (nrec, len(recs)))
    return recs, bad


def run(rep, tier):
    recs, bad = pipeline(rep, "C14", tier, "Trace_C14.cfg")
    for i in sorted({int(t.split(",")[0].strip()) for t in rep.last_trace_result.tuples("ORDER")}):
        r = recs[i - 1]
        table = any(t in (r.get("out") or "") for t in ("<table", "<tbody", "<tr", "<thead", "<caption", "<colgroup", "<tfoot"))
        rep.violation("html/text-moves-when-the-output-is-parsed-again/%s" % ("inside-table" if table else "elsewhere"),
                      {"config": r["cfg"], "output": r.get("out"), "doc_kind": r["kind"], "after": r["after"], "reparsed": r["reparsed"]})
    for i in bad:
        r = recs[i - 1]
        cls = "html/panic" if r["panic"] else "html/output-not-as-specified-or-unsafe"
        rep.violation("%s/%s" % (cls, r["cfg"]), {"config": r["cfg"], "output": r.get("out"), "doc_kind": r["kind"], "before": r["before"], "after": r["after"], "reparsed": r["reparsed"]})
    nontriv = sum(1 for r in recs if r["before"] != r["after"])
    rep.sample({"config": recs[3]["cfg"], "before": recs[3]["before"], "output": recs[3]["out"]})
    rep.cov["evaluations"] = len(recs)
    rep.cov["distinct_nontrivial"] = nontriv
    rep.cov["exhaustive"] = False
    rep.cov["rule"] = RULE14
    rep.assumptions += ["html5ever is the HTML parser on both sides (tree before, and the re-parsed output)",
                        "class patterns in the model are prefix patterns (p*) or exact names"]


def run15(rep, tier):
    recs, bad = pipeline(rep, "C15", tier, "Trace_C15.cfg")
    for i in bad:
        r = recs[i - 1]
        what = "panic" if r["panic"] else ("twice-differs" if not r["twice_eq"] else ("sanitising-sanitised-output-changes-it" if not (r["sanre_eq"] and r["sanre_text_eq"]) else "not-a-fixpoint-or-clean-document-changed"))
        rep.violation("html/idempotence/%s/%s" % (what, r["cfg"]), {"config": r["cfg"], "output": r.get("out"), "doc_kind": r["kind"], "before": r["before"], "after": r["after"], "reparsed": r["reparsed"]})
    std = [r for r in recs if r["cfg"] in ("strict", "compat", "strict+noreply", "compat+noreply")]
    rep.sample({"config": std[5]["cfg"], "doc_kind": std[5]["kind"], "output": std[5]["out"], "twice_eq": std[5]["twice_eq"], "sanre_eq": std[5]["sanre_eq"]})
    rep.cov["evaluations"] = len(std)
    rep.cov["distinct_nontrivial"] = sum(1 for r in std if r["kind"] == "clean" or r["before"] != r["after"])
    rep.cov["exhaustive"] = False
    rep.cov["rule"] = RULE15
    rep.assumptions += ["html5ever is the HTML parser on both sides"]


def replay(rep, path):
    print(open(path).read()[:3000])

"""C01 canonical JSON."""
import json

import vlib

RULE = ("TLC enumerates tagged JSON values: every leaf (all strings of <= 2 characters over 19 boundary code points incl. controls, "
        "U+007F, U+2028, U+E000, U+FFFF, U+10000, U+10FFFF; integers 0, 1, 42, 2^53-2..2^53+1, 2^63-1, 2^63, 2^64-2..2^64, 10^29, both "
        "signs; 8 non-canonical number spellings), one-member objects over all those keys, two- and three-member objects over 10 "
        "keys in every order and duplicate pattern, nesting to depth 3 with duplicates, arrays. Canon(v) is the expected byte string "
        "(or rejection). The harness spells each value 4 ways (raw, upper-case \\\\uXXXX with surrogate pairs, every character "
        "escaped, mandatory escapes as \\\\u00XX; with and without whitespace) and runs every entry point. Non-trivial = not a "
        "plain scalar leaf, or a leaf that must be rejected. Objects of <= 3 members over the keys a, s, signatures, t, unsigned, v (the removed names also "
        "nested) give the signing form SigningBytes(v) that ruma_signatures::canonical_json must produce. Random deeper values are validated by Trace_C01.")


def run(rep, tier):
    thorough = tier == "thorough"
    cases, _ = vlib.model_check(rep, "C01", "MC_C01", stack="1g")
    obs = vlib.replay_cases("C01", cases, ["replay", "c01"])
    nontriv = 0
    canon_to_norm = {}
    for c, o in zip(cases, obs):
        exp = "ok:" + ",".join(map(str, c["bytes"])) if c["ok"] else "err"
        if c["part"] != "leaf" or not c["ok"]:
            nontriv += 1
        # injectivity of Canon on normalized values (losslessness), checked on the model's own output
        if c["ok"]:
            key = tuple(c["bytes"])
            n = json.dumps(c["norm"], sort_keys=True)
            if canon_to_norm.setdefault(key, n) != n:
                raise vlib.ToolError("model: two different values share a canonical string: %s" % bytes(c["bytes"]))
        # every case must have been run through the entry points: an empty or thin observation is a harness failure, not a pass
        nruns = sum(len(who) for who in o["outcomes"].values())
        if nruns < 4:
            raise vlib.ToolError("case %d was executed through %d entry points only" % (o.get("i", -1), nruns))
        for oc, who in o["outcomes"].items():
            if oc == exp:
                continue
            if c["ok"] and not c["strict"] and oc == "err":
                continue      # a shadowed duplicate is unrepresentable: acceptance is UNSPEC
            if c["part"] == "token":
                # entry points that are handed a serde_json::Value: the harness makes that Value from the text with serde_json
                # itself, which (feature raw_value) rewrites such an object before ruma sees anything
                who = [w for w in who if not w.split(":", 1)[1].startswith(("value+", "map+"))]
                if not who:
                    continue
            entry = sorted({w.split(":", 1)[1] for w in who})
            if oc.startswith("panic"):
                cls = "canon/panic"
            elif "PARSEBACK" in "".join(map(chr, [int(x) for x in oc[3:].split(",")])) if oc.startswith("ok:") and oc != "ok:" else False:
                cls = "canon/parse-back-differs"
            elif not c["ok"]:
                cls = "canon/unrepresentable-value-accepted"
            elif oc == "err":
                cls = "canon/valid-value-rejected"
            else:
                cls = "canon/wrong-bytes"
            if c["part"] == "token":
                cls = "canon/key-that-serde_json-reserves-for-raw-values/" + cls.split("/", 1)[1]
            got = oc
            if oc.startswith("ok:") and len(oc) > 3:
                got = bytes(int(x) for x in oc[3:].split(",")).decode("utf-8", "replace")
            rep.violation(cls + "/" + entry[0], {"value": c["v"], "text_raw_spelling": o["text0"], "expected": bytes(c["bytes"]).decode("utf-8", "replace") if c["ok"] else "reject",
                                                 "observed": got, "entry_points": who})
        # the signing form (ruma_signatures::canonical_json): top-level "signatures"/"unsigned" removed, nothing else
        for oc, who in o.get("signing", {}).items():
            sexp = "ok:" + ",".join(map(str, c["sbytes"])) if c["ok"] else "err"
            if oc == sexp or (c["ok"] and not c["strict"] and oc == "err"):
                continue
            got = bytes(int(x) for x in oc[3:].split(",")).decode("utf-8", "replace") if oc.startswith("ok:") and len(oc) > 3 else oc
            rep.violation("canon/signing-form/" + ("panic" if oc.startswith("panic") else "wrong-bytes" if oc.startswith("ok:") else "rejected"),
                          {"value": c["v"], "text_raw_spelling": o["text0"], "expected": bytes(c["sbytes"]).decode("utf-8", "replace") if c["ok"] else "reject",
                           "observed": got, "entry_points": who})
        if c["v"].get("o") is not None and not o.get("signing"):
            raise vlib.ToolError("case %d: the signing form of an object was not computed" % o.get("i", -1))
    rep.sample({"value": cases[200]["v"], "text_spelling_1": obs[200]["text1"], "expected_bytes": cases[200]["bytes"]})
    n = 300000 if thorough else 5000
    tpath = vlib.record_trace("C01", ["record", "c01", "--n", str(n)])
    recs = vlib.read_ndjson(tpath)
    nrec, bad = vlib.validate_trace(rep, "C01", "Trace_C01", tpath, stack="1g")
    for i in bad:
        r = recs[i - 1]
        rep.violation("canon/trace/%s" % ("panic" if r["panic"] else ("entry-points-diverge" if r["kind"] == "diverge" else "bytes-or-verdict")), {"record": r})
    rep.sample({"trace_record": recs[2]})
    rep.cov["evaluations"] = len(cases) * 4 + len(recs)
    rep.cov["distinct_nontrivial"] = nontriv
    rep.cov["traces_validated_against_impl"] += len(cases)
    rep.cov["exhaustive"] = True
    rep.cov["rule"] = RULE
    rep.assumptions += ["the harness renders a tagged value as JSON text (4 spellings); serde_json is the tokenizer on the ruma side",
                        "losslessness: injectivity of Canon on normalized values is checked on the emitted model data"]


def replay(rep, path):
    print(open(path).read()[:3000])

"""System-level part shared by C03 / C05 / C08: receipts of Federation.tla replayed through real signed PDUs."""
import json
import os

import vlib

RULE = ("Federation.tla (servers exchanging signed PDUs, the receipt checks of the server-server specification, PDUs altered in "
        "flight, a Byzantine server): TLC explores every behaviour of the bounded instance, checks the design invariants and emits "
        "every receipt possible in every reachable state; each is replayed on real JSON PDUs: hash_and_sign_event by the sender's "
        "server, event ID = reference hash, the receiver's copies in full or redacted form, the alteration, verify_event, redact on "
        "a content-hash mismatch, reference_hash again, three auth_check calls.")


def run_part(rep, pid, tier):
    wd = vlib.workdir(pid)
    cpath = os.path.join(wd, "fed_cases.ndjson")
    cfgs = ["MC_Fed_quick.cfg", "MC_Fed_v11.cfg"] + (["MC_Fed_honest.cfg", "MC_Fed_deep.cfg"] if tier == "thorough" else [])
    for k, cfg in enumerate(cfgs):
        vlib.stream_cases(rep, pid, "MC_Fed", cfg, cpath, part="fed_" + cfg[7:-4], append=k > 0, heap="12g", stack="1g", timeout=5400, mcdir="FED")
    seen = set()
    upath = os.path.join(wd, "fed_cases_unique.ndjson")
    with open(cpath) as f, open(upath, "w") as g:
        for ln in f:
            if ln not in seen:
                seen.add(ln)
                g.write(ln)
    opath = os.path.join(wd, "fed_obs.ndjson")
    vlib.run_harness(["replay", "fed"], stdin_path=upath, stdout_path=opath, timeout=5400)
    n = 0
    by = {}
    with open(upath) as fc, open(opath) as fo:
        for lc, lo in zip(fc, fo):
            c = json.loads(lc)
            o = json.loads(lo)
            n += 1
            by[c["result"]] = by.get(c["result"], 0) + 1
            slim = {"v": c["v"], "to": c["to"], "id": c["id"], "tamper": c["tamper"], "view": c["view"], "events": c["events"],
                    "before": c["before"], "current": c["current"]}
            exp = {k: c[k] for k in ("result", "form", "byAuth", "byBefore", "byCur")}
            if o["result"] in ("panic", "harness-error"):
                rep.violation("federation/%s" % o["result"], {"case": slim, "observed": o})
            elif c["result"] == "dropped" or o["result"] == "dropped":
                if o["result"] != c["result"]:
                    rep.violation("federation/signature-check/%s" % c["tamper"], {"case": slim, "expected": exp, "observed": o})
            else:
                if o["form"] != c["form"]:
                    rep.violation("federation/content-hash-check/%s" % c["tamper"], {"case": slim, "expected": exp, "observed": o})
                elif not o["id_stable"]:
                    rep.violation("federation/event-id-changes/%s" % c["tamper"], {"case": slim, "expected": exp, "observed": o})
                elif (o["byAuth"], o["byBefore"], o["byCur"]) != tuple("allow" if c[k] == "allow" else "reject" for k in ("byAuth", "byBefore", "byCur")) \
                        and "unspec" not in (c["byAuth"], c["byBefore"], c["byCur"]):
                    rep.violation("federation/authorization-of-%s-form" % c["form"], {"case": slim, "expected": exp, "observed": o})
    rep.part("federation", receipts=n, by_result=by)
    rep.cov["evaluations"] += n
    rep.cov["traces_validated_against_impl"] += n
    rep.cov["distinct_nontrivial"] += n
    rep.cov["rule"] += " SYSTEM MODEL: " + RULE
    return n

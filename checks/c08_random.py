"""C08: randomised concrete (room version, state, event) triples on top of the exhaustive abstraction.
Each event is emitted in two encodings: `c` (what the harness builds real JSON contents from) and flat, uniformly typed
fields that Trace_C08.tla turns back into the event records of EventAuth.tla."""
import random

S1, S2 = "s1", "s2"
UC = ("@c:s1", S1)
UA = ("@a:s1", S1)
UB = ("@b:s2", S2)
UZ = ("@z:s1", S1)
USERS = [UC, UA, UB, UZ]
NOUSER = ("", "")
LEVELS = [-1, 0, 1, 25, 49, 50, 51, 75, 99, 100, 101]
FIELDS = ["users_default", "events_default", "state_default", "ban", "redact", "kick", "invite"]
NOTPI = {"present": False, "signed": False, "hasmxid": False, "hastoken": False, "mxid": "", "mxidserver": "", "token": "", "sigkey": ""}


def V(k, n=0):
    return {"k": k, "n": n}


def compact(v):
    return v["n"] if v["k"] == "int" else ({"s": v["n"]} if v["k"] == "str" else {"bad": True})


def rnd_value(rng, v, p_absent):
    r = rng.random()
    if r < p_absent:
        return V("absent")
    lvl = rng.choice(LEVELS)
    r = rng.random()
    if r < 0.03:
        return V("bad")
    if r < 0.10:
        return V("str", lvl)
    return V("int", lvl)


def empty_pl():
    return {"fields": [{"f": f, **V("absent")} for f in FIELDS], "users": [], "events": [], "notifications": [], "userkeysvalid": True}


def rnd_pl(rng, v):
    pl = empty_pl()
    for x in pl["fields"]:
        x.update(rnd_value(rng, v, 0.55))
    for u in rng.sample(USERS, rng.randrange(0, 4)):
        val = rnd_value(rng, v, 0.0)
        if val["k"] != "bad" and rng.random() < 0.5:
            val["n"] = rng.choice([50, 75, 100])      # enough power to do something
        pl["users"].append({"u": u[0], **val})
    for t in rng.sample(["m.room.message", "m.room.topic", "m.room.power_levels", "m.room.name", "m.room.redaction", "org.x"], rng.randrange(0, 3)):
        pl["events"].append({"u": t, **rnd_value(rng, v, 0.0)})
    if rng.random() < 0.3:
        pl["notifications"].append({"u": "room", **rnd_value(rng, v, 0.0)})
    return pl


def mutate_pl(rng, v, old):
    import copy
    pl = copy.deepcopy(old)
    for _ in range(rng.randrange(0, 3)):
        r = rng.random()
        if r < 0.4:
            x = rng.choice(pl["fields"])
            x.update(rnd_value(rng, v, 0.3))
        elif r < 0.8:
            which = rng.choice(["users", "events", "notifications"])
            pool = {"users": [u[0] for u in USERS], "events": ["m.room.message", "m.room.topic", "org.x"], "notifications": ["room"]}[which]
            key = rng.choice(pool)
            lst = [x for x in pl[which] if x["u"] != key]
            val = rnd_value(rng, v, 0.3)
            if val["k"] != "absent":
                lst.append({"u": key, **val})
            pl[which] = lst
        elif r < 0.85:
            pl["userkeysvalid"] = False
    return pl


def cpl(pl):
    o = {x["f"]: compact(x) for x in pl["fields"] if x["k"] != "absent"}
    for which in ("users", "events", "notifications"):
        o[which] = {x["u"]: compact(x) for x in pl[which]}
    o["userkeysvalid"] = pl["userkeysvalid"]
    return o


def event(id_, type_, sender, haskey=False, key="", **kw):
    e = {"id": id_, "type": type_, "sender": sender[0], "sserver": sender[1], "haskey": haskey, "key": key,
         "keyisuser": kw.get("keyisuser", False), "target": kw.get("target", NOUSER)[0], "tserver": kw.get("target", NOUSER)[1],
         "targetvalid": True, "prev": kw.get("prev", ["$p"]), "auth": kw.get("auth", ["$create"]), "roomserver": S1,
         "idserver": kw.get("idserver", sender[1]), "ts": 1,
         "membership": kw.get("membership", "absent"), "jauth": kw.get("jauth", NOUSER)[0], "jserver": kw.get("jauth", NOUSER)[1],
         "tpi": kw.get("tpi", dict(NOTPI)), "hascreator": kw.get("hascreator", True), "creator": UC[0], "cserver": UC[1],
         "federate": kw.get("federate", True), "join_rule": kw.get("join_rule", "absent"), "redactsserver": kw.get("redactsserver", ""),
         "pl": kw.get("pl", empty_pl()), "tpitop": "k8", "tpilist": kw.get("tpilist", ["k7"])}
    # harness encoding of the content
    if type_ == "m.room.create":
        e["c"] = {"hascreator": e["hascreator"], "creator": e["creator"], "federate": e["federate"]}
    elif type_ == "m.room.member":
        t = e["tpi"]
        e["c"] = {"membership": e["membership"], "jauth": e["jauth"],
                  "tpi": {"present": t["present"], "signed": t["signed"], "hasmxid": t["hasmxid"], "hastoken": t["hastoken"], "mxid": t["mxid"],
                          "token": t["token"], "sigkey": t["sigkey"]}}
    elif type_ == "m.room.join_rules":
        e["c"] = {"join_rule": e["join_rule"]}
    elif type_ == "m.room.power_levels":
        e["c"] = {"pl": cpl(e["pl"])}
    elif type_ == "m.room.redaction":
        e["c"] = {"redactsserver": e["redactsserver"]}
    elif type_ == "m.room.third_party_invite":
        e["c"] = {"tpikeys": {"top": e["tpitop"], "list": e["tpilist"]}}
    else:
        e["c"] = {"none": True}
    return e


def member(id_, sender, target, m, **kw):
    return event(id_, "m.room.member", sender, True, target[0], keyisuser=True, target=target, membership=m, **kw)


def gen_case(rng):
    v = rng.randrange(1, 12)
    want_tpi = rng.random() < 0.08       # third-party invites: state event and candidate event together
    st = []
    federate = rng.random() < 0.9
    create = event("$create", "m.room.create", UC, True, "", prev=[], auth=[], hascreator=(v < 11), federate=federate)
    st.append(create)
    pl = None
    if rng.random() < 0.75:
        pl = rnd_pl(rng, v)
        st.append(event("$pl", "m.room.power_levels", UC, True, "", pl=pl))
    if rng.random() < 0.85:
        jr = rng.choice(["public", "invite", "knock", "restricted", "knock_restricted", "private", "org.custom"])
        st.append(event("$jr", "m.room.join_rules", UC, True, "", join_rule=jr))
    ms = {}
    for u in USERS:
        m = rng.choice(["join", "join", "join", "invite", "leave", "ban", "knock", "absent"]) if u != UC else rng.choice(["join", "join", "join", "leave", "absent"])
        ms[u] = m
        if m != "absent":
            st.append(member("$m" + u[0], u, u, m))
    if rng.random() < (0.85 if want_tpi else 0.1):
        st.append(event("$tpi", "m.room.third_party_invite", rng.choice([UA, UC]), True, "tok", tpilist=rng.choice([[], ["k7"], ["k8"], ["k7", "k8"], ["k9"]])))
    if rng.random() < 0.3:
        st.append(event("$topic", "m.room.topic", UC, True, ""))
    # candidate event: mostly from a joined user, so that the later rules are reached
    joined = [u for u in USERS if ms.get(u) == "join"]
    sender = rng.choice(joined) if joined and rng.random() < 0.8 else rng.choice(USERS)
    auth = ["$create"] if rng.random() < 0.97 else []
    r = rng.random()
    if r < 0.45 or want_tpi:
        target = rng.choice(USERS)
        m = "invite" if want_tpi else rng.choice(["join", "invite", "leave", "ban", "knock"])
        kw = {}
        if m == "join" and v >= 8 and rng.random() < 0.4:
            kw["jauth"] = rng.choice([u for u in USERS if u != target])
        if m == "invite" and (want_tpi or rng.random() < 0.1):
            sg = rng.random() < 0.85
            mx = rng.choice([target, UZ])
            kw["tpi"] = {"present": True, "signed": sg, "hasmxid": sg and rng.random() < 0.9, "hastoken": sg and rng.random() < 0.9,
                         "mxid": "", "mxidserver": "", "token": "", "sigkey": rng.choice(["k7", "k8", "k8", "k9"]) if sg else ""}
            if kw["tpi"]["hasmxid"]:
                kw["tpi"]["mxid"], kw["tpi"]["mxidserver"] = mx
            if kw["tpi"]["hastoken"]:
                kw["tpi"]["token"] = rng.choice(["tok", "tok2"])
        prev = rng.choice([["$create"], ["$create"], [], ["$create", "$p"]]) if (m == "join" and rng.random() < 0.15) else ["$p"]
        e = member("$e", sender, target, m, prev=prev, auth=auth, **kw)
    elif r < 0.65:
        base = pl if pl is not None else empty_pl()
        e = event("$e", "m.room.power_levels", sender, True, "", auth=auth, pl=mutate_pl(rng, v, base) if rng.random() < 0.9 else rnd_pl(rng, v))
    elif r < 0.75:
        e = event("$e", "m.room.message", sender, False, "", auth=auth)
    elif r < 0.83:
        e = event("$e", rng.choice(["m.room.topic", "m.room.name", "org.x"]), sender, True, "", auth=auth)
    elif r < 0.88:
        other = rng.choice(USERS)
        e = event("$e", "org.x", sender, True, other[0], keyisuser=True, auth=auth)
    elif r < 0.93:
        e = event("$e", "m.room.redaction", sender, False, "", auth=auth, idserver=rng.choice([S1, S2]), redactsserver=rng.choice([S1, S2]))
    elif r < 0.97:
        e = event("$e", "m.room.aliases", sender, rng.random() < 0.9, rng.choice([S1, S2]), auth=auth)
    else:
        e = event("$e", "m.room.third_party_invite", sender, True, "tok9", auth=auth)
    return {"v": v, "st": st, "e": e, "sel": []}


def generate(seed, n):
    rng = random.Random(seed * 104729 + 8)
    return [gen_case(rng) for _ in range(n)]

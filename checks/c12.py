"""C12 push rule evaluation."""
import json

import vlib

RULE = ("TLC enumerates (a) every glob pattern of length <= 3 over {a,b,-,A,*,?} against every text of length <= 3 (quick) / 4 "
        "(thorough) over {a,b,_,-,space,newline,e-acute,A}, for whole-value and word-boundary matching (three-valued); (b) every "
        "ruleset of <= 3 rules over kind x enabled x matches, for own and foreign events; (c) nested events whose keys contain "
        "'.' and '\\\\' with every leaf kind, their escaped paths, event_match / event_property_is / event_property_contains per "
        "leaf; (d) every room_member_count comparison. Non-trivial: glob cases with a wildcard or a verdict of must; prio cases "
        "with >= 2 rules; every flat / count case. Recorded random longer patterns/bodies are validated by Trace_C12.")


def cmp_word(rep, c, verdict, got, what):
    if (verdict == "must" and not got) or (verdict == "mustnot" and got):
        pat = vlib.cp_to_str(c["p"])
        cls = "wildcard" if ("*" in pat or "?" in pat) else "literal"
        rep.violation("glob/%s/%s/expected-%s" % (what, cls, verdict), {"pattern": pat, "text": vlib.cp_to_str(c["t"]), "case": c, "observed": got})


def norm(x):
    return json.dumps(x, sort_keys=True)


def run(rep, tier):
    thorough = tier == "thorough"
    cases, _ = vlib.model_check(rep, "C12", "MC_C12", cfg="MC_C12_thorough.cfg" if thorough else "MC_C12.cfg", heap="12g")
    obs = vlib.replay_cases("C12", cases, ["replay", "c12"])
    nontriv = 0
    for c, o in zip(cases, obs):
        part = c["part"]
        if "panic" in o:
            rep.violation("%s/panic" % part, {"case": c, "observed": o})
            continue
        if part == "glob":
            if c["whole"] != o["whole"]:
                rep.violation("glob/whole-value/expected-%s" % c["whole"], {"pattern": vlib.cp_to_str(c["p"]), "text": vlib.cp_to_str(c["t"]), "observed": o["whole"]})
            cmp_word(rep, c, c["word"], o["word"], "word")
            if "dn" in o:
                cmp_word(rep, c, c["dn"], o["dn"], "display-name")
            if "content_rule" in o:
                cmp_word(rep, c, c["word"], o["content_rule"], "content-rule")
            if not c["lit"] or c["word"] == "must":
                nontriv += 1
        elif part == "prio":
            if o["match"] != c["exp"] or o["nactions"] != c["exp"]:
                rep.violation("priority/wrong-rule", {"case": c, "observed": o})
            if len(c["rules"]) >= 2:
                nontriv += 1
        elif part == "count":
            if o["res"] != c["exp"]:
                rep.violation("member-count/%s" % (c["op"] or "bare"), {"case": c, "observed": o})
            nontriv += 1
        elif part == "flat":
            nontriv += 1
            got = {norm(l["path"]): l for l in o["leaves"]}
            for l in c["leaves"]:
                g = got[norm(l["path"])]
                # the stored form of a leaf is only specified for scalars, arrays of scalars and empty objects; what a condition
                # answers is specified for every leaf (an element that is not a scalar equals no scalar)
                lf = l["leaf"]
                plain = "f" not in lf and all(set(x) <= {"s", "i", "b", "z"} for x in lf.get("a", []))
                if plain and norm(g["leaf"]) != norm(l["leaf"]):
                    rep.violation("paths/leaf-not-found-or-different", {"case": c, "path": vlib.cp_to_str(l["path"]), "expected": l["leaf"], "observed": g["leaf"]})
                for k in ("star", "lit"):
                    want = l[k] == "must"
                    if g[k] != want:
                        rep.violation("event_match/non-string-or-path", {"case": c, "path": vlib.cp_to_str(l["path"]), "pattern": k, "expected": want, "observed": g[k]})
                for k in ("is", "contains"):
                    if sorted(map(norm, g[k])) != sorted(map(norm, l[k])):
                        rep.violation("event_property_%s" % k, {"case": c, "path": vlib.cp_to_str(l["path"]), "expected": l[k], "observed": g[k]})
            if sorted(map(norm, o["absent"])) != sorted(map(norm, c["absent"])):
                rep.violation("paths/unescaped-path-resolves", {"case": c, "expected_absent": c["absent"], "observed_absent": o["absent"]})
    rep.sample({"case": cases[1000], "observed": obs[1000]})
    n = 100000 if thorough else 6000
    tpath = vlib.record_trace("C12", ["record", "c12", "--n", str(n)])
    recs = vlib.read_ndjson(tpath)
    nrec, bad = vlib.validate_trace(rep, "C12", "Trace_C12", tpath, stack="1g")
    if nrec != len(recs):
        raise vlib.ToolError("trace validation covered %d of %d records" % (nrec, len(recs)))
    for i in bad:
        r = recs[i - 1]
        rep.violation("glob/trace/%s" % ("panic" if r["panic"] else "mismatch"), {"pattern": vlib.cp_to_str(r["p"]), "text": vlib.cp_to_str(r["t"]), "record": r})
    rep.sample({"trace_record": recs[3]})
    rep.cov["evaluations"] = len(cases) + len(recs)
    rep.cov["distinct_nontrivial"] = nontriv
    rep.cov["traces_validated_against_impl"] += len(cases)
    rep.cov["exhaustive"] = True
    rep.cov["rule"] = RULE
    rep.assumptions += ["a non-word character inside a word match serving as its own boundary is UNSPEC; the empty pattern is UNSPEC",
                        "display names are literal text: a name containing * or ? is looked for as those characters (DisplayNameVerdict)"]


def replay(rep, path):
    d = json.load(open(path))["detail"]
    print(json.dumps(d)[:2000])

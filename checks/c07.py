"""C07 resolved state = the spec's state resolution v2; shared pipeline with C06."""
import json
import os

import vlib

RULE07 = ("Room.tla: 2 servers, 3 users, 5 base rooms (bare; public with power levels; power levels changed twice = mainline of "
          "length 3; invite-only; public without power levels); TLC explores every behaviour of 2 (quick) / 3 (thorough, sampled) "
          "further events - any user action the authorization rules allow on top of the server's extremities, with or without "
          "pulling first, smallest id + late timestamp or largest id + early timestamp - and emits every pending merge (each "
          "server's extremities, all leaves) with the specification's full conflicted set, reverse topological power order, "
          "mainline order and resolved state; ruma_state_res::resolve must reproduce all four (intermediate lists are captured "
          "from its tracing events). TopoSort.tla: all DAGs on 3 (quick) / 4 (thorough) nodes x power x timestamp x id order "
          "against lexicographical_topological_sort. Non-trivial = merges with a non-empty conflicted set.")
RULE06 = ("same merges as C07; each is resolved again under shuffled orders of the state sets, differently rotated auth-chain "
          "sets, maps rebuilt in reversed insertion order with fresh hasher seeds, 3 repetitions, on 4 threads; all results must "
          "equal the first result and the set-based specification result (which has no order by construction); single or "
          "identical state sets must be returned unchanged (theorem on the model + replay).")

KNOWN = "stateres/mainline-position-of-events-without-power-level-ancestor"


def st(l):
    return sorted(map(tuple, l))


def stream(rep, pid, tier, perms):
    wd = vlib.workdir(pid)
    cpath = os.path.join(wd, "cases.ndjson")
    thorough = tier == "thorough"
    parts = [
        # every behaviour of two further events on the richer base rooms
        ("mc_room", "MC_C07_tiny.cfg"),
        # forks made by one server on a stale view: events with and without a power-level ancestor in conflict
        ("mc_room_stale", "MC_C07_stale.cfg" if thorough else "MC_C07_stale1.cfg"),
        # restricted rooms in the versions that introduced them (restricted joins racing bans of the authorising user)
        ("mc_room_restricted8", "MC_C07_restricted8.cfg"),
        # one sender with different power levels on the two branches of a fork (per-event, not per-sender, power in the power ordering)
        ("mc_room_powerfork", "MC_C07_powerfork2.cfg" if thorough else "MC_C07_powerfork.cfg"),
        # resolve is defined for any collection of states: every pair and triple of states of the DAG (three-way merges, a state
        # and its own ancestor, superseded power levels that only occur in auth chains, a merge merged again with one branch)
        ("mc_room_subsets", "MC_C07_subsets.cfg"),
        # ... and every pair with two further events on the small base rooms (a state against the state before a join / leave
        # pair whose timestamps are inverted, ...); the pending merges of these base rooms are included
        ("mc_room_pairs2", "MC_C07_pairs2.cfg"),
    ]
    if thorough:
        parts.append(("mc_room_restricted9", "MC_C07_restricted9.cfg"))
    # the configurations are independent: run them side by side with a few TLC workers each
    import concurrent.futures
    per = max(2, int(os.environ.get("VERIF_TLC_WORKERS", "16")) // 4)

    def one(pc):
        part, cfg = pc
        path = os.path.join(wd, "cases_%s.ndjson" % part)
        vlib.stream_cases(rep, pid, "MC_C07", cfg, path, part=part, heap="12g", stack="1g", timeout=5400, workers=per)
        return path
    with concurrent.futures.ThreadPoolExecutor(max_workers=4) as ex:
        paths = list(ex.map(one, parts))
    # de-duplicate merges (the same merge is pending in many states).  The determinism check (C06, perms > 1) resolves every
    # merge 18 times or more; in the quick tier it takes every pending merge and a fixed third of the arbitrary pairs / triples.
    import zlib
    seen = set()
    upath = os.path.join(wd, "cases_unique.ndjson")
    skipped = 0
    with open(upath, "w") as g:
        for (part, _), pth in zip(parts, paths):
            sample = perms > 1 and not thorough and part in ("mc_room_subsets", "mc_room_pairs2")
            with open(pth) as f:
                for ln in f:
                    if ln in seen:
                        continue
                    seen.add(ln)
                    if sample and zlib.crc32(ln.encode()) % 3 != 0:
                        skipped += 1
                        continue
                    g.write(ln)
            os.remove(pth)
    rep.part("mc_room", unique_merges=len(seen), left_to_the_thorough_tier=skipped)
    opath = os.path.join(wd, "obs.ndjson")
    vlib.run_harness(["replay", "c07", "--perms", str(perms)], stdin_path=upath, stdout_path=opath, timeout=5400)
    with open(upath) as fc, open(opath) as fo:
        for lc, lo in zip(fc, fo):
            yield json.loads(lc), json.loads(lo)


def slim(c):
    return {"v": c["v"], "events": c["events"], "sets": c["sets"]}


def run(rep, tier):
    n = nontriv = nconn = nolists = 0
    for c, o in stream(rep, "C07", tier, 1):
        n += 1
        if c["full"]:
            nontriv += 1
        if "panic" in o or "resolved" not in o:
            rep.violation("stateres/panic-or-error", {"case": slim(c), "observed": o})
            continue
        # the intermediate results are read from ruma's own tracing events; where a build does not emit them (a log message
        # reworded or removed) only the resolved state is compared, and the evidence says how many merges that concerned
        observed = all(k in o for k in ("full", "power", "rest")) or not c["full"]
        if not observed:
            nolists += 1
            if st(o["resolved"]) != st(c["resolved"]) and st(o["resolved"]) != st(c["resolved_oldest"]) and st(o["resolved"]) != st(c["variants"][1]["resolved"]):
                rep.violation("stateres/resolved-state", {"case": slim(c), "expected": c["resolved"], "observed": o["resolved"]})
            elif st(o["resolved"]) != st(c["resolved"]):
                rep.violation(KNOWN, {"case": slim(c), "spec_resolved": c["resolved"], "observed_resolved": o["resolved"]})
            continue
        if c["full"] and sorted(o.get("full", [])) != sorted(c["full"]):
            rep.violation("stateres/full-conflicted-set", {"case": slim(c), "expected": sorted(c["full"]), "observed": o.get("full")})
        # Intermediate orders.  Besides the text of the specification two readings are accepted for the *lists* as long as the
        # resolved state is the one of the text: the connected reading of the power set (what the reference implementation does)
        # -- and the recorded defect of the mainline position is recognised as such, never silently accepted.
        res_ok = st(o["resolved"]) == st(c["resolved"])
        lists = (o.get("power", []), o.get("rest", []))
        if not c["full"]:
            if not res_ok:
                rep.violation("stateres/resolved-state", {"case": slim(c), "expected": c["resolved"], "observed": o["resolved"]})
        elif lists == (c["power"], c["rest"]) and res_ok:
            pass
        elif lists == (c["variants"][0]["power"], c["variants"][0]["rest"]) and res_ok and st(c["variants"][0]["resolved"]) == st(c["resolved"]):
            nconn += 1
        elif ((lists == (c["power"], c["rest_oldest"]) and st(o["resolved"]) == st(c["resolved_oldest"])) or
              (lists == (c["variants"][1]["power"], c["variants"][1]["rest"]) and st(o["resolved"]) == st(c["variants"][1]["resolved"])
               and st(c["variants"][0]["resolved"]) == st(c["resolved"]))):
            # the one recorded defect: events without a power-level ancestor are given the position of the oldest
            # mainline event instead of infinity; everything else must still match that variant exactly
            rep.violation(KNOWN, {"case": slim(c), "spec_order": c["rest"], "observed_order": o.get("rest"),
                                  "spec_resolved": c["resolved"], "observed_resolved": o["resolved"]})
        elif lists[0] != c["power"] and lists[0] != c["variants"][0]["power"]:
            rep.violation("stateres/reverse-topological-power-order", {"case": slim(c), "expected": c["power"], "observed": o.get("power")})
        elif lists[1] != c["rest"] and lists[1] != c["variants"][0]["rest"]:
            rep.violation("stateres/mainline-order", {"case": slim(c), "expected": c["rest"], "observed": o.get("rest")})
        else:
            rep.violation("stateres/resolved-state", {"case": slim(c), "expected": c["resolved"], "observed": o["resolved"],
                                                      "connected_reading_resolved": c["variants"][0]["resolved"]})
        if n == 50:
            rep.sample({"merge": slim(c), "expected": {k: c[k] for k in ("full", "power", "rest", "resolved")}, "observed": {k: o.get(k) for k in ("full", "power", "rest", "resolved")}})
    # topological sort
    cases, _ = vlib.model_check(rep, "C07", "MC_Topo", cfg="MC_Topo_4.cfg" if tier == "thorough" else "MC_Topo_3.cfg", part="mc_topo")
    obs = vlib.replay_cases("C07", cases, ["topo", "c07"], part="topo")
    for c, o in zip(cases, obs):
        if o.get("order") != c["order"]:
            rep.violation("toposort/wrong-order", {"case": c, "observed": o})
    rep.part("replay", merges=n, lists_following_the_connected_reading_of_the_power_set=nconn, merges_without_observable_intermediate_lists=nolists)
    rep.cov["evaluations"] = n + len(cases)
    rep.cov["distinct_nontrivial"] = nontriv + len(cases)
    rep.cov["traces_validated_against_impl"] = n + len(cases)
    rep.cov["exhaustive"] = True
    rep.cov["rule"] = RULE07
    rep.assumptions += ["m.room.create is never in the conflicted set; room version 1 resolution is not implemented by ruma and not modelled",
                        "intermediate lists of ruma are read from its tracing events (no source hook)"]


def hand_made_histories(rep):
    """Histories no well-behaved server produces but the code accepts: resolve must return (an answer or an error)."""
    _, out, _ = vlib.run_harness(["probes", "c07"], timeout=120)
    k = 0
    for ln in out.splitlines():
        r = json.loads(ln)
        k += 1
        if not r["returned"]:
            rep.violation("determinism/resolve-does-not-return/%s" % r["probe"], r)
        elif r["result"].startswith("panic"):
            rep.violation("determinism/panic-or-error", r)
        elif r.get("distinct", 1) > 1:
            rep.violation("determinism/result-depends-on-order-or-run/hand-made/%s" % r["probe"], r)
    if k < 1:
        raise vlib.ToolError("the hand-made histories did not run")
    rep.part("hand_made_histories", probes=k)


def run06(rep, tier):
    n = nontriv = runs = 0
    hand_made_histories(rep)
    for c, o in stream(rep, "C06", tier, 11 if tier == "thorough" else 5):
        n += 1
        if "panic" in o or "resolved" not in o:
            rep.violation("determinism/panic-or-error", {"case": slim(c), "observed": o})
            continue
        runs += o["runs"]
        if len(c["sets"]) >= 2 and c["full"]:
            nontriv += 1
        if o["diverging"]:
            rep.violation("determinism/result-depends-on-order-or-run", {"case": slim(c), "first": o["resolved"], "diverging": o["diverging"][:3]})
        if not c["full"] and st(o["resolved"]) != st(c["resolved"]):
            rep.violation("determinism/unconflicted-sets-not-returned-unchanged", {"case": slim(c), "observed": o["resolved"]})
        if n == 50:
            rep.sample({"merge": slim(c), "runs": o["runs"], "diverging": o["diverging"]})
    rep.part("replay", resolve_calls=runs)
    rep.cov["evaluations"] = runs
    rep.cov["distinct_nontrivial"] = nontriv
    rep.cov["traces_validated_against_impl"] = n
    rep.cov["exhaustive"] = False
    rep.cov["rule"] = RULE06
    rep.assumptions += ["hash-iteration orders and thread schedules are sampled by repetition with fresh RandomState seeds, not enumerated"]


def replay(rep, path):
    print(open(path).read()[:3000])

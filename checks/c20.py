"""C20 power-level helpers vs authorization."""
import json

import vlib

RULE = ("TLC enumerates power-level contents for room versions 3-11: actor level 50 from a users entry or users_default, target "
        "entry absent/<,=,> actor, ban/kick/invite thresholds absent/<,=,>, target membership join/invite/leave/ban/absent; "
        "events_default/state_default/events[m.room.message]/events[m.room.topic] absent/<,=,>; notifications.room absent/<,=,>; "
        "all levels as integers or as strings. The theorem helper <=> EventAuth!Auth accepts the corresponding event is checked "
        "on the model for every configuration; each configuration is replayed through the real RoomPowerLevels helpers, the real "
        "push condition and the real auth_check. Non-trivial = specified (well-formed state for the version).")

HELPERS = ["ban", "kick", "unban", "invite", "msg", "topic", "topicmsg", "tpi", "aliases", "notif", "la", "lb"]


def run(rep, tier):
    thorough = tier == "thorough"
    cases, _ = vlib.model_check(rep, "C20", "MC_C20", cfg="MC_C20_thorough.cfg" if thorough else "MC_C20.cfg")
    obs = vlib.replay_cases("C20", cases, ["replay", "c20"])
    nontriv = 0
    for c, o in zip(cases, obs):
        if "panic" in o:
            rep.violation("helpers/panic", {"case": c, "observed": o})
            continue
        if "h_err" in o:
            if c["spec"]:
                rep.violation("helpers/content-rejected", {"case": c, "observed": o})
            continue
        h = o["h"]
        # helpers are total functions of the content: compared with the documented meaning in every case
        for k in HELPERS:
            if h[k] != c[k]:
                rep.violation("helpers/%s-differs-from-documented-meaning" % k, {"case": c, "observed": h})
        if h["notif_condition"] != h["notif"]:
            rep.violation("helpers/notification-vs-push-condition", {"case": c, "observed": h})
        if not c["spec"]:
            continue
        nontriv += 1
        tm = c["tm"]
        pairs = [("ban", "a_ban", True), ("kick", "a_leave", tm in ("join", "invite")), ("unban", "a_leave", tm == "ban"),
                 ("invite", "a_invite", tm in ("leave", "absent")), ("msg", "a_msg", True), ("topic", "a_topic", True),
                 ("topicmsg", "a_topicmsg", True), ("tpi", "a_tpi", True), ("aliases", "a_aliases", True)]
        for hk, ak, applies in pairs:
            if o[ak] != c[ak]:
                rep.violation("auth/%s-differs-from-model" % ak, {"case": c, "observed": o})
            if applies and h[hk] != (o[ak] == "allow"):
                if hk == "aliases" and c["aliases_special"]:
                    # room versions up to 5 allow m.room.aliases under the sender's server name whatever the levels
                    rep.violation("helper-aliases-disagrees-with-auth_check/room-versions-with-the-special-rule-for-aliases", {"case": c, "helper": h[hk], "auth": o[ak]})
                else:
                    rep.violation("helper-%s-disagrees-with-auth_check" % hk, {"case": c, "helper": h[hk], "auth": o[ak]})
    rep.sample({"case": cases[len(cases) // 3], "observed": obs[len(cases) // 3]})
    rep.cov["evaluations"] = len(cases)
    rep.cov["distinct_nontrivial"] = nontriv
    rep.cov["traces_validated_against_impl"] = len(cases)
    rep.cov["exhaustive"] = True
    rep.cov["rule"] = RULE
    rep.assumptions += ["helpers are evaluated on RoomPowerLevels built from the deserialised m.room.power_levels content",
                        "rooms without a power-levels event are outside the helpers' domain (they take a content)"]


def replay(rep, path):
    d = json.load(open(path))["detail"]
    c = d["case"]
    o = vlib.replay_cases("C20", [c], ["replay", "c20"])[0]
    print(json.dumps(o))

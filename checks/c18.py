"""C18 typed events."""
import json
import os

import vlib

RULE = ("Events.tla holds the specification's event-type tables per event kind and the dispatch / content / Raw laws; TLC checks the "
        "tables' sanity and enumerates the dispatch table (kind x known and unknown types x format x redacted). The harness "
        "generates events from 87 spec-derived samples (22 state, 21 message-like, ephemeral, global / room account data, to-device; "
        "unknown types of each kind; a wildcard type with dotted suffix; near-misses of known and wildcard types such as m.secret_storage.keys): all optional fields present, each absent, all absent, an "
        "unknown content field, an unknown top-level field, keys in reversed order, sync / full / stripped formats, original and "
        "redacted (content redacted for room versions 1 and 11) and deserializes each into every applicable Any*Event enum. "
        "Trace_C18 judges every record: deserializes, known / custom variant by type, redacted variant, type string kept, accessors "
        "equal to the JSON, content serialise -> deserialise -> serialise fixpoint without duplicate keys, no present value "
        "changed (also for the typed redacted content of the seven event types that keep fields when redacted), key-order independence, "
        "independence of how the value of `type` is spelled (first character as \\uXXXX, `/` as \\/: same variant, same answers), Raw byte-identical and get_field consistent. Non-trivial = every record.")

K_JR = "events/redacted-event-fails-to-deserialize/m.room.join_rules"
K_MSG = "events/content-serializes-duplicate-keys/m.room.message-custom-msgtype-with-relation"
K_TPI = "events/spec-shaped-event-fails-to-deserialize/m.room.member-with-v11-redacted-third-party-invite-as-prev-content"
K_MEGOLM = "events/spec-shaped-event-fails-to-deserialize/m.room.encrypted-megolm-without-sender_key-and-device_id"


def run(rep, tier):
    mc = vlib.run_tlc("C18", "MC_C18", name="mc", workers=4)
    if mc.violated or mc.rc != 0:
        raise vlib.ToolError("model theorem violated in MC_C18")
    rep.add_tlc(mc, "mc")
    table = mc.records("CASE")
    tpath = vlib.record_trace("C18", ["record", "c18"])
    recs = vlib.read_ndjson(tpath)
    nrec, bad = vlib.validate_trace(rep, "C18", "Trace_C18", tpath, heap="12g")
    if nrec != len(recs):
        raise vlib.ToolError("trace validation covered %d of %d records" % (nrec, len(recs)))
    covered = {(r["kind"], r["type"], r["format"], r["redacted_in"]) for r in recs}
    rep.part("trace", dispatch_cells_in_table=len(table),
             dispatch_cells_exercised=sum(1 for t in table if (t["kind"], t["type"], "sync" if t["format"] == "plain" and t["kind"] == "ephemeral" else t["format"], t["redacted"]) in covered))
    for i in bad:
        r = recs[i - 1]
        det = {k: r[k] for k in ("type", "kind", "format", "variant", "redacted_in", "rv", "target", "extras", "err", "event", "content_text")}
        if r["panic"]:
            rep.violation("events/panic/%s" % r["type"], det)
        elif not r["ok"]:
            if r["type"] == "m.room.join_rules" and r["redacted_in"] and "newtype struct" in r["err"]:
                cls = K_JR
            elif r["tag"] == "v11-redacted-invite-as-prev-content" and "display_name" in r["err"]:
                cls = K_TPI
            elif r["tag"] == "megolm-without-deprecated-fields" and ("sender_key" in r["err"] or "device_id" in r["err"]):
                cls = K_MEGOLM
            else:
                cls = "events/%s-event-fails-to-deserialize/%s" % ("redacted" if r["redacted_in"] else "spec-shaped", r["type"])
            rep.violation(cls, det)
        elif r["hascontent"] and not r["nodup"]:
            cls = K_MSG if (r["type"] == "m.room.message" and r["tag"] == "custom-msgtype-with-relation") else "events/content-serializes-duplicate-keys/%s" % r["type"]
            rep.violation(cls, det)
        else:
            what = ("wrong-variant" if (r["known"] != (r["type"].startswith("m.") and not r["type"].endswith("unknown")) and False) else
                    "dispatch-or-accessors" if not (r["acc_ok"] and r["type_out"] == r["type"]) else
                    "content-not-a-fixpoint" if not r["fix_ok"] else "present-value-changed" if not r["subsumes"] else
                    "depends-on-type-spelling" if not r["spelling_indep"] else "depends-on-key-order" if not r["order_indep"] else "raw" if not (r["raw_identical"] and r["raw_field_ok"]) else "variant-or-redaction")
            rep.violation("events/%s/%s" % (what, r["type"]), det)
    rep.sample({"record": {k: recs[17][k] for k in ("type", "format", "variant", "redacted_in", "target", "ok", "known", "redacted_out", "fix_ok", "event")}})
    rep.cov["evaluations"] = len(recs)
    rep.cov["distinct_nontrivial"] = len({(r["sample"], r["variant"], r["format"], r["redacted_in"], r["rv"], r["extras"], r["target"]) for r in recs})
    rep.cov["exhaustive"] = False
    rep.cov["rule"] = RULE
    rep.assumptions += ["field-level fidelity of every content type is sampled by the 87 schema samples, not proven per field",
                        "typed content laws apply to original events of known types (ruma does not retain the content of custom types)",
                        "the catch-all variant is recognised from the derived Debug text of the event enums"]


def replay(rep, path):
    print(open(path).read()[:3000])

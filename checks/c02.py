"""C02 JSON signing and verification."""
import json

import vlib

RULE = ("TLC explores all behaviours of <= 4 (quick) / 7 (thorough) steps of the Signing state machine (sign by 2 entities x 2 key "
        "pairs, tamper payload, tamper/remove `unsigned`, flip a signature bit, drop a signature, add an unknown-algorithm "
        "signature, corrupt `signatures` or one entity entry, empty `signatures`), checks SignThenVerify / Soundness / KeepsOthers / "
        "UnsignedIrrelevant in every state, and emits from every reachable state every sign_json call (expected result and "
        "post-object) and verify_json under 9 key configurations (all right; each slot wrong / missing) with the permitted "
        "outcomes. The harness builds the object with real Ed25519 signatures and compares. Non-trivial = the pre-state has at "
        "least one signature or malformed part.")


def run(rep, tier):
    thorough = tier == "thorough"
    cases, _ = vlib.model_check(rep, "C02", "MC_C02", cfg="MC_C02_d7.cfg" if thorough else "MC_C02_d4.cfg")
    obs = vlib.replay_cases("C02", cases, ["replay", "c02"])
    nontriv = 0
    for c, o in zip(cases, obs):
        pre = c["pre"]
        if pre["sigs"]["kind"] != "absent":
            nontriv += 1
        if o["res"] == "panic":
            rep.violation("sign/%s-panics" % c["call"], {"case": c, "observed": o})
            continue
        if o["res"].startswith("big-object-differs"):
            rep.violation("%s/outcome-changes-when-the-object-exceeds-65535-bytes" % c["call"], {"case": c, "observed": o})
            continue
        if o["res"].startswith("late-keys-object-differs"):
            rep.violation("%s/outcome-changes-when-every-member-sorts-after-signatures" % c["call"], {"case": c, "observed": o})
            continue
        if c["call"] == "sign":
            if o["res"] != c["res"]:
                rep.violation("sign/result-%s-expected-%s" % (o["res"], c["res"]), {"case": c, "observed": o})
            elif not o["post_matches"]:
                cls = "sign/error-changed-the-object" if c["res"] == "err" else "sign/wrong-post-object"
                rep.violation(cls, {"case": c, "observed": o})
        else:
            if o["res"] not in c["outcomes"]:
                rep.violation("verify/%s-but-must-be-%s" % (o["res"], c["outcomes"][0]), {"case": c, "observed": o})
    rep.sample({"case": cases[len(cases) // 2], "observed": obs[len(cases) // 2]})
    _, out, _ = vlib.run_harness(["kat", "c02"])
    for ln in out.splitlines():
        r = json.loads(ln)
        if r["got"] != r["want"]:
            rep.violation("sign/known-answer/%s" % r["kat"], r)
    # key documents (PKCS#8 v1 and the shape ring writes; the ring-compat feature is enabled in vh-api)
    _, out, _ = vlib.run_harness(["c02keydocs"], pkg="vh-api")
    nk = 0
    for ln in out.splitlines():
        r = json.loads(ln)
        nk += 1
        if r["got"] != r["want"]:
            rep.violation("sign/known-answer/%s" % r["kat"], r)
    if nk < 4:
        raise vlib.ToolError("key-document known answers did not run (%d lines)" % nk)
    rep.cov["evaluations"] = len(cases)
    rep.cov["distinct_nontrivial"] = nontriv
    rep.cov["traces_validated_against_impl"] = len(cases)
    rep.cov["exhaustive"] = True
    rep.cov["rule"] = RULE
    rep.assumptions += ["Ed25519 itself is a trusted primitive: expected signatures are computed with ed25519-dalek directly over "
                        "hand-written canonical bytes; one published known answer (signature of {}) is checked",
                        "whether an extra signature without supplied key, or an empty `signatures` object, verifies is UNSPEC"]


def replay(rep, path):
    d = json.load(open(path))["detail"]
    o = vlib.replay_cases("C02", [d["case"]], ["replay", "c02"])[0]
    print(json.dumps(o))

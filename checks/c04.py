"""C04 redaction table per room version, idempotence, three entry points."""
import json

import vlib

RULE = ("TLC enumerates (room version 1-11) x (event type incl. every type with special redaction rules) x "
        "(top-level key choice: all / each single key / none) x (content key choice: all / each single / none / absent) x "
        "(third_party_invite shape); a case is non-trivial when redaction is specified for it and it has at least one key "
        "besides type; distinct = distinct emitted JSON cases")


def compare(rep, case, o):
    def bad(kind, **kw):
        rep.violation("redact/" + kind, {"case": case, "observed": o, **kw})

    if "panic" in o:
        return bad("panic")
    if not case["spec"]:
        return
    if not (o.get("a_ok") and o.get("b_ok") and o.get("d_ok")) or (case["hascontent"] and o.get("c_ok") is not True):
        return bad("error-on-specified-input")
    ob = o["obs"]
    if set(ob["top"]) - {"type"} != set(case["xtop"]):
        bad("top-level-keys/v%d" % case["v"], expected=sorted(case["xtop"]))
    if ob["hascontent"] != case["hascontent"] or set(ob["content"]) != set(case["xcontent"]):
        bad("content-keys/v%d/%s" % (case["v"], case["type"]), expected=sorted(case["xcontent"]))
    if ob["tpikind"] != case["xtpikind"] or set(ob["tpi"]) != set(case["xtpi"]):
        bad("third-party-invite/v%d" % case["v"], expected=[case["xtpikind"], sorted(case["xtpi"])])
    if not ob["untouched"]:
        bad("kept-value-changed")
    if ob["added"]:
        bad("data-added")
    if not o.get("idempotent"):
        bad("not-idempotent")
    if not o.get("agree"):
        bad("entry-points-disagree")
    ob2 = o.get("obs_because")
    if not ob2 or not ob2["because_ok"] or not o.get("because_same"):
        bad("redacted-because")


def run(rep, tier):
    thorough = tier == "thorough"
    cases, _ = vlib.model_check(rep, "C04", "MC_C04", cfg="MC_C04_thorough.cfg" if thorough else "MC_C04.cfg")
    obs = vlib.replay_cases("C04", cases, ["replay", "c04"])
    nontrivial = 0
    for c, o in zip(cases, obs):
        compare(rep, c, o)
        if c["spec"] and (c["top"] or c["content"]):
            nontrivial += 1
    rep.sample({"case": cases[len(cases) // 2], "observed": obs[len(cases) // 2]})
    n = 80000 if thorough else 4000
    tpath = vlib.record_trace("C04", ["record", "c04", "--n", str(n)])
    recs = vlib.read_ndjson(tpath)
    nrec, bad = vlib.validate_trace(rep, "C04", "Trace_C04", tpath)
    if nrec != len(recs):
        raise vlib.ToolError("trace validation covered %d of %d records" % (nrec, len(recs)))
    for i in bad:
        r = recs[i - 1]
        rep.violation("redact/trace/v%d/%s" % (r["v"], "panic" if r["panic"] else "mismatch"), {"record": r})
    rep.sample({"trace_record": recs[0]})
    rep.cov["evaluations"] = len(cases) + len(recs)
    rep.cov["distinct_nontrivial"] = nontrivial + len({json.dumps({k: r[k] for k in ("v", "type", "top", "content", "tpikind", "tpi")}, sort_keys=True) for r in recs})
    rep.cov["traces_validated_against_impl"] += len(cases)
    rep.cov["exhaustive"] = True
    rep.cov["rule"] = RULE
    rep.assumptions += ["values of kept keys are compared by deep equality in the harness (TLA+ treats them as atoms)",
                        "rules are obtained only through RoomVersionId::try_from(n).rules()"]


def replay(rep, path):
    d = json.load(open(path))["detail"]
    if "case" in d:
        c = d["case"]
        o = vlib.replay_cases("C04", [c], ["replay", "c04"])[0]
        compare(rep, c, o)
    else:
        import os
        wd = vlib.workdir("C04")
        t = os.path.join(wd, "replay_trace.ndjson")
        r = dict(d["record"]); r["i"] = 1
        vlib.write_ndjson(t, [r])
        _, bad = vlib.validate_trace(rep, "C04", "Trace_C04", t, part="replaytrace")
        for _ in bad:
            rep.violation("redact/trace", {"record": r})

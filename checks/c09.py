"""C09 auth-event selection and non-interference (shares the C08 enumeration)."""
from checks import c08


def run(rep, tier):
    c08.run09(rep, tier)


replay = c08.replay

"""C19 string enums."""
import json
import os
import re
import subprocess

import vlib

RULE = ("StringEnum.tla holds the Matrix specification's spellings for 60 enums (membership, join rules, history visibility, guest "
        "access, message / event types of every event kind, algorithms, rule kinds, presence, receipt types, tags, relations, cancel "
        "codes, verification methods, predefined rule IDs, VoIP, secrets, enums of the API crates ...), the documented alias targets, and the laws (lossless, alias -> declared variant and documented alias -> its canonical spelling, specified spelling -> dedicated variant, "
        "idempotent, Display = Serialize = Deserialize = From<String>, Eq/Ord/PartialOrd agree with the string form). The harness "
        "converts, for each of 46 enum types of ruma-common / ruma-events / ruma-state-res and 18 of the API crates, every specified spelling, 13 near-misses of each (case, prefix, suffix, one-character "
        "edits), every alias declared anywhere in the sources, wildcard event types with dotted suffixes, and random Unicode "
        "strings, plus all pairs of a base set for order/equality; Trace_C19 judges every record. Non-trivial = conversions of "
        "specified spellings, aliases, wildcard types, and all pairs.")

KNOWN_ORD = "enum/ordering-differs-from-string-order"


def aliases_in_sources():
    out = subprocess.run(["grep", "-rhoE", r'alias = "[^"]*"', os.path.join(vlib.REPO, "crates"), "--include=*.rs"], stdout=subprocess.PIPE, text=True).stdout
    return sorted({m for m in re.findall(r'alias = "([^"]*)"', out)})


def run(rep, tier):
    cases, _ = vlib.model_check(rep, "C19", "MC_C19", workers=4)
    wd = vlib.workdir("C19")
    al = aliases_in_sources()
    apath = os.path.join(wd, "aliases.json")
    json.dump(al, open(apath, "w"))
    cpath = os.path.join(wd, "table.ndjson")
    vlib.write_ndjson(cpath, cases)
    tpath = os.path.join(wd, "trace.ndjson")
    vlib.run_harness(["record", "c19", "--aliases", apath, "--random", "3000" if tier == "thorough" else "30"], stdin_path=cpath, stdout_path=tpath)
    # the enums of the API crates (error codes through ErrorCode and through a received error body) are probed by vh-api
    _, apiout, _ = vlib.run_harness(["c19api"], pkg="vh-api", stdin_path=cpath)
    with open(tpath, "a") as f:
        f.write(apiout)
    recs = vlib.read_ndjson(tpath)
    a2 = os.path.join(wd, "aliases.ndjson")
    vlib.write_ndjson(a2, [{"aliases": al}])
    res = vlib.run_tlc("C19", "Trace_C19", name="trace", env={"TRACE": tpath, "ALIASES": a2}, heap="12g", stack="512m")
    if res.violated or res.rc != 0:
        raise vlib.ToolError("Trace_C19 failed: %s" % res.lines[-20:])
    rep.add_tlc(res, "trace")
    bad = sorted({int(t.split(",")[0]) for t in res.tuples("MISMATCH")})
    probed = sorted({r["enum"] for r in recs})
    table = sorted({c["enum"] for c in cases})
    for i in bad:
        r = recs[i - 1]
        if r["panic"]:
            rep.violation("enum/panic/%s" % r["enum"], r)
        elif r["kind"] == "conv":
            if r["out"] != r["s"] and r["s"] not in al:
                what = "value-altered"
            elif r["s"] in al and r["out"] != r["s"]:
                what = "alias-does-not-map-to-its-canonical-spelling"
            elif r["custom"] and any(c["enum"] == r["enum"] and c["s"] == r["s"] for c in cases):
                what = "specified-spelling-not-a-dedicated-variant"
            elif not r["idem"]:
                what = "not-idempotent"
            else:
                what = "serde-or-display-disagrees"
            rep.violation("enum/%s/%s" % (what, r["enum"]), r)
        else:
            if (r["eq"] != (r["a"] == r["b"])):
                rep.violation("enum/equality-differs-from-string-equality/%s" % r["enum"], r)
            elif r["partial"] != r["cmp"]:
                rep.violation("enum/partial-ord-disagrees-with-ord/%s" % r["enum"], r)
            else:
                rep.violation("%s/%s" % (KNOWN_ORD, r["enum"]), r)
    nrec = len(recs)
    rep.part("trace", records=nrec, mismatches=len(bad), enums_probed=probed, table_enums_not_probed=[e for e in table if e not in probed], aliases=len(al))
    rep.sample({"record": recs[10]})
    rep.cov["traces_validated_against_impl"] = nrec
    rep.cov["evaluations"] = nrec
    rep.cov["distinct_nontrivial"] = sum(1 for r in recs if r["kind"] == "pair" or r["s"] in al or r["s"].startswith("m.secret_storage.key") or not r["custom"])
    rep.cov["exhaustive"] = False
    rep.cov["rule"] = RULE
    rep.assumptions += ["the catch-all variant is recognised by std::mem::discriminant equality with the conversion of a string no enum knows",
                        "alias spellings are read from the `alias = \"...\"` attributes in the sources (aliases are declarations of ruma)",
                        "string order itself (a < b) is computed by the harness with str::cmp"]


def replay(rep, path):
    print(open(path).read()[:2000])

"""C17 entry points for untrusted data never panic, abort or hang; rejected input has no effect on later calls."""
import json
import os
import random
import subprocess
import time

import vlib
from checks import c17_inputs

RULE = ("EntryPoints.tla: every entry point returns Ok or Err, results are a function of the arguments (no hidden state), a "
        "failed edit leaves the explicit object unchanged, fresh objects are always equal; there is no action for panic, abort "
        "or a call that does not return. A supervised worker process executes one long schedule in which every generated input "
        "is called twice, 300 calls apart (pass A / pass B), interleaved with fixed probe inputs and a long edit sequence on one "
        "push Ruleset; panics are caught and logged, process death (stack overflow, abort) and calls over the time budget are "
        "logged by the supervisor, which restarts the worker at the next position. Trace_C17 validates the whole log as one "
        "behaviour. Inputs: valid seeds of 56 entry points (identifiers, URIs, header values, 10 event enums, Raw, canonical "
        "JSON, redaction, push conditions / rulesets / patterns / member counts, signatures and keys, HTML and message sanitising, "
        "join rules, 15 endpoint requests, 20 endpoint responses incl. multipart media, event authorization) and their mutations: "
        "truncations, deletion, duplication, transposition, special characters, line deletion / duplication / swapping, boundary "
        "segment lengths (0..258, 300, 1000, 65535, 65536, 70000), runs of 12000 wildcards / escapes, invalid UTF-8 where the API "
        "takes bytes, JSON key deletion / duplication / renaming / type swap, nesting depth 100..200 (JSON), 99..21800 (HTML) and "
        "50..3000 (bundled replacements), deliberately mis-nested HTML, stacked mutations. Non-trivial = every input that is not an unmodified seed; distinct = distinct (entry point, arguments).")

W = 300
K_HTML = "entrypoint/abort/%s/html-nesting-depth-%d"


def make_schedule(n_inputs, probe_ids, edit_ids, rng):
    order = list(range(n_inputs))
    rng.shuffle(order)
    sched = []
    ei = 0
    pi = 0
    per_edit = max(1, (2 * n_inputs) // max(1, len(edit_ids)))
    count = 0

    def tick():
        nonlocal ei, pi, count
        count += 1
        if count % per_edit == 0 and ei < len(edit_ids):
            sched.append([edit_ids[ei], "E"])
            ei += 1
        if count % 53 == 0 and probe_ids:
            sched.append([probe_ids[pi % len(probe_ids)], "P"])
            pi += 1
    for j in range(n_inputs + W):
        if j < n_inputs:
            sched.append([order[j], "A"])
            tick()
        if j - W >= 0:
            sched.append([order[j - W], "B"])
            tick()
    while ei < len(edit_ids):
        sched.append([edit_ids[ei], "E"])
        ei += 1
    return sched


def supervise(wd, ipath, spath, nsched, budget):
    out = os.path.join(wd, "worker_out.ndjson")
    if os.path.exists(out):
        os.remove(out)
    binp = vlib.harness_bin("vh-api")
    start = 0
    deaths = []
    dead_inputs = []
    sched = json.load(open(spath))
    t0 = time.time()
    while start < nsched:
        if len(deaths) > 400:
            raise vlib.ToolError("worker died more than 400 times")
        p = subprocess.run([binp, "c17", ipath, spath, out, str(start), str(budget), ",".join(map(str, dead_inputs))],
                           stdout=subprocess.DEVNULL, stderr=subprocess.PIPE, timeout=7200)
        # find where it stopped
        last_b = None
        done = False
        answered = set()
        with open(out, "rb") as f:
            f.seek(max(0, os.path.getsize(out) - 200000))
            tail = f.read().decode("utf-8", "replace").split("\n")
        for ln in tail:
            if ln.startswith("B "):
                last_b = int(ln[2:])
            elif ln.startswith('{"ev":"end"') or ln.startswith('{"ev": "end"'):
                done = True
            elif ln.startswith("{"):
                try:
                    answered.add(json.loads(ln).get("pos"))
                except Exception:
                    pass
        if done and p.returncode == 0:
            break
        if last_b is None or last_b in answered:
            raise vlib.ToolError("worker ended without finishing and without an open call: rc=%s %s" % (p.returncode, p.stderr[-500:]))
        deaths.append({"pos": last_b, "rc": p.returncode, "stderr": p.stderr.decode("utf-8", "replace")[-300:]})
        dead_inputs.append(sched[last_b][0])
        with open(out, "a") as f:
            f.write("D %d %d\n" % (last_b, p.returncode))
        start = last_b + 1
    vlib.log("[c17] schedule of %d calls executed in %.1fs, %d process deaths" % (nsched, time.time() - t0, len(deaths)))
    return out, deaths


def build_trace(out_path, sched, inputs):
    events = []
    open_pos = None
    for ln in open(out_path, encoding="utf-8", errors="replace"):
        ln = ln.rstrip("\n")
        if not ln:
            continue
        if ln.startswith("B "):
            open_pos = int(ln[2:])
        elif ln.startswith("T "):
            pos = int(ln[2:])
            i = sched[pos][0]
            events.append({"ev": "timeout", "pos": pos, "i": i, "ep": inputs[i]["ep"], "obj": "", "last": True})
        elif ln.startswith("D "):
            pos, rc = [int(x) for x in ln[2:].split()]
            if events and events[-1]["ev"] == "timeout" and events[-1]["pos"] == pos:
                continue
            i = sched[pos][0]
            events.append({"ev": "abort", "pos": pos, "i": i, "ep": inputs[i]["ep"], "rc": rc, "obj": "", "last": True})
        else:
            r = json.loads(ln)
            if r["ev"] in ("end", "skipped"):
                continue
            if r["ev"] in ("call", "edit"):
                r["last"] = r["pass"] in ("B", "E")
                r.setdefault("obj", "")
                r.setdefault("before", "")
                r.setdefault("after", "")
            events.append(r)
    return events


def run(rep, tier):
    thorough = tier == "thorough"
    mc = vlib.run_tlc("C17", "MC_C17", name="mc", workers=2)
    if mc.violated or mc.rc != 0:
        raise vlib.ToolError("model theorem violated in MC_C17: %s" % mc.lines[-20:])
    rep.add_tlc(mc, "mc")
    wd = vlib.workdir("C17")
    rng = random.Random(vlib.seed() * 7919 + 17)
    vlib.build_harness("vh-api")
    sp = subprocess.run([vlib.harness_bin("vh-api"), "c17seeds"], input="\n".join(json.dumps(x) for x in c17_inputs.SIGN_REQUESTS).encode(),
                        stdout=subprocess.PIPE, timeout=60)
    if sp.returncode != 0:
        raise vlib.ToolError("c17seeds failed")
    signed = json.loads(sp.stdout)
    pure, probes, edits = c17_inputs.generate(vlib.seed(), 700 if thorough else 70, thorough, signed)
    # de-duplicate
    seen = set()
    uniq = []
    for x in pure:
        k = (x["ep"], json.dumps(x["a"], sort_keys=True))
        if k not in seen:
            seen.add(k)
            uniq.append(x)
    pure = uniq
    inputs = pure + probes + edits
    for i, x in enumerate(inputs):
        x["i"] = i
    probe_ids = list(range(len(pure), len(pure) + len(probes)))
    edit_ids = list(range(len(pure) + len(probes), len(inputs)))
    sched = make_schedule(len(pure), probe_ids, edit_ids, rng)
    ipath = os.path.join(wd, "inputs.ndjson")
    with open(ipath, "w") as f:
        for x in inputs:
            f.write(json.dumps({"i": x["i"], "ep": x["ep"], "a": x["a"]}) + "\n")
    spath = os.path.join(wd, "sched.json")
    json.dump(sched, open(spath, "w"))
    vlib.build_harness("vh-api")
    out, deaths = supervise(wd, ipath, spath, len(sched), 12)
    events = build_trace(out, sched, inputs)
    tpath = os.path.join(wd, "trace.ndjson")
    keep = ("ev", "pos", "i", "ep", "last", "outcome", "res", "obj", "before", "after", "ruleset")
    with open(tpath, "w") as f:
        for e in events:
            f.write(json.dumps({k: e[k] for k in keep if k in e}) + "\n")
    vlib.maybe_corrupt(tpath)
    res = vlib.run_tlc("C17", "Trace_C17", name="trace", env={"TRACE": tpath}, workers=1, stack="1g", heap="8g")
    if res.violated or res.rc != 0:
        raise vlib.ToolError("Trace_C17 failed: %s" % res.lines[-20:])
    if res.distinct != len(events) + 1:
        raise vlib.ToolError("Trace_C17 consumed %d of %d events" % (res.distinct - 1, len(events)))
    rep.add_tlc(res, "trace")
    bad = sorted({int(t.split(",")[0]) for t in res.tuples("MISMATCH")})
    ncalls = sum(1 for e in events if e["ev"] in ("call", "edit"))
    ndead = sum(1 for e in events if e["ev"] in ("abort", "timeout"))
    dead = {e["i"] for e in events if e["ev"] in ("abort", "timeout")}
    nskipped = sum(1 for x in sched if x[0] in dead) - ndead      # later occurrences of inputs that did not return are not called again
    if ncalls + ndead + nskipped < len(sched) or ncalls + ndead > len(sched):
        raise vlib.ToolError("log holds %d calls and %d deaths for a schedule of %d" % (ncalls, ndead, len(sched)))
    first = {}
    for idx, e in enumerate(events):
        if "i" in e and e["i"] not in first:
            first[e["i"]] = e
    for l in bad:
        e = events[l - 1]
        inp = inputs[e["i"]] if "i" in e else None
        det = {"event": e, "input": inp, "first_call_of_this_input": first.get(e.get("i")) if "i" in e else None}
        if e["ev"] in ("abort", "timeout"):
            why = inp["why"]
            if e["ev"] == "abort" and why.startswith("html nesting depth"):
                cls = K_HTML % (e["ep"], int(why.split()[-1]))
            elif e["ev"] == "abort" and why.startswith("nested bundled replacements depth"):
                cls = "entrypoint/abort/%s/nested-bundled-replacements-depth-%d" % (e["ep"], int(why.split()[-1]))
            else:
                cls = "entrypoint/%s/%s" % (e["ev"], e["ep"])
            det["deaths"] = [d for d in deaths if d["pos"] == e["pos"]]
        elif e["ev"] == "start":
            cls = "entrypoint/fresh-object-differs"
        elif e["outcome"] == "panic":
            cls = "entrypoint/panic/%s%s" % (e["ep"], "/" + inp["a"][0] if e["ep"] in ("endpoint_request", "endpoint_response", "ruleset_edit", "sign") else "")
        elif e["ev"] == "edit" and e["outcome"] == "err" and e["before"] != e["after"]:
            cls = "entrypoint/rejected-edit-changed-object/%s/%s" % (e["obj"], inp["a"][0])
        elif e["ev"] == "edit" and e["obj"] == "ruleset":
            cls = "entrypoint/object-changed-between-calls/ruleset"
        else:
            cls = "entrypoint/result-depends-on-history/%s" % e["ep"]
        rep.violation(cls, det)
    by_ep = {}
    for e in events:
        if e["ev"] in ("call", "edit"):
            d = by_ep.setdefault(e["ep"], {"ok": 0, "err": 0, "panic": 0, "max_ms": 0})
            d[e["outcome"]] += 1
            d["max_ms"] = max(d["max_ms"], e.get("ms", 0))
    rep.part("trace", events=len(events), inputs=len(pure), probes=len(probes), ruleset_edits=len(edits), process_deaths=len(deaths),
             mismatches=len(bad), per_entry_point=by_ep)
    rep.sample({"event": next(e for e in events if e["ev"] == "call" and e["outcome"] == "err"), "input": inputs[next(e for e in events if e["ev"] == "call" and e["outcome"] == "err")["i"]]})
    rep.cov["traces_validated_against_impl"] = 1
    rep.cov["evaluations"] = len(events)
    rep.cov["distinct_nontrivial"] = sum(1 for x in pure if x["why"] != "seed") + len(edits)
    rep.cov["exhaustive"] = False
    rep.cov["rule"] = RULE
    rep.assumptions += ["calls run on a thread with a 2 MiB stack (the default of spawned Rust threads, where async runtimes run this code); the budget per call is 12 s of CPU time (wall-clock cap 300 s)",
                        "results are compared by a 64-bit digest of their Debug / Display / JSON rendering",
                        "size bounds: strings up to 70000 bytes, JSON nesting up to 200, HTML nesting up to 21800 (what fits in a 65535-byte event)"]


def replay(rep, path):
    d = json.load(open(path))["detail"]
    inp = d["input"]
    wd = vlib.workdir("C17")
    ipath = os.path.join(wd, "replay_inputs.ndjson")
    with open(ipath, "w") as f:
        f.write(json.dumps({"i": 0, "ep": inp["ep"], "a": inp["a"]}) + "\n")
    spath = os.path.join(wd, "replay_sched.json")
    json.dump([[0, "A"], [0, "B"]], open(spath, "w"))
    vlib.build_harness("vh-api")
    out, deaths = supervise(wd, ipath, spath, 2, 20)
    for ln in open(out):
        print(ln.rstrip()[:400])
    if deaths:
        rep.violation("entrypoint/abort/%s" % inp["ep"], {"input": inp, "deaths": deaths})

"""C10 identifier parsing."""
import json

import vlib

RULE = ("TLC enumerates, per identifier kind (server name, user, alias, room, room-or-alias, event, server key id, device key id, "
        "MXC URI, room version), strings built from hosts x ports, sigil x localpart x server name, padded localparts / "
        "algorithms / hosts at byte lengths 243-259 and 510-513 (1-, 2- and 4-byte characters), missing sigils/colons/brackets; "
        "the three-valued recognisers of Identifiers.tla give the verdict. Every string goes through all parse forms and "
        "accessors. Non-trivial = verdict must or mustnot. Recorded single-edit mutants / boundary stretches / random strings "
        "are validated by Trace_C10; constructors are fed valid components.")


def text_of(runs):
    return "".join(chr(c) * n for c, n in runs)


def short(runs):
    return "".join((chr(c) * n if n <= 6 else "%s{x%d}" % (chr(c), n)) for c, n in runs)


def run(rep, tier):
    thorough = tier == "thorough"
    cases, _ = vlib.model_check(rep, "C10", "MC_C10", stack="1g")
    obs = vlib.replay_cases("C10", cases, ["replay", "c10"])
    nontriv = 0
    for c, o in zip(cases, obs):
        kind = c["kind"]
        s = text_of(c["runs"])
        det = {"kind": kind, "string": short(c["runs"]), "runs": c["runs"], "bytes": c["bytes"], "verdict": c["verdict"]}
        forms = o["forms"]
        if any("panic" in v for v in forms.values()):
            rep.violation("ident/%s/parse-panics" % kind, dict(det, forms=forms))
            continue
        oks = {k: ("ok" in v) for k, v in forms.items()}
        if len(set(oks.values())) != 1:
            rep.violation("ident/%s/parse-forms-disagree" % kind, dict(det, forms=oks))
        accepted = next(iter(oks.values()))
        if any(v.get("ok", s) != s for v in forms.values()):
            rep.violation("ident/%s/not-stored-byte-for-byte" % kind, dict(det, forms=forms))
        if c["verdict"] != "unspec":
            nontriv += 1
        if c["verdict"] == "must" and not accepted:
            rep.violation("ident/%s/valid-identifier-rejected" % kind, det)
        if c["verdict"] == "mustnot" and accepted:
            rep.violation("ident/%s/invalid-identifier-accepted" % kind, det)
        a = o["acc"]
        if isinstance(a, dict):
            if "panic" in a:
                rep.violation("ident/%s/accessor-panics" % kind, dict(det, acc=a))
            elif a.get("recompose") is False or (isinstance(a.get("sn"), dict) and a["sn"].get("recompose") is False):
                rep.violation("ident/%s/accessors-do-not-recompose" % kind, dict(det, acc=a))
            elif c["hascolon"] and (a.get("algorithm") if kind in ("serverkey", "devicekey") else a.get("localpart")) is not None:
                # the split is at the first colon (key names, device ids and server names may contain further colons)
                got = a["algorithm"] if kind in ("serverkey", "devicekey") else a["localpart"]
                if (kind != "event" or a.get("server") is not None) and got != text_of(c["head"]):
                    rep.violation("ident/%s/accessor-splits-at-the-wrong-colon" % kind, dict(det, acc=a, expected_head=text_of(c["head"])))
    rep.sample({"case": {"kind": cases[100]["kind"], "string": short(cases[100]["runs"]), "verdict": cases[100]["verdict"]}, "observed": obs[100]})
    # constructors
    _, out, _ = vlib.run_harness(["ctors", "c10"])
    nct = 0
    for ln in out.splitlines():
        r = json.loads(ln)
        nct += 1
        if "panic" in r or not r.get("accepted"):
            rep.violation("ident/constructor-output-rejected/%s" % r["ctor"], r)
    # impl -> spec
    n = 150000 if thorough else 8000
    tpath = vlib.record_trace("C10", ["record", "c10", "--n", str(n)])
    recs = vlib.read_ndjson(tpath)
    nrec, bad = vlib.validate_trace(rep, "C10", "Trace_C10", tpath, stack="1g")
    if nrec != len({json.dumps(r, sort_keys=True) for r in recs}) and nrec != len(recs):
        raise vlib.ToolError("trace validation covered %d of %d records" % (nrec, len(recs)))
    for i in bad:
        r = recs[i - 1]
        what = "panic" if r["panic"] else ("forms" if not r["agree"] else ("stored" if not r["stored"] else ("recompose" if not r["recompose"] else "verdict")))
        rep.violation("ident/trace/%s/%s" % (r["kind"], what), {"string": short(r["runs"]), "record": r})
    rep.sample({"trace_record": dict(recs[5], string=short(recs[5]["runs"]))})
    rep.cov["evaluations"] = len(cases) + len(recs) + nct
    rep.cov["distinct_nontrivial"] = nontriv
    rep.cov["traces_validated_against_impl"] += len(cases)
    rep.cov["exhaustive"] = True
    rep.cov["rule"] = RULE
    rep.assumptions += ["IPv6 literals other than three known-good ones are UNSPEC (only the bracket/character structure is required)",
                        "ports above 65535 with at most 5 digits, hosts longer than 255 bytes, room ids without a server part are UNSPEC"]


def replay(rep, path):
    d = json.load(open(path))["detail"]
    _, out, _ = vlib.run_harness(["replay", "c10"], stdin_path=None) if False else (0, "", "")
    print(json.dumps(d)[:1500])

"""C08 authorization rules; also hosts the shared pipeline for C09 (selection / non-interference)."""
import json
import os

import vlib

RULE08 = ("stratified exhaustive enumeration by TLC: (room version 1-11) x one stratum per rule family (create, early rules, "
          "join, invite, third-party invite, own leave, kick/unban, ban, knock, malformed membership, required level / sender "
          "membership / user state keys, third_party_invite events, power-level changes of scalars / maps / value kinds, v1-2 "
          "redactions), each placing every compared pair at <, =, > and every membership / join rule / field presence; the "
          "expected verdict is EventAuth!Auth. Non-trivial = verdict allow or reject (not unspec); distinct = distinct emitted cases.")
RULE09 = ("same enumeration as C08; per case the model's AuthTypes(e, rv) is compared as a set with auth_types_for_event, the "
          "(type, state_key) pairs actually requested through fetch_state must lie inside it, and auth_check must give the same "
          "outcome on the full state, on the state restricted to the selection, and with every unselected entry replaced by "
          "hostile content. TLC proves NonInterference on the model for every case. Non-trivial = selection specified and the "
          "state contains at least one unselected entry.")


def stream(rep, pid, tier):
    wd = vlib.workdir(pid)
    cpath = os.path.join(wd, "cases.ndjson")
    n, _ = vlib.stream_cases(rep, pid, "MC_C08", "MC_C08.cfg", cpath, part="mc")
    opath = os.path.join(wd, "obs.ndjson")
    vlib.run_harness(["replay", "c08"], stdin_path=cpath, stdout_path=opath)
    with open(cpath) as fc, open(opath) as fo:
        for lc, lo in zip(fc, fo):
            yield json.loads(lc), json.loads(lo)


def slim(c):
    return {k: c[k] for k in ("v", "stratum", "st", "e", "verdict", "rule")}


def random_triples(rep, pid, n, chunk=0):
    from checks import c08_random
    wd = vlib.workdir(pid)
    cases = c08_random.generate(vlib.seed() + 7919 * chunk, n)
    cp = os.path.join(wd, "rand_cases.ndjson")
    op = os.path.join(wd, "rand_obs.ndjson")
    vlib.write_ndjson(cp, cases)
    vlib.run_harness(["replay", "c08"], stdin_path=cp, stdout_path=op)
    obs = vlib.read_ndjson(op)

    def strip(e):
        return {k: v for k, v in e.items() if k != "c"}
    tp = os.path.join(wd, "rand_trace.ndjson")
    vlib.write_ndjson(tp, [{"v": c["v"], "st": [strip(x) for x in c["st"]], "e": strip(c["e"]), "out": o["out"]} for c, o in zip(cases, obs)])
    vlib.maybe_corrupt(tp)
    res = vlib.run_tlc(pid, "Trace_C08", name="randtrace", env={"TRACE": tp}, heap="12g", stack="1g")
    if res.violated or res.rc != 0:
        raise vlib.ToolError("Trace_C08 failed: %s" % res.lines[-20:])
    if res.distinct != len(cases):
        raise vlib.ToolError("Trace_C08 covered %d of %d records" % (res.distinct, len(cases)))
    rep.add_tlc(res, "randtrace%d" % chunk)
    bad = sorted({int(t.split(",")[0]) for t in res.tuples("MISMATCH")})
    unspec = len({int(t.split(",")[0]) for t in res.tuples("UNSPEC")})
    for i in bad:
        c, o = cases[i - 1], obs[i - 1]
        what = "panic" if o["out"].startswith("panic") else "random/%s-got-%s" % (c["e"]["type"], o["out"].split(" ")[0] + ("-depending-on-the-spelling-of-a-non-integer" if " but " in o["out"] else ""))
        rep.violation("auth/%s" % what, {"v": c["v"], "state": [x["c"] | {"id": x["id"], "type": x["type"], "sender": x["sender"], "key": x["key"]} for x in c["st"]],
                                          "event": c["e"]["c"] | {k: c["e"][k] for k in ("type", "sender", "key", "haskey", "prev", "auth", "idserver")},
                                          "observed": o["out"]})
    rep.part("randtrace_summary%d" % chunk, triples=len(cases), undecided_by_the_specification=unspec, mismatches=len(bad),
             allowed=sum(1 for o in obs if o["out"] == "allow"))
    return len(cases), len(cases) - unspec


def run(rep, tier):
    n = nontriv = 0
    rules = {}
    for c, o in stream(rep, "C08", tier):
        n += 1
        rules[c["rule"]] = rules.get(c["rule"], 0) + 1
        if o["out"].startswith("panic"):
            rep.violation("auth/panic/%s" % c["stratum"], {"case": slim(c), "observed": o["out"]})
            continue
        if c["verdict"] == "unspec":
            continue
        nontriv += 1
        if o["out"] != c["verdict"]:
            if c["stratum"] == "aliastype":
                # its own class: the type of the event and which of the two names the power levels mention
                keys = sorted(k.split(".")[0] for k in next(x for x in c["st"] if x["type"] == "m.room.power_levels")["c"]["pl"]["events"])
                rep.violation("auth/event-type-known-under-two-names/%s/events-has-%s" % (c["e"]["type"], "+".join(keys) or "neither"), {"case": slim(c), "observed": o["out"], "expected": c["verdict"]})
            else:
                rep.violation("auth/rule-%s/expected-%s" % (c["rule"], c["verdict"]), {"case": slim(c), "observed": o["out"]})
        if n == 4242:
            rep.sample({"case": slim(c), "observed": o["out"]})
    # randomised concrete triples on top of the abstraction, judged by TLC (impl -> spec)
    # TLC reads a whole trace file into memory: chunks of 6000 triples validate in about 15 s each, far larger files do not scale
    nr = nd = 0
    for chunk in range(8 if tier == "thorough" else 1):
        a, b = random_triples(rep, "C08", 6000, chunk)
        nr += a
        nd += b
    rep.cov["evaluations"] = n + nr
    rep.cov["distinct_nontrivial"] = nontriv + nd
    rep.cov["traces_validated_against_impl"] = n + nr
    rep.cov["exhaustive"] = True
    rep.cov["rule"] = RULE08 + (" On top, random concrete triples (levels anywhere in -1..101, several fields and map entries at once, any "
                                "combination of memberships, join rules, third-party invites and candidate events) are replayed and every "
                                "recorded verdict is judged by Trace_C08 (EventAuth!Auth on the recorded state and event).")
    rep.cov["rule_ids_fired"] = rules
    rep.assumptions += ["third-party-invite signatures are real Ed25519 signatures made by the harness (listed key = valid, unlisted key = invalid)",
                        "malformed power levels in *state*, knock while invited, and the two readings of the added/removed scalar rule are UNSPEC"]


def run09(rep, tier):
    n = nontriv = 0
    for c, o in stream(rep, "C09", tier):
        n += 1
        sel = {tuple(p) for p in c["sel"]}
        keys = {(x["type"], x["key"]) for x in c["st"]}
        if "panic" in o["sel"]:
            rep.violation("select/panic", {"case": slim(c), "observed": o["sel"]})
        elif c["selspec"]:
            if "ok" not in o["sel"]:
                rep.violation("select/error-on-specified-event", {"case": slim(c), "expected": sorted(sel)})
            else:
                got = {tuple(p) for p in o["sel"]["ok"]}
                if got != sel or len(got) != len(o["sel"]["ok"]):
                    rep.violation("select/wrong-set/%s" % c["e"]["type"], {"case": slim(c), "expected": sorted(sel), "observed": o["sel"]["ok"]})
        if o["out"].startswith("panic"):
            continue
        reads = {tuple(p) for p in o["reads"]}
        if not reads <= (sel | {("m.room.create", "")}):
            rep.violation("reads-outside-selection/%s" % c["stratum"], {"case": slim(c), "selection": sorted(sel), "reads": sorted(reads)})
        if c["selspec"] and c["verdict"] != "unspec":
            if keys - sel:
                nontriv += 1
            if o["out_restricted"] != o["out"] or o["out_hostile"] != o["out"]:
                rep.violation("outcome-depends-on-unselected-state/%s" % c["stratum"],
                              {"case": slim(c), "full": o["out"], "restricted": o["out_restricted"], "hostile": o["out_hostile"]})
        if n == 777:
            rep.sample({"event": c["e"], "v": c["v"], "selection": c["sel"], "reads": o["reads"], "outcomes": [o["out"], o["out_restricted"], o["out_hostile"]]})
    rep.cov["evaluations"] = n
    rep.cov["distinct_nontrivial"] = nontriv
    rep.cov["traces_validated_against_impl"] = n
    rep.cov["exhaustive"] = True
    rep.cov["rule"] = RULE09


def replay(rep, path):
    d = json.load(open(path))["detail"]
    raise vlib.ToolError("replay file holds the concrete case under detail.case (state events, candidate event, expected "
                         "verdict); re-run `bin/check %s` to re-evaluate" % rep.pid)

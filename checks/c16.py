"""C16 endpoints over the wire."""
import json
import os

import vlib

RULE = ("(a) path selection: TLC enumerates every well-formed history shape (<= 3 stable paths out of 6 versions, unstable or not, "
        "deprecated / removed versions) x every (min, max) pair of the 15 known Matrix versions, proves that the decision only "
        "depends on min and max over ALL subsets in between, and emits the expected selection; make_endpoint_url must select it "
        "for {min, max} and for the reversed interval; all 2^15 - 1 subsets are run against their (min, max) representative for a "
        "sample (quick) / all (thorough) histories. (b) 47 real client, federation, appservice, identity and push-gateway endpoints: "
        "histories read through the public accessors x 122 version sets, judged by Select in Trace_C16. (c) wire: four synthetic "
        "endpoints covering path / query / query_all / header / body / newtype body / raw_body / optional fields with values from "
        "a reserved-character alphabet: value -> HTTP -> routed on '/' and percent-decoded -> value must be equal and re-encode "
        "identically; Trace_C16 checks that the path decodes to the arguments, the query form-decodes to the pairs, and the "
        "Authorization header follows the AuthScheme x SendAccessToken table. (d) X-Matrix header round trips. Non-trivial = "
        "selection cases with >= 2 candidate paths or removal, and wire records with a reserved or non-ASCII character.")


def run(rep, tier):
    thorough = tier == "thorough"
    res = vlib.run_tlc("C16", "MC_C16", name="mc", heap="8g")
    if res.violated or res.rc != 0:
        raise vlib.ToolError("model lemma violated in MC_C16: %s" % res.lines[-20:])
    rep.add_tlc(res, "mc")
    cases = res.records("CASE")
    auth_table = {(a["auth"], a["send"]): a["exp"] for a in res.records("AUTH")[0]}
    wd = vlib.workdir("C16")
    cpath = os.path.join(wd, "select_cases.ndjson")
    vlib.write_ndjson(cpath, cases)
    _, out, _ = vlib.run_harness(["select"], pkg="vh-api", stdin_path=cpath)
    obs = [json.loads(l) for l in out.splitlines()]
    nontriv = 0
    for c, o in zip(cases, obs):
        if "construct_panic" in o:
            raise vlib.ToolError("harness could not construct a well-formed history: %s %s" % (c, o))
        exp = c["sel"]
        if len(c["stable"]) >= 2 or c["rem"] != -1:
            nontriv += 1
        for how in ("pair", "interval_reversed"):
            g = o[how]
            if g["kind"] != exp["kind"] or (exp["kind"] == "stable" and g["ver"] != exp["ver"]):
                rep.violation("select/%s/expected-%s" % (g["kind"], exp["kind"]), {"history": {k: c[k] for k in ("stable", "unstable", "dep", "rem")}, "min": c["lo"], "max": c["hi"], "how": how, "expected": exp, "observed": g})
    rep.sample({"selection_case": cases[1234], "observed": obs[1234]})
    # all subsets
    hist = {}
    for c in cases:
        hist.setdefault(json.dumps({k: c[k] for k in ("stable", "unstable", "dep", "rem")}, sort_keys=True), None)
    hl = [json.loads(h) for h in hist]
    if not thorough:
        hl = hl[:: max(1, len(hl) // 24)]
    spath = os.path.join(wd, "subset_histories.ndjson")
    vlib.write_ndjson(spath, hl)
    _, out, _ = vlib.run_harness(["subsets"], pkg="vh-api", stdin_path=spath, timeout=3000)
    nsub = 0
    for ln in out.splitlines():
        r = json.loads(ln)
        if "subset_mismatch" in r:
            rep.violation("select/depends-on-more-than-min-and-max", r["subset_mismatch"])
        else:
            nsub = r["summary"]["subset_selections"]
    rep.part("subsets", histories=len(hl), selections=nsub)
    # real endpoints + wire
    tpath = os.path.join(wd, "trace.ndjson")
    _, real, _ = vlib.run_harness(["real"], pkg="vh-api")
    _, wire, _ = vlib.run_harness(["wire", "--n", "3000" if thorough else "400"], pkg="vh-api")
    _, authrecs, _ = vlib.run_harness(["authtable"], pkg="vh-api")
    recs = []
    nresp = 0
    for ln in real.splitlines() + authrecs.splitlines() + wire.splitlines():
        r = json.loads(ln)
        if r["kind0"] == "response":
            nresp += 1
            if not r.get("ok"):
                rep.violation("wire/response-does-not-round-trip/%s" % r["endpoint"], r)
        elif "encode_error" in r:
            if auth_table[(r["auth"], r["send"])] != "error" or r["auth_header"] != "error":
                rep.violation("wire/request-cannot-be-encoded/%s" % r["endpoint"], r)
        else:
            recs.append(r)
    vlib.write_ndjson(tpath, [{k: v for k, v in r.items() if v is not None} for r in recs])
    vlib.maybe_corrupt(tpath)
    nrec, bad = vlib.validate_trace(rep, "C16", "Trace_C16", tpath, stack="1g")
    for i in bad:
        r = recs[i - 1]
        if r["kind0"] == "select":
            rep.violation("select/real-endpoint/%s" % r["endpoint"].replace(" ", ""), r)
        elif r["kind0"] == "authtable":
            rep.violation("wire/authorization-header/%s-%s" % (r["auth"], r["send"]), r)
        else:
            if not r["panic"] and not r["equal"] and r.get("equal_mod_empty_optional") and r["reencode_identical"] is not None:
                # everything else of the record must still be right
                rep.violation("wire/optional-query-field-with-empty-string-becomes-absent", {"endpoint": r["endpoint"], "query": vlib.cp_to_str(r["query"]), "back": r.get("back_debug")})
                continue
            what = "panic" if r["panic"] else ("value-changed" if not r["equal"] else ("re-encoding-differs" if not r["reencode_identical"] else
                   ("authorization-header" if r["auth_header"] != auth_table[(r["auth"], r["send"])] else "path-or-query-does-not-decode-to-the-value")))
            d = dict(r)
            d["path_text"] = vlib.cp_to_str(r["path"]); d["query_text"] = vlib.cp_to_str(r["query"]); d["args_text"] = [vlib.cp_to_str(a) for a in r["args"]]
            rep.violation("wire/%s/%s" % (what, r["endpoint"]), d)
    wr = [r for r in recs if r["kind0"] == "wire"]
    rep.sample({"wire_record": {"endpoint": wr[0]["endpoint"], "path": vlib.cp_to_str(wr[0]["path"]), "query": vlib.cp_to_str(wr[0]["query"]), "args": [vlib.cp_to_str(a) for a in wr[0]["args"]]}})
    _, xm, _ = vlib.run_harness(["xmatrix"], pkg="vh-api")
    nx = 0
    for ln in xm.splitlines():
        r = json.loads(ln)
        nx += 1
        if not r.get("ok"):
            rep.violation("wire/x-matrix-header-does-not-round-trip", r)
    # header and body helpers the endpoints share: Content-Disposition file names, filters with a single non-default field
    _, sh, _ = vlib.run_harness(["shared"], pkg="vh-api")
    nsh = 0
    for ln in sh.splitlines():
        r = json.loads(ln)
        nsh += 1
        if not r.get("ok"):
            rep.violation("wire/%s-does-not-round-trip" % r["what"], r)
    nx += nsh
    rep.part("wire", requests=len(wr), responses=nresp, xmatrix=nx - nsh, shared_header_and_filter_round_trips=nsh, real_selection_records=len(recs) - len(wr))
    rep.cov["evaluations"] = len(cases) * 2 + nsub + len(recs) + nresp + nx
    rep.cov["distinct_nontrivial"] = nontriv + sum(1 for r in wr if any(c > 127 or chr(c) in "/%?#+&= " for a in r["args"] for c in a))
    rep.cov["traces_validated_against_impl"] += len(cases)
    rep.cov["exhaustive"] = True
    rep.cov["rule"] = RULE
    rep.assumptions += ["JSON bodies are compared as values by the harness (per-type serde fidelity is C18's subject)",
                        "the router is the harness's: match a path template segment-wise on '/', percent-decode the placeholders",
                        "an empty set of supported versions is UNSPEC and not generated"]


def replay(rep, path):
    print(open(path).read()[:3000])

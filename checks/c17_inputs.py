"""C17 input generation: valid seeds per entry point, byte- and structure-level mutations, boundary lengths, deep nesting."""
import json
import random
import sys

sys.setrecursionlimit(20000)     # mutants of mutants nest JSON a few hundred levels deep

USER = "@alice:example.org"
ROOM = "!room:example.org"
EVENT = "$event:example.org"

MSG = {"type": "m.room.message", "event_id": EVENT, "room_id": ROOM, "sender": USER, "origin_server_ts": 1700000000000,
       "content": {"msgtype": "m.text", "body": "> <@bob:example.org> hi\n\nhello", "format": "org.matrix.custom.html",
                   "formatted_body": "<mx-reply><blockquote>hi</blockquote></mx-reply><b>hello</b>",
                   "m.relates_to": {"m.in_reply_to": {"event_id": "$other:example.org"}},
                   "m.mentions": {"user_ids": [USER], "room": False}},
       "unsigned": {"age": 12, "transaction_id": "txn1"}}
MEMBER = {"type": "m.room.member", "event_id": "$m:example.org", "room_id": ROOM, "sender": USER, "state_key": USER,
          "origin_server_ts": 1700000000001, "content": {"membership": "join", "displayname": "Alice", "avatar_url": "mxc://example.org/abc",
                                                         "join_authorised_via_users_server": "@bob:example.org"},
          "unsigned": {"prev_content": {"membership": "invite"}, "age": 1}}
POWER = {"type": "m.room.power_levels", "event_id": "$p:example.org", "room_id": ROOM, "sender": USER, "state_key": "",
         "origin_server_ts": 1700000000002,
         "content": {"ban": 50, "events": {"m.room.name": 100}, "events_default": 0, "invite": 0, "kick": 50, "redact": 50,
                     "state_default": 50, "users": {USER: 100}, "users_default": 0, "notifications": {"room": 50}}}
CREATE = {"type": "m.room.create", "event_id": "$c:example.org", "room_id": ROOM, "sender": USER, "state_key": "",
          "origin_server_ts": 1700000000000, "content": {"creator": USER, "room_version": "10", "m.federate": True,
                                                         "predecessor": {"room_id": "!old:example.org", "event_id": "$old:example.org"}}}
JOINRULES = {"type": "m.room.join_rules", "event_id": "$j:example.org", "room_id": ROOM, "sender": USER, "state_key": "",
             "origin_server_ts": 1700000000003,
             "content": {"join_rule": "restricted", "allow": [{"type": "m.room_membership", "room_id": "!other:example.org"}]}}
REDACTED = {"type": "m.room.message", "event_id": EVENT, "room_id": ROOM, "sender": USER, "origin_server_ts": 1700000000000, "content": {},
            "unsigned": {"redacted_because": {"type": "m.room.redaction", "event_id": "$r:example.org", "room_id": ROOM, "sender": USER,
                                              "origin_server_ts": 1700000000009, "redacts": EVENT, "content": {"redacts": EVENT}}}}
ENCRYPTED = {"type": "m.room.encrypted", "event_id": "$e:example.org", "room_id": ROOM, "sender": USER, "origin_server_ts": 1700000000004,
             "content": {"algorithm": "m.megolm.v1.aes-sha2", "ciphertext": "AwgAEnACgAkLmt6qF84IK++J7UDH2Za1YVchHyprqTqsg", "device_id": "DEV",
                         "sender_key": "Nn0L2hkcCMFKqynTjyGsJbth7QrVmX3lbrksMkrGOAw", "session_id": "sess",
                         "m.relates_to": {"rel_type": "m.thread", "event_id": "$root:example.org", "is_falling_back": True,
                                          "m.in_reply_to": {"event_id": "$x:example.org"}}}}
REACTION = {"type": "m.reaction", "event_id": "$re:example.org", "room_id": ROOM, "sender": USER, "origin_server_ts": 1700000000005,
            "content": {"m.relates_to": {"rel_type": "m.annotation", "event_id": EVENT, "key": "\U0001F44D"}}}
IMAGE = {"type": "m.room.message", "event_id": "$i:example.org", "room_id": ROOM, "sender": USER, "origin_server_ts": 1700000000006,
         "content": {"msgtype": "m.image", "body": "a.png", "url": "mxc://example.org/img",
                     "info": {"h": 10, "w": 20, "size": 1234, "mimetype": "image/png", "thumbnail_url": "mxc://example.org/t",
                              "thumbnail_info": {"h": 1, "w": 2, "size": 3, "mimetype": "image/png"}}}}
POLL = {"type": "m.poll.start", "event_id": "$po:example.org", "room_id": ROOM, "sender": USER, "origin_server_ts": 1700000000007,
        "content": {"m.text": [{"body": "Q?"}], "m.poll": {"kind": "m.disclosed", "max_selections": 1, "question": {"m.text": [{"body": "Q?"}]},
                                                          "answers": [{"m.id": "a", "m.text": [{"body": "A"}]}, {"m.id": "b", "m.text": [{"body": "B"}]}]}}}
TIMELINE = [MSG, MEMBER, POWER, CREATE, JOINRULES, REDACTED, ENCRYPTED, REACTION, IMAGE, POLL]
STATE = [MEMBER, POWER, CREATE, JOINRULES]
STRIPPED = [{k: e[k] for k in ("type", "sender", "state_key", "content")} for e in STATE]
EPHEMERAL = [{"type": "m.typing", "room_id": ROOM, "content": {"user_ids": [USER]}},
             {"type": "m.receipt", "room_id": ROOM, "content": {EVENT: {"m.read": {USER: {"ts": 1, "thread_id": "main"}}}}}]
GLOBAL_AD = [{"type": "m.direct", "content": {USER: [ROOM]}},
             {"type": "m.push_rules", "content": {"global": {"override": [{"rule_id": ".m.rule.master", "default": True, "enabled": False, "conditions": [], "actions": []}],
                                                            "content": [{"rule_id": "x", "default": False, "enabled": True, "pattern": "al*ce", "actions": ["notify", {"set_tweak": "sound", "value": "default"}]}]}}},
             {"type": "m.secret_storage.key.abc", "content": {"name": "k", "algorithm": "m.secret_storage.v1.aes-hmac-sha2", "iv": "AAAA", "mac": "AAAA"}},
             {"type": "m.ignored_user_list", "content": {"ignored_users": {USER: {}}}}]
ROOM_AD = [{"type": "m.fully_read", "content": {"event_id": EVENT}}, {"type": "m.tag", "content": {"tags": {"u.work": {"order": 0.25}}}}]
TO_DEVICE = [{"type": "m.room_key_request", "sender": USER, "content": {"action": "request", "requesting_device_id": "D", "request_id": "1",
                                                                        "body": {"algorithm": "m.megolm.v1.aes-sha2", "room_id": ROOM, "session_id": "s"}}},
             {"type": "m.key.verification.start", "sender": USER,
              "content": {"from_device": "D", "transaction_id": "t", "method": "m.sas.v1", "key_agreement_protocols": ["curve25519-hkdf-sha256"],
                          "hashes": ["sha256"], "message_authentication_codes": ["hkdf-hmac-sha256.v2"], "short_authentication_string": ["decimal", "emoji"]}}]

PDU = {"type": "m.room.member", "room_id": ROOM, "sender": "@alice:a.example", "state_key": "@alice:a.example", "origin_server_ts": 1700000000000,
       "depth": 3, "prev_events": ["$AAAAAAAAAAAAAAAAAAAAAAAAAAAAAAAAAAAAAAAAAAA"], "auth_events": ["$BBBBBBBBBBBBBBBBBBBBBBBBBBBBBBBBBBBBBBBBBBB"],
       "content": {"membership": "join"}, "hashes": {"sha256": "7yUMXMg5SRxfN8aSkW9Z3t9bMTn7wKCq7+k1ZaV9SVg"},
       "signatures": {"a.example": {"ed25519:1": "dGhpcyBpcyBub3QgYSB2YWxpZCBzaWduYXR1cmUgYnV0IHNpeHR5LWZvdXIgYnl0ZXMgbG9uZyBpbmRlZWQhIQ"}},
       "unsigned": {"age": 3}}
SIGNED = {"a": 1, "b": {"c": "x"}, "signatures": {"a.example": {"ed25519:1": "dGhpcyBpcyBub3QgYSB2YWxpZCBzaWduYXR1cmUgYnV0IHNpeHR5LWZvdXIgYnl0ZXMgbG9uZyBpbmRlZWQhIQ"}}, "unsigned": {"x": 1}}
KEYMAP = {"a.example": {"ed25519:1": "Nn0L2hkcCMFKqynTjyGsJbth7QrVmX3lbrksMkrGOAw"}}
PKCS8_V1 = "302e020100300506032b657004220420" + "01" * 32
PKCS8_V2 = "3051020101300506032b657004220420" + "02" * 32 + "812100" + "03" * 32

RULESET = {"override": [{"rule_id": ".m.rule.master", "default": True, "enabled": False, "conditions": [], "actions": []},
                        {"rule_id": "mine", "default": False, "enabled": True,
                         "conditions": [{"kind": "event_match", "key": "content.body", "pattern": "h?llo*"},
                                        {"kind": "room_member_count", "is": ">=2"}, {"kind": "contains_display_name"},
                                        {"kind": "sender_notification_permission", "key": "room"},
                                        {"kind": "event_property_is", "key": "content.n", "value": 1},
                                        {"kind": "event_property_contains", "key": "content.l", "value": "a"}],
                         "actions": ["notify", {"set_tweak": "highlight"}]}],
           "content": [{"rule_id": "c", "default": False, "enabled": True, "pattern": "*ell[o", "actions": ["notify"]}],
           "room": [{"rule_id": ROOM, "default": False, "enabled": True, "actions": []}],
           "sender": [{"rule_id": USER, "default": False, "enabled": True, "actions": ["notify"]}],
           "underride": [{"rule_id": "u", "default": False, "enabled": True, "conditions": [], "actions": [{"set_tweak": "sound", "value": "x"}]}]}
PUSH_EVENT = {"type": "m.room.message", "sender": "@bob:example.org", "room_id": "!room:s.co", "event_id": "$e",
              "content": {"msgtype": "m.text", "body": "hello Me world", "n": 1, "l": ["a", 2, None], "m.mentions": {"user_ids": ["@me:s.co"]}}}

SYNC_RESPONSE = {"next_batch": "s1", "rooms": {"join": {ROOM: {"timeline": {"events": [{k: v for k, v in MSG.items() if k != "room_id"}], "limited": False, "prev_batch": "p"},
                                                              "state": {"events": [{k: v for k, v in MEMBER.items() if k != "room_id"}]},
                                                              "ephemeral": {"events": [EPHEMERAL[0]]}, "account_data": {"events": ROOM_AD},
                                                              "unread_notifications": {"highlight_count": 1, "notification_count": 2}, "summary": {"m.heroes": [USER], "m.joined_member_count": 2}}},
                                             "invite": {"!inv:example.org": {"invite_state": {"events": STRIPPED}}}, "leave": {}},
                 "account_data": {"events": GLOBAL_AD}, "to_device": {"events": TO_DEVICE}, "device_lists": {"changed": [USER], "left": []},
                 "device_one_time_keys_count": {"signed_curve25519": 50}, "presence": {"events": [{"type": "m.presence", "sender": USER, "content": {"presence": "online", "last_active_ago": 5}}]}}


def J(x):
    return json.dumps(x, ensure_ascii=False, separators=(",", ":"))


SIGN_REQUESTS = [{"name": "signed", "object": SIGNED, "event": False, "v": "10"}] + \
    [{"name": "pdu%s" % v, "object": PDU, "event": True, "v": v} for v in ("1", "4", "11")]


def seeds(signed=None):
    """ep -> list of (argument list, index of the argument that is mutated, kind of that argument)"""
    S = {}
    signed = signed or {}
    SIGNED_OK = signed.get("signed", SIGNED)
    KEYMAP_OK = signed.get("keymap", KEYMAP)
    RAWSIG = signed.get("raw", {"key": "36" * 32, "sig": "aa" * 64, "msg": "7b7d"})

    def add(ep, args, which=0, kind="text"):
        S.setdefault(ep, []).append((args, which, kind))

    for s in [USER, "@a:b", "@Alice/=+-._:[::1]:8448", "@é:example.org"]:
        add("user_id", [s])
    add("user_id_with_server", ["alice", "example.org"])
    add("user_id_with_server", [USER, "example.org"])
    add("user_id_with_server", ["alice", "example.org:8448"], 1)
    for s in [ROOM, "!abcDEF_-123", "!a:1.2.3.4:80"]:
        add("room_id", [s])
    for s in ["#alias:example.org", "#a#b:[::1]"]:
        add("room_alias_id", [s])
    for s in [ROOM, "#alias:example.org"]:
        add("room_or_alias_id", [s])
    for s in [EVENT, "$AAAAAAAAAAAAAAAAAAAAAAAAAAAAAAAAAAAAAAAAAAA", "$a/b+c"]:
        add("event_id", [s])
    for s in ["example.org", "example.org:8448", "1.2.3.4:80", "[::1]:8448", "[2001:db8::ff00:42:8329]", "a-b.c"]:
        add("server_name", [s])
    for s in ["ed25519:DEVICEID", "curve25519:A", "signed_curve25519:AAAAHg"]:
        add("device_key_id", [s])
    for s in ["ed25519:1", "ed25519:abc_DEF"]:
        add("signing_key_id", [s])
    for s in ["mxc://example.org/abcDEF123", "mxc://[::1]:80/x-y_z", "mxc://a/b"]:
        add("mxc_uri", [s])
    add("client_secret", ["abc_DEF.=-123"])
    add("session_id", ["sess_1-2.3=+/"])
    add("base64_public_key", ["Nn0L2hkcCMFKqynTjyGsJbth7QrVmX3lbrksMkrGOAw"])
    for s in ["10", "org.custom.version", "1"]:
        add("room_version_id", [s])
    for s in ["0", "1", "org.x"]:
        add("voip_version_id", [s])
    for s in ["Nn0L2hkcCMFKqynTjyGsJbth7QrVmX3lbrksMkrGOAw", "AAAA", "AA==", "AQ"]:
        add("base64", [s])
    for s in ["matrix:u/alice:example.org?action=chat", "matrix:r/alias:example.org?via=a.org&via=b.org", "matrix:roomid/room:example.org/e/event:example.org?via=x.y",
              "matrix:roomid/room:example.org?action=join&via=example.org", "matrix:r/a:b/e/c:d?action=x.y%20z"]:
        add("matrix_uri", [s])
    for s in ["https://matrix.to/#/@alice:example.org", "https://matrix.to/#/%23alias:example.org?via=a.org", "https://matrix.to/#/!room:example.org/$event:example.org?via=a&via=b",
              "https://matrix.to/#/%21room%3Aexample.org/%24ev%3Aexample.org"]:
        add("matrix_to_uri", [s])
    for s in ['attachment; filename="a\\"b\\\\c.txt"', "inline", "attachment; filename*=utf-8''%e2%82%ac%20rates.txt", 'form-data; name="x"; filename=plain.txt',
              "attachment; filename*=UTF-8'en'a%20b; filename=\"fallback.txt\"", 'attachment;filename="\\a\\"'] :
        add("content_disposition", [s], 0, "bytes")
    add("content_disposition_type", ["attachment"], 0, "bytes")
    add("token_string", ["form-data"], 0, "bytes")
    add("header_helpers", ['a "quoted\\" \\\\ string" €;'])
    for s in ['X-Matrix origin="origin.hs.example.com",destination="destination.hs.example.com",key="ed25519:key1",sig="dGVzdA=="',
              'X-Matrix origin=a.org,key="ed25519:1",sig="dGVzdA"', 'Bearer abc, X-Matrix origin="a\\"b",destination=c,key="ed25519:1",sig="AAAA"']:
        add("x_matrix", [s])
    for e in TIMELINE:
        add("any_timeline", [J(e)], 0, "json")
        add("any_sync_timeline", [J({k: v for k, v in e.items() if k != "room_id"})], 0, "json")
        add("raw_event", [J({k: v for k, v in e.items() if k != "room_id"})], 0, "json")
    for e in STATE:
        add("any_state", [J(e)], 0, "json")
        add("any_sync_state", [J({k: v for k, v in e.items() if k != "room_id"})], 0, "json")
    for e in STRIPPED:
        add("any_stripped_state", [J(e)], 0, "json")
    for e in [MSG, ENCRYPTED, REACTION, IMAGE, POLL, REDACTED]:
        add("any_message_like", [J(e)], 0, "json")
    for e in EPHEMERAL:
        add("any_ephemeral", [J(e)], 0, "json")
    for e in GLOBAL_AD:
        add("any_global_account_data", [J(e)], 0, "json")
    for e in ROOM_AD:
        add("any_room_account_data", [J(e)], 0, "json")
    for e in TO_DEVICE:
        add("any_to_device", [J(e)], 0, "json")
    for e in [SIGNED, PDU, {"n": -9007199254740991, "s": "é\U0001F600\\\"", "l": [None, True, {}], "o": {"": 0}}]:
        add("canonical_value", [J(e)], 0, "json")
        add("to_canonical_value", [J(e)], 0, "json")
    for v in ["1", "6", "9", "11"]:
        for e in [PDU, MSG, POWER, CREATE, JOINRULES]:
            add("redact", [J(e), v], 0, "json")
    add("redact", [J(PDU), "11"], 1)
    for ty in ["m.room.member", "m.room.power_levels", "m.room.create", "m.room.join_rules", "m.room.redaction", "m.room.history_visibility", "x"]:
        add("redact_content", [J(POWER["content"] | MEMBER["content"] | CREATE["content"] | JOINRULES["content"]), "11", ty], 0, "json")
    for j in [{"allow": [{"type": "m.room_membership", "room_id": "!a:b"}, {"type": "org.custom", "x": 1}]}, {"allow": []}]:
        add("restricted_json", [J(j)], 0, "json")
        add("join_rules_content", [J({"join_rule": "restricted", **j})], 0, "json")
    add("join_rules_content", [J({"join_rule": "knock_restricted", "allow": [{"type": "m.room_membership", "room_id": "!a:b"}]})], 0, "json")
    for t in ["==2", "<=10", ">=2", "<5", ">0", "7"]:
        add("member_count_is", [t])
        add("push_condition_json", [J({"kind": "room_member_count", "is": t}), J(PUSH_EVENT)], 0, "json")
    add("ruleset_json", [J(RULESET), J(PUSH_EVENT)], 0, "json")
    add("ruleset_json", [J(RULESET), J(PUSH_EVENT)], 1, "json")
    for c in RULESET["override"][1]["conditions"]:
        add("push_condition_json", [J(c), J(PUSH_EVENT)], 0, "json")
    for key, pat in [("content.body", "h?llo*"), ("content.body", "me"), ("content.body", "*[a-z]*"), ("content.m\\.mentions.user_ids", "x"), ("type", "m.room.*"),
                     ("content.body", "w*d"), ("content.body", "hello Me world")]:
        add("push_match", [key, pat, J(PUSH_EVENT)], 0)
        add("push_match", [key, pat, J(PUSH_EVENT)], 1)
    add("push_match", ["content.body", "h*o", J(PUSH_EVENT)], 2, "json")
    add("default_actions", [J(PUSH_EVENT)], 0, "json")
    add("default_actions", [J({**MEMBER, "room_id": "!room:s.co", "state_key": "@me:s.co", "content": {"membership": "invite"}})], 0, "json")
    add("verify_json", [J(SIGNED_OK)], 0, "json")
    add("verify_json_keys", [J(SIGNED_OK), J(KEYMAP_OK)], 1, "json")
    add("verify_json_keys", [J(SIGNED_OK), J(KEYMAP_OK)], 0, "json")
    for v in ["1", "4", "11"]:
        add("verify_event", [J(signed.get("pdu" + v, PDU)), v], 0, "json")
        add("hashes", [J(signed.get("pdu" + v, PDU)), v], 0, "json")
    for which in (0, 1, 2):
        add("verify_bytes", [{"hex": RAWSIG["key"]}, {"hex": RAWSIG["sig"]}, {"hex": RAWSIG["msg"]}], which, "hex")
    add("key_from_der", [{"hex": PKCS8_V1}, "1"], 0, "hex")
    add("key_from_der", [{"hex": PKCS8_V2}, "1"], 0, "hex")
    add("key_from_der", [{"hex": PKCS8_V1}, "1"], 1)
    if signed.get("ringdoc"):
        add("key_from_der", [{"hex": signed["ringdoc"]}, "1"], 0, "hex")
        add("key_from_der", [{"hex": "a1230321"}, "1"], 0, "hex")
    htmls = [MSG["content"]["formatted_body"],
             '<p>a<a href="https://x.y/?a=b&amp;c" target="_blank">l</a><img src="mxc://a/b" width=1><span data-mx-color="#ff0000" data-mx-spoiler>s</span></p>',
             '<ol start="2"><li>x</li></ol><pre><code class="language-rust">fn</code></pre><table><tr><td>1</td></tr></table><!-- c --><script>x</script>',
             '<div data-mx-maths="x"><font color="red">t</font><del>d</del><details><summary>s</summary>b</details></div><svg><p>x</p></svg><math><mi>x</mi></math>']
    for ep in ["html_strict", "html_compat", "html_reply", "html_plain", "sanitize_html", "remove_html_reply_fallback"]:
        for h in htmls:
            add(ep, [h], 0, "html")
    # mis-nested formatting / block elements (the parser's adoption agency and foster parenting), deliberately broken structure
    broken = ["<b><p>one</b>two</p>", "<a href=x><div>x</a>y</div>", "<i><b>x</i>y</b>", "<table><b><tr><td>x</b></td></tr></table>",
              "<p><b><i>x</p>y</i></b>", "<b><b><b><p>x</b></b></b>y</p>", "<table><tr><td><table><a>x</td></tr></table>y</a>",
              "<select><b><option>x</b></select>", "<svg><p><b></svg>x</b></p>", "<mx-reply><b><blockquote>q</b></blockquote></mx-reply>r",
              "<font color=red><p>x</font>y</p>", "<a><a><a>x</a></a></a>", "<li><ul><li></ul>", "<h1><h2>x</h1>y</h2>", "<template><b></template>x</b>"]
    for ep in ["html_strict", "html_compat", "html_reply", "html_plain", "sanitize_html", "remove_html_reply_fallback"]:
        for h in broken:
            add(ep, [h], 0, "html")
    # plain-text reply fallbacks and whole message contents as a client sanitises them
    for b in ["> <@bob:example.org> hi\n> more\n\nhello", "> * <@bob:example.org> waves\n\nhello", "> <@user:notareal.hs> one\n> two", "> not a reply\nx",
              "> <@a:b> x\n> \n> y\n\n", "plain"]:
        add("plain_reply_fallback", [b])
    for c in [MSG["content"], IMAGE["content"], {"msgtype": "m.emote", "body": "> <@a:b> q\n\nwaves", "format": "org.matrix.custom.html", "formatted_body": "<mx-reply>q</mx-reply><b><p>w</b>x</p>"},
              {"msgtype": "m.notice", "body": "n"}]:
        add("message_sanitize", [J(c), "yes"], 0, "json")
        add("message_sanitize", [J(c), "no"], 0, "json")
    # endpoint messages: [name, method, uri, headers, body, path args]
    reqs = [
        ("sync", "GET", "/_matrix/client/v3/sync?filter=%7B%22room%22%3A%7B%7D%7D&since=s1&full_state=true&set_presence=offline&timeout=30000", "", "", ""),
        ("send_message", "PUT", "/_matrix/client/v3/rooms/!r:x/send/m.room.message/txn?ts=5", "content-type: application/json", J(MSG["content"]), "!room:example.org\nm.room.message\ntxn1"),
        ("send_state", "PUT", "/_matrix/client/v3/rooms/x/state/m.room.member/@a:b", "content-type: application/json", J(MEMBER["content"]), "!room:example.org\nm.room.member\n@alice:example.org"),
        ("create_room", "POST", "/_matrix/client/v3/createRoom", "content-type: application/json",
         J({"preset": "private_chat", "invite": [USER], "initial_state": [{"type": "m.room.topic", "state_key": "", "content": {"topic": "t"}}], "power_level_content_override": POWER["content"],
            "creation_content": {"m.federate": False}, "room_version": "10", "visibility": "private", "invite_3pid": [{"id_server": "a", "id_access_token": "t", "medium": "email", "address": "a@b"}]}), ""),
        ("login", "POST", "/_matrix/client/v3/login", "content-type: application/json", J({"type": "m.login.password", "identifier": {"type": "m.id.user", "user": "alice"}, "password": "p", "device_id": "D"}), ""),
        ("set_pushrule", "PUT", "/_matrix/client/v3/pushrules/global/override/mine?before=a&after=b", "content-type: application/json",
         J({"actions": ["notify"], "conditions": RULESET["override"][1]["conditions"]}), "override\nmine"),
        ("get_messages", "GET", "/_matrix/client/v3/rooms/x/messages?from=t1&dir=b&limit=10&filter=%7B%22types%22%3A%5B%22m.room.message%22%5D%7D", "", "", "!room:example.org"),
        ("upload_keys", "POST", "/_matrix/client/v3/keys/upload", "content-type: application/json",
         J({"device_keys": {"user_id": USER, "device_id": "D", "algorithms": ["m.olm.v1.curve25519-aes-sha2"], "keys": {"ed25519:D": "Nn0L2hkcCMFKqynTjyGsJbth7QrVmX3lbrksMkrGOAw"},
                            "signatures": {USER: {"ed25519:D": "AAAA"}}},
            "one_time_keys": {"signed_curve25519:AAAAHg": {"key": "Nn0L2hkcCMFKqynTjyGsJbth7QrVmX3lbrksMkrGOAw", "signatures": {USER: {"ed25519:D": "AAAA"}}}}}), ""),
        ("search_users", "POST", "/_matrix/client/v3/user_directory/search", "content-type: application/json\naccept-language: en-US,en;q=0.5", J({"search_term": "a", "limit": 3}), ""),
        ("fed_transaction", "PUT", "/_matrix/federation/v1/send/txn", "content-type: application/json",
         J({"origin": "a.example", "origin_server_ts": 1, "pdus": [PDU], "edus": [{"edu_type": "m.typing", "content": {"room_id": ROOM, "user_id": USER, "typing": True}},
                                                                             {"edu_type": "m.receipt", "content": {ROOM: {"m.read": {USER: {"data": {"ts": 1}, "event_ids": [EVENT]}}}}},
                                                                             {"edu_type": "m.device_list_update", "content": {"user_id": USER, "device_id": "D", "stream_id": 3, "prev_id": [2]}}]}), "txn"),
        ("fed_send_join", "PUT", "/_matrix/federation/v2/send_join/r/e?omit_members=true", "content-type: application/json", J(PDU), "!room:example.org\n$event:example.org"),
        ("fed_missing_events", "POST", "/_matrix/federation/v1/get_missing_events/r", "content-type: application/json",
         J({"limit": 10, "min_depth": 0, "earliest_events": [EVENT], "latest_events": ["$l:example.org"]}), "!room:example.org"),
        ("fed_invite", "PUT", "/_matrix/federation/v2/invite/r/e", "content-type: application/json", J({"room_version": "10", "event": PDU, "invite_room_state": STRIPPED}), "!room:example.org\n$event:example.org"),
        ("as_push_events", "PUT", "/_matrix/app/v1/transactions/t", "content-type: application/json", J({"events": [MSG, MEMBER]}), "t"),
        ("push_notify", "POST", "/_matrix/push/v1/notify", "content-type: application/json",
         J({"notification": {"event_id": EVENT, "room_id": ROOM, "type": "m.room.message", "sender": USER, "prio": "high", "content": MSG["content"], "counts": {"unread": 1},
                             "devices": [{"app_id": "a", "pushkey": "k", "pushkey_ts": 1, "data": {"format": "event_id_only"}, "tweaks": {"sound": "x"}}]}}), ""),
    ]
    for r in reqs:
        args = ["%s" % r[0], r[1], r[2], r[3], r[4], r[5]]
        add("endpoint_request", args, 2)
        add("endpoint_request", args, 5)
        add("endpoint_request", args, 3)
        if r[4]:
            add("endpoint_request", args, 4, "json")
    resps = [
        ("sync", "200", "content-type: application/json", J(SYNC_RESPONSE)),
        ("login", "200", "content-type: application/json", J({"user_id": USER, "access_token": "t", "device_id": "D", "well_known": {"m.homeserver": {"base_url": "https://x"}}, "expires_in_ms": 5, "refresh_token": "r"})),
        ("get_content", "200", "content-type: image/png\ncontent-disposition: attachment; filename=\"a\\\"b.png\"\ncross-origin-resource-policy: cross-origin", "\u0089PNG"),
        ("get_pushrules", "200", "content-type: application/json", J({"global": RULESET})),
        ("get_keys", "200", "content-type: application/json",
         J({"device_keys": {USER: {"D": {"user_id": USER, "device_id": "D", "algorithms": ["m.megolm.v1.aes-sha2"], "keys": {"curve25519:D": "AAAA"}, "signatures": {USER: {"ed25519:D": "AAAA"}}, "unsigned": {"device_display_name": "x"}}}},
            "failures": {"x.org": {"e": 1}}, "master_keys": {USER: {"user_id": USER, "usage": ["master"], "keys": {"ed25519:AAAA": "AAAA"}}}})),
        ("versions", "200", "content-type: application/json", J({"versions": ["r0.6.1", "v1.1", "v1.11", "v2.0"], "unstable_features": {"org.x": True}})),
        ("well_known", "200", "content-type: application/json", J({"m.homeserver": {"base_url": "https://x"}, "m.identity_server": {"base_url": "https://y"}})),
        ("get_messages", "200", "content-type: application/json", J({"start": "a", "end": "b", "chunk": TIMELINE, "state": STATE})),
        ("get_state", "200", "content-type: application/json", J(STATE)),
        ("sync", "429", "content-type: application/json\nretry-after: 12", J({"errcode": "M_LIMIT_EXCEEDED", "error": "slow", "retry_after_ms": 2000})),
        ("login", "403", "content-type: application/json", J({"errcode": "M_FORBIDDEN", "error": "no", "soft_logout": True})),
        ("sync", "401", "content-type: application/json", J({"errcode": "M_UNKNOWN_TOKEN", "error": "x", "soft_logout": False})),
        ("get_keys", "400", "content-type: application/json", J({"errcode": "M_INCOMPATIBLE_ROOM_VERSION", "room_version": "1", "error": "x"})),
        ("fed_transaction", "200", "content-type: application/json", J({"pdus": {EVENT: {}, "$f:example.org": {"error": "bad"}}})),
        ("fed_send_join", "200", "content-type: application/json", J({"auth_chain": [PDU], "state": [PDU], "event": PDU, "members_omitted": True, "servers_in_room": ["a.example"]})),
        ("fed_get_event", "200", "content-type: application/json", J({"origin": "a.example", "origin_server_ts": 1, "pdus": [PDU]})),
        ("fed_server_keys", "200", "content-type: application/json",
         J({"server_name": "a.example", "valid_until_ts": 1700000000000, "verify_keys": {"ed25519:1": {"key": "Nn0L2hkcCMFKqynTjyGsJbth7QrVmX3lbrksMkrGOAw"}},
            "old_verify_keys": {"ed25519:0": {"key": "AAAA", "expired_ts": 1}}, "signatures": {"a.example": {"ed25519:1": "AAAA"}}})),
        ("fed_make_join", "200", "content-type: application/json", J({"room_version": "10", "event": {k: v for k, v in PDU.items() if k not in ("signatures", "hashes")}})),
        ("fed_get_event", "403", "content-type: application/json", J({"errcode": "M_FORBIDDEN", "error": "x"})),
    ]
    mp = ("--abcdef\r\nContent-Type: application/json\r\n\r\n{}\r\n--abcdef\r\nContent-Type: text/plain\r\n"
          "Content-Disposition: attachment; filename=\"f.txt\"\r\n\r\nsome plain text\r\n--abcdef--")
    mploc = "--abcdef\r\nContent-Type: application/json\r\n\r\n{}\r\n--abcdef\r\nLocation: https://cdn.example/x\r\n\r\n\r\n--abcdef--"
    resps += [("fed_media", "200", "content-type: multipart/mixed; boundary=abcdef", mp),
              ("fed_media", "200", "content-type: multipart/mixed; boundary=abcdef", mploc),
              ("fed_thumbnail", "200", "content-type: multipart/mixed; boundary=\"abcdef\"", mp),
              ("register", "401", "content-type: application/json", J({"flows": [{"stages": ["m.login.dummy", "m.login.email.identity"]}], "params": {"m.login.terms": {"policies": {}}},
                                                                       "session": "s", "completed": ["m.login.dummy"], "errcode": "M_FORBIDDEN", "error": "x"})),
              ("register", "200", "content-type: application/json", J({"user_id": USER, "access_token": "t", "device_id": "D"})),
              ("capabilities", "200", "content-type: application/json", J({"capabilities": {"m.change_password": {"enabled": False}, "m.room_versions": {"default": "10", "available": {"1": "stable", "x": "unstable"}}, "org.x": {"y": 1}}}))]
    for r in resps:
        args = [r[0], r[1], r[2], r[3]]
        add("endpoint_response", args, 2)
        add("endpoint_response", args, 1)
        add("endpoint_response", args, 3, "json" if r[0] not in ("get_content", "fed_media", "fed_thumbnail") else "bytes")
    st = [CREATE, POWER, JOINRULES, MEMBER]
    for v in ["1", "6", "8", "10", "11"]:
        for e in [MEMBER, {**MEMBER, "content": {"membership": "invite", "third_party_invite": {"display_name": "x", "signed": {"mxid": USER, "token": "t", "signatures": {"a": {"ed25519:0": "AAAA"}}}}}},
                  POWER, {**MSG, "type": "m.room.redaction", "redacts": EVENT, "content": {"redacts": EVENT}},
                  {**MEMBER, "state_key": "", "type": "m.room.third_party_invite", "content": {"display_name": "x", "key_validity_url": "https://x", "public_key": "AAAA"}}]:
            e = {**e, "event_id": "$new:example.org", "auth_events": [x["event_id"] for x in st], "prev_events": ["$m:example.org"]}
            add("auth_check", [v, J(e), J(st)], 1, "json")
        add("auth_check", [v, J({**MEMBER, "event_id": "$new:example.org", "auth_events": [x["event_id"] for x in st], "prev_events": []}), J(st)], 2, "json")
    for which in ["sign_json", "hash_and_sign_event"]:
        add("sign", [which, "a.example", J(SIGNED), "10"], 2, "json")
        add("sign", [which, "a.example", J(PDU), "10"], 2, "json")
        add("sign", [which, "a.example", J(PDU), "3"], 1)
    return S


SPECIAL = [":", "/", "#", "%", "\\", '"', ";", "=", "*", "?", "\x00", "\n", "\r", "\t", " ", "é", "\U0001F600", "́", "'", ",", "&", "+", "[", "]", "{", "}", "@", "!", "$", ".", "\x7f",
           "%00", "%2F", "%", "%e9", "%zz", "﻿", "‮", "<", ">", "-", "0", "A"]
BOUNDARY = [0, 1, 2, 127, 128, 129, 250, 251, 252, 253, 254, 255, 256, 257, 258, 300, 1000]
BAD_UTF8 = ["ff", "c3", "c328", "e28228", "f0288cbc", "eda080", "c0af", "80", "fe"]
DELIMS = set(':/.?#&=;,"@!$+ \'<>()[]{}')


def text_mutations(s, rng, budget):
    """Yield mutated strings of s."""
    n = len(s)
    out = []
    # every truncation and every suffix
    for k in range(n):
        out.append(s[:k])
    for k in range(1, min(n, 40)):
        out.append(s[k:])
    # deletions / duplications / swaps
    for k in range(n):
        out.append(s[:k] + s[k + 1:])
        out.append(s[:k] + s[k] + s[k:])
        if k + 1 < n:
            out.append(s[:k] + s[k + 1] + s[k] + s[k + 2:])
    # special characters
    for k in range(n + 1):
        for c in rng.sample(SPECIAL, 4):
            out.append(s[:k] + c + s[k:])
        c = rng.choice(SPECIAL)
        if k < n:
            out.append(s[:k] + c + s[k + 1:])
    # segments
    segs = []
    start = 0
    for k, ch in enumerate(s + ":"):
        if ch in DELIMS or k == n:
            segs.append((start, k))
            start = k + 1
    for (a, b) in segs:
        out.append(s[:a] + s[b:])
        if b < n:
            out.append(s[:a] + s[b + 1:])
        for L in BOUNDARY:
            out.append(s[:a] + "a" * L + s[b:])
            # total length exactly L
            pad = L - (n - (b - a))
            if pad >= 0:
                out.append(s[:a] + "b" * pad + s[b:])
        for L in (127, 128, 129, 255, 256):
            out.append(s[:a] + "é" * L + s[b:])
        out.append(s[:a] + s[a:b].upper() + s[b:])
        out.append(s[:a] + s[a:b] * 2 + s[b:])
    # line structure (headers, multipart bodies, quoted replies): delete / duplicate / swap lines and line ranges
    line_block = []
    if "\n" in s:
        lines = s.split("\n")
        for a in range(len(lines)):
            line_block.append("\n".join(lines[:a] + lines[a + 1:]))
            line_block.append("\n".join(lines[:a] + [lines[a]] + lines[a:]))
            if a + 1 < len(lines):
                line_block.append("\n".join(lines[:a] + [lines[a + 1], lines[a]] + lines[a + 2:]))
            for b in range(a + 2, min(len(lines), a + 5) + 1):
                line_block.append("\n".join(lines[:a] + lines[b:]))
        line_block.append(s.replace("\r\n", "\n"))
        line_block.append(s.replace("\n", "\r\n"))
    out.append(s * 2)
    out.append(s + "\x00")
    out.append(" " + s + " ")
    if len(out) > budget:
        # every truncation of a short text, an even spread over a long one; the line-structure mutants; a sample of the rest
        step = max(1, n // 80)
        keep = [out[k] for k in range(0, n, step)]
        keep += line_block if len(line_block) <= 120 else rng.sample(line_block, 120)
        rest = out[n:]
        keep += rng.sample(rest, min(len(rest), max(budget - len(keep), budget // 2)))
        out = keep
    else:
        out += line_block
    return out


def big_text(s, rng):
    """A few mutants with lengths around the 16-bit boundary and the maximum event size."""
    out = []
    k = rng.randrange(len(s) + 1)
    for L in (65535, 65536, 70000):
        out.append({"pre": s[:k], "rep": ["a", L], "post": s[k:]})
    # long runs of characters that mean something to a parser or matcher (wildcards, escapes, separators)
    for c, L in (("?", 12000), ("*", 12000), ("?*", 6000), ("%", 20000), ("\\", 20000), (" a", 20000)):
        out.append({"pre": s[:k], "rep": [c, L], "post": s[k:]})
    return out


def bytes_mutations(s, rng, budget):
    b = s.encode("utf-8", "surrogatepass").hex() if isinstance(s, str) else s["hex"]
    out = []
    n = len(b) // 2
    for k in range(n + 1):
        for bad in rng.sample(BAD_UTF8, 2):
            out.append({"hex": b[:2 * k] + bad + b[2 * k:]})
    for k in range(n):
        out.append({"hex": b[:2 * k]})
        out.append({"hex": b[:2 * k] + b[2 * k + 2:]})
        out.append({"hex": b[:2 * k] + "%02x" % (int(b[2 * k:2 * k + 2], 16) ^ (1 << rng.randrange(8))) + b[2 * k + 2:]})
        out.append({"hex": b[:2 * k] + rng.choice(["00", "ff", "7f", "80"]) + b[2 * k + 2:]})
    out.append({"hex": b + b})
    out.append({"hex": b + "00" * 300})
    if len(out) > budget:
        out = rng.sample(out, budget)
    return out


def nest(depth, leaf="1", kind="arr"):
    if kind == "arr":
        return "[" * depth + leaf + "]" * depth
    return '{"a":' * depth + leaf + "}" * depth


SWAPS = ["null", "true", "0", "-1", "1.5", "1e400", "-0", "9007199254740992", "18446744073709551616", "-9223372036854775809", '""', '"x"', '"\\ud800"', "[]", "{}", "[null]", '{"":null}',
         '"' + "a" * 300 + '"', "[[]]", '{"a":{}}', '"@a:b"', '"$"', '"!"', '"m.room.message"', '"\\u0000"', "4294967296", "255", "256", "65536", "-2147483649"]


def json_paths(v, path=()):
    yield path
    if isinstance(v, dict):
        for k in v:
            yield from json_paths(v[k], path + (k,))
    elif isinstance(v, list):
        for i, x in enumerate(v):
            yield from json_paths(x, path + (i,))


class RawJ:
    """a JSON text spliced verbatim into the serialisation"""
    def __init__(self, text):
        self.text = text


def dump(v):
    if isinstance(v, RawJ):
        return v.text
    if isinstance(v, dict):
        return "{" + ",".join(json.dumps(k, ensure_ascii=False) + ":" + dump(x) for k, x in v.items()) + "}"
    if isinstance(v, list):
        return "[" + ",".join(dump(x) for x in v) + "]"
    return json.dumps(v, ensure_ascii=False)


def replace_at(v, path, fn):
    """copy of v with fn applied to the (parent, key) of path"""
    if not path:
        return fn(None, None, v)
    v = dict(v) if isinstance(v, dict) else list(v)
    cur = v
    for p in path[:-1]:
        cur[p] = dict(cur[p]) if isinstance(cur[p], dict) else list(cur[p])
        cur = cur[p]
    r = fn(cur, path[-1], cur[path[-1]])
    return v if r is None else r


def json_mutations(text, rng, budget, deep=(100, 126, 127, 128, 129, 200)):
    try:
        return _json_mutations(text, rng, budget, deep)
    except RecursionError:
        return []


def _json_mutations(text, rng, budget, deep):
    try:
        v = json.loads(text)
    except Exception:
        return []
    paths = [p for p in json_paths(v) if p]
    out = []
    for p in paths:
        # delete
        def dele(parent, key, old):
            if isinstance(parent, dict):
                del parent[key]
            else:
                parent.pop(key)
        out.append(dump(replace_at(v, p, dele)))
        # type swaps
        for sw in rng.sample(SWAPS, 5):
            def swap(parent, key, old, sw=sw):
                parent[key] = RawJ(sw)
            out.append(dump(replace_at(v, p, swap)))
        # duplicate key with a different value (text level)
        if isinstance(p[-1], str):
            def dupk(parent, key, old):
                items = list(parent.items())
                parent.clear()
                for k, x in items:
                    parent[k] = x
                    if k == key:
                        parent[k] = RawJ(dump(x) + "," + json.dumps(k) + ":" + rng.choice(SWAPS))
            out.append(dump(replace_at(v, p, dupk)))
            # rename key
            def ren(parent, key, old):
                items = list(parent.items())
                parent.clear()
                for k, x in items:
                    parent[k + "x" if k == key else k] = x
            out.append(dump(replace_at(v, p, ren)))
        # string leaf: mutate the string itself with a special char / boundary length
        node = v
        for q in p:
            node = node[q]
        if isinstance(node, str):
            for _ in range(3):
                k = rng.randrange(len(node) + 1)
                c = rng.choice(SPECIAL)

                def sm(parent, key, old, k=k, c=c):
                    parent[key] = old[:k] + c + old[k:]
                out.append(dump(replace_at(v, p, sm)))
            for L in rng.sample(BOUNDARY, 3):
                def sl(parent, key, old, L=L):
                    parent[key] = old[:1] + "a" * L + old[1:]
                out.append(dump(replace_at(v, p, sl)))

            def se(parent, key, old):
                parent[key] = ""
            out.append(dump(replace_at(v, p, se)))
        if isinstance(node, (int, float)) and not isinstance(node, bool):
            for x in ("-1", "9007199254740991", "9007199254740992", "1.0", "1e2", "0.5"):
                def sn(parent, key, old, x=x):
                    parent[key] = RawJ(x)
                out.append(dump(replace_at(v, p, sn)))
    if len(out) > budget:
        out = rng.sample(out, budget)
    # deep nesting at a few places (kept outside the budget: few and important)
    for p in rng.sample(paths, min(len(paths), 6)):
        d = rng.choice(deep)
        kind = rng.choice(["arr", "obj"])

        def dn(parent, key, old, d=d, kind=kind):
            parent[key] = RawJ(nest(d, "1", kind))
        out.append(dump(replace_at(v, p, dn)))
    for d in deep:
        out.append(nest(d, "1", "arr"))
        out.append(nest(d, "{}", "obj"))
    # unknown extra fields everywhere, reversed key order
    def rev(x):
        if isinstance(x, dict):
            return {k: rev(x[k]) for k in reversed(list(x))}
        if isinstance(x, list):
            return [rev(y) for y in x]
        return x
    out.append(dump(rev(v)))
    # text-level damage
    out += rng.sample(text_mutations(text, rng, 400), min(60, budget // 4 + 1))
    return out


def html_mutations(s, rng, budget, max_depth):
    out = text_mutations(s, rng, budget)
    for tag in ("b", "div", "mx-reply", "blockquote", "span", "a", "table", "font", "ul"):
        for d in (99, 100, 101, 102, 255, 256, 1000):
            out.append({"rep": ["<%s>" % tag, d], "mid": "x", "close": "</%s>" % tag})
    for d in (99, 100, 101, 1000):
        out.append({"rep": ["<b>", d], "mid": "x"})
        out.append({"pre": "<mx-reply>", "rep": ["<div>", d], "mid": "x", "post": "</mx-reply>y"})
        out.append({"rep": ["<b><i>", d], "mid": "x"})
        out.append({"rep": ["<table><tr><td>", d], "mid": "x"})
        out.append({"rep": ["<a href=x>", d], "mid": "x"})
        out.append({"rep": ["</b>", d]})
        out.append({"rep": ["<!--", d]})
        out.append({"rep": ["<b x=y ", d], "post": ">"})
    return out


def deep_html(max_depth):
    out = []
    for d in (3000, 14000, max_depth):
        out.append((d, {"rep": ["<b>", d], "mid": "x"}))
        out.append((d, {"rep": ["<div>", d], "mid": "x", "close": "</div>"}))
    return out


def ruleset_edits(rng, n):
    """A long sequence of edits of one Ruleset: [op, kind, id, after, before, extra]"""
    kinds = ["override", "underride", "content", "room", "sender"]
    ids = {"override": ["o1", "o2", "o3", "o4"], "underride": ["u1", "u2", "u3"], "content": ["c1", "c2", "c3"],
           "room": ["!r1:x.y", "!r2:x.y", "!r3:x.y"], "sender": ["@s1:x.y", "@s2:x.y", "@s3:x.y"]}
    defaults = {"override": [".m.rule.master", ".m.rule.suppress_notices", ".m.rule.tombstone"], "underride": [".m.rule.call", ".m.rule.message"],
                "content": [".m.rule.contains_user_name"], "room": [], "sender": []}
    bad = ["", ".m.mine", "a/b", "a\\b", "zz-unknown", ".m.rule.nonexistent", "é" * 130]
    ops = []
    for _ in range(n):
        k = rng.choice(kinds)
        pool = ids[k] + defaults[k] + bad

        def anchor():
            r = rng.random()
            if r < 0.35:
                return None
            if r < 0.8:
                return rng.choice(ids[k])
            return rng.choice(pool)
        r = rng.random()
        acts = rng.choice([[], ["notify"], ["notify", "default", True]])
        if r < 0.55:
            rid = rng.choice(ids[k]) if rng.random() < 0.85 else rng.choice(pool)
            ops.append(["insert", k, rid, anchor(), anchor(), acts])
        elif r < 0.62:
            rid = rng.choice(ids[k])
            body = {"override": {"rule_id": rid, "conditions": [{"kind": "event_match", "key": "type", "pattern": "m.*"}], "actions": acts},
                    "underride": {"rule_id": rid, "conditions": [], "actions": acts}, "content": {"rule_id": rid, "pattern": "x*", "actions": acts},
                    "room": {"rule_id": rid, "actions": acts}, "sender": {"rule_id": rid, "actions": acts}}[k]
            ops.append(["insert_json", k, rid, anchor(), anchor(), json.dumps(body)])
        elif r < 0.75:
            ops.append(["remove", k, rng.choice(pool), None, None, None])
        elif r < 0.88:
            ops.append(["set_enabled", k, rng.choice(pool), None, None, rng.random() < 0.5])
        else:
            ops.append(["set_actions", k, rng.choice(pool), None, None, acts])
    return ops


def generate(seed, per_seed, thorough, signed=None):
    """Returns the list of inputs [{i, ep, a, why}] (pure ones), the probes and the ruleset edit inputs."""
    rng = random.Random(seed)
    S = seeds(signed)
    inputs = []
    probes = []

    def push(ep, args, why, lst=None):
        # a lone surrogate code point (from re-parsing a mutated "\\ud800" escape) cannot be written to the inputs file
        if any(isinstance(x, str) and any(0xD800 <= ord(ch) <= 0xDFFF for ch in x) for x in args):
            return
        rec = {"i": 0, "ep": ep, "a": args, "why": why}
        (inputs if lst is None else lst).append(rec)

    for ep, lst in S.items():
        for (args, which, kind) in lst:
            push(ep, args, "seed", probes if len([p for p in probes if p["ep"] == ep]) < 1 else None)
            base = args[which]
            if kind == "json":
                muts = json_mutations(base, rng, per_seed)
            elif kind == "bytes":
                muts = text_mutations(base, rng, per_seed) + bytes_mutations(base, rng, per_seed // 2) + big_text(base, rng)
            elif kind == "hex":
                muts = bytes_mutations(base, rng, per_seed)
            elif kind == "html":
                muts = html_mutations(base, rng, per_seed, 21800)
            else:
                muts = text_mutations(base, rng, per_seed) + big_text(base, rng)
            for m in muts:
                a = list(args)
                a[which] = m
                push(ep, a, "mutation of seed argument %d (%s)" % (which, kind))
    # deep HTML nesting up to what fits in one event
    for ep in ["html_strict", "html_compat", "html_reply", "html_plain", "sanitize_html", "remove_html_reply_fallback"]:
        for d, a in deep_html(21800):
            push(ep, [a], "html nesting depth %d" % d)
    # bundled replacements nested in bundled replacements (unsigned.m.relations.m.replace): each level is parsed by a fresh JSON
    # deserializer, so the recursion limit of one document does not bound the nesting
    head = '{"type":"m.room.message","event_id":"$e:example.org","sender":"%s","origin_server_ts":1700000000000,"content":{"msgtype":"m.text","body":"b"}' % USER
    for n in (50, 300, 1000, 3000):
        arg = {"rep": [head + ',"unsigned":{"m.relations":{"m.replace":', n], "mid": head + "}", "close": "}}}"}
        push("any_sync_timeline", [arg], "nested bundled replacements depth %d" % n)
        push("raw_event", [arg], "nested bundled replacements depth %d" % n)
    # stacked mutations (two or three at once) on random seeds
    allseeds = [(ep, s) for ep, lst in S.items() for s in lst]
    for _ in range(15000 if thorough else 600):
        ep, (args, which, kind) = rng.choice(allseeds)
        cur = args[which]
        if isinstance(cur, dict):
            continue
        for _ in range(rng.choice([2, 3])):
            ms = json_mutations(cur, rng, 8) if kind == "json" and rng.random() < 0.6 else text_mutations(cur, rng, 12)
            ms = [m for m in ms if isinstance(m, str)]
            if ms:
                cur = rng.choice(ms)
        a = list(args)
        a[which] = cur
        push(ep, a, "stacked mutations")
    edits = [{"i": 0, "ep": "ruleset_edit", "a": op, "why": "ruleset edit"} for op in ruleset_edits(rng, 20000 if thorough else 1500)]
    return inputs, probes, edits

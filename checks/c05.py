"""C05 content hash, reference hash, event IDs (shares the C03 enumeration)."""
from checks import c03


def run(rep, tier):
    c03.run05(rep, tier)


replay = c03.replay

"""C11 Matrix URIs."""
import json
import os

import vlib

RULE = ("TLC enumerates every URI value over 11 user ids, 5 room ids, 4 aliases, 5 event ids containing '/', '%', '%41', '?', '#', "
        "space, '+', '&', '=', non-ASCII and astral characters, ports and IPv6 literals, x 0..2 via servers x every action (none / join "
        "/ chat / 9 custom strings) in both forms, proves that a reference encoder round-trips through the independent receiver "
        "SpecParse, and emits each value with its reference encoding. The harness obtains the value through the public constructors "
        "(when expressible) and by parsing the reference encoding, formats it, and TLC (Trace_C11) checks that SpecParse decodes "
        "ruma's text to the value, ruma's parser returns the same value and re-formats identically. Mutated texts (inserted / "
        "removed '/', '?', '#', '%', truncated escapes, doubled actions) must parse without panic and stably. Non-trivial = value "
        "with a reserved or non-ASCII character, a via server or an action.")


def run(rep, tier):
    thorough = tier == "thorough"
    cases, _ = vlib.model_check(rep, "C11", "MC_C11", stack="1g")
    obs = vlib.replay_cases("C11", cases, ["replay", "c11"])
    recs = []
    nontriv = 0
    for c, o in zip(cases, obs):
        v = c["v"]
        vs = vlib.cp_to_str(v["id"])
        if c.get("bare") and "ctor" in o:
            # an identifier that is only a sigil was accepted by the identifier parser and a URI built from it
            r = o["ctor"]
            if not (r["parse_ok"] and r["same_value"]):
                rep.violation("uri/%s/ctor/identifier-of-sigil-only-does-not-round-trip" % v["form"], {"value": v, "id": vs, "event": vlib.cp_to_str(v["ev"]), "text": vlib.cp_to_str(r["text"])})
        if not c["ok"]:
            continue
        if v["via"] or v["action"] != "none" or any(ch in vs for ch in "/%?#+&= ") or any(x > 127 for x in v["id"] + v["ev"]):
            nontriv += 1
        if "panic" in o:
            rep.violation("uri/panic", {"value": v, "id": vs, "observed": o})
            continue
        if o.get("ctor_equals_parsed") is False:
            rep.violation("uri/constructed-value-differs-from-parsed-reference-encoding", {"value": v, "id": vs, "reference": vlib.cp_to_str(c["ref"]), "observed": o})
        for how in ("ctor", "parsed"):
            if how in o:
                r = o[how]
                recs.append({"i": len(recs) + 1, "how": how, "v": v, "text": r["text"], "pv": r["value"], "parse_ok": r["parse_ok"],
                             "same_value": r["same_value"], "same_text": r["same_text"]})
    tpath = os.path.join(vlib.workdir("C11"), "trace.ndjson")
    vlib.write_ndjson(tpath, recs)
    vlib.maybe_corrupt(tpath)
    nrec, bad = vlib.validate_trace(rep, "C11", "Trace_C11", tpath, stack="1g")
    for i in bad:
        r = recs[i - 1]
        what = "no-reparse" if not r["parse_ok"] else ("reparse-differs" if not r["same_value"] else ("reformat-differs" if not r["same_text"] else "text-does-not-encode-the-value"))
        rep.violation("uri/%s/%s/%s" % (r["v"]["form"], r["how"], what), {"id": vlib.cp_to_str(r["v"]["id"]), "event": vlib.cp_to_str(r["v"]["ev"]), "custom_action": vlib.cp_to_str(r["v"]["custom"]),
                                                              "text": vlib.cp_to_str(r["text"]), "record": r})
    rep.sample({"value": recs[100]["v"], "ruma_text": vlib.cp_to_str(recs[100]["text"])})
    n = 300000 if thorough else 8000
    _, out, _ = vlib.run_harness(["mutants", "c11", "--n", str(n)])
    summ = {}
    for ln in out.splitlines():
        r = json.loads(ln)
        if "summary" in r:
            summ = r["summary"]
        elif "panic" in r:
            rep.violation("uri/mutant/parse-panics", r)
        else:
            rep.violation("uri/mutant/parsed-uri-does-not-round-trip", r)
    rep.part("mutants", **summ)
    rep.cov["evaluations"] = len(cases) + 2 * n
    rep.cov["distinct_nontrivial"] = nontriv
    rep.cov["traces_validated_against_impl"] += len(recs)
    rep.cov["exhaustive"] = True
    rep.cov["rule"] = RULE
    rep.assumptions += ["values the constructors cannot express (custom actions, via on aliases/users) are obtained by parsing the model's reference encoding",
                        "which malformed texts are accepted is UNSPEC; only panic-freedom and stability are required of them"]


def replay(rep, path):
    print(open(path).read()[:3000])

"""C06 determinism of state resolution (shares the C07 enumeration)."""
from checks import c07


def run(rep, tier):
    c07.run06(rep, tier)


replay = c07.replay

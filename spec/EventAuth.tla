------------------------------ MODULE EventAuth ------------------------------
(* Authorization rules of the Matrix server-server spec, all room versions 1..11.      *)
(* Values have ONE shape per field (TLC cannot compare heterogeneous values).           *)
EXTENDS Integers, Sequences, FiniteSets, TLC, RoomVersions

(* ---- users ---- *)
U(n, s) == [name |-> n, server |-> s]
NoUser == U("", "")

(* ---- tagged power-level values ---- *)
AbsentV == [k |-> "absent", n |-> 0]
IntV(n) == [k |-> "int", n |-> n]
StrV(n) == [k |-> "str", n |-> n]      \* JSON string spelling the integer n
BadV    == [k |-> "bad", n |-> 0]      \* any other JSON value

ScalarFields == {"users_default", "events_default", "state_default", "ban", "redact", "kick", "invite"}
DefaultOf(f) == IF f \in {"users_default", "events_default", "invite"} THEN 0 ELSE 50

(* rule records per room version: RV(v) of RoomVersions.tla; R below is always RV(v) *)

(* ---- state access; st : [<<type,key>> -> event] ---- *)
K(t, k) == <<t, k>>
Has(st, k) == k \in DOMAIN st
Create(st) == st[K("m.room.create", "")]
Creator(st, R) == IF R.createsender THEN Create(st).sender ELSE Create(st).c.creator
HasPL(st) == Has(st, K("m.room.power_levels", ""))
PL(st) == st[K("m.room.power_levels", "")].c.pl
Membership(st, u) == IF Has(st, K("m.room.member", u.name)) THEN st[K("m.room.member", u.name)].c.membership ELSE "leave"
JoinRuleOf(st) == IF Has(st, K("m.room.join_rules", "")) THEN st[K("m.room.join_rules", "")].c.join_rule ELSE "absent"

ValidV(t, R) == t.k = "int" \/ (t.k = "str" /\ ~R.intpl)

(* every value of the stored power levels that a rule may read is well-formed *)
StateWellFormed(st, R) ==
  ~HasPL(st) \/ LET p == PL(st) IN
     /\ \A f \in ScalarFields : p[f].k = "absent" \/ ValidV(p[f], R)
     /\ \A u \in DOMAIN p.users : ValidV(p.users[u], R)
     /\ \A t \in DOMAIN p.events : ValidV(p.events[t], R)
     /\ \A t \in DOMAIN p.notifications : ValidV(p.notifications[t], R)

Field(st, f) == IF HasPL(st) /\ PL(st)[f].k # "absent" THEN PL(st)[f].n ELSE DefaultOf(f)
UserLevel(st, u, R) ==
  IF HasPL(st)
  THEN IF u.name \in DOMAIN PL(st).users THEN PL(st).users[u.name].n ELSE Field(st, "users_default")
  ELSE IF u = Creator(st, R) THEN 100 ELSE 0
RequiredLevel(st, e) ==
  IF HasPL(st) /\ e.type \in DOMAIN PL(st).events THEN PL(st).events[e.type].n
  ELSE IF e.haskey THEN Field(st, "state_default") ELSE Field(st, "events_default")

Allow(r)  == <<"allow", r>>
Reject(r) == <<"reject", r>>
Unspec(r) == <<"unspec", r>>

(* ---- R5 membership ---- *)
AuthJoin(st, e, R) ==
  LET tgt == e.target  cur == Membership(st, tgt)  jr == JoinRuleOf(st) IN
  IF e.prev = {Create(st).id} /\ tgt = Creator(st, R) THEN Allow("J1")
  ELSE IF e.sender # tgt THEN Reject("J2")
  ELSE IF cur = "ban" THEN Reject("J3")
  ELSE IF jr = "invite" \/ (R.knocking /\ jr = "knock")
       THEN IF cur \in {"invite", "join"} THEN Allow("J4") ELSE Reject("J4")
  ELSE IF (R.restricted /\ jr = "restricted") \/ (R.knockres /\ jr = "knock_restricted")
       THEN IF cur \in {"join", "invite"} THEN Allow("J5.1")
            ELSE IF e.c.jauth = NoUser THEN Reject("J5.2a")
            ELSE IF Membership(st, e.c.jauth) # "join" THEN Reject("J5.2b")
            ELSE IF UserLevel(st, e.c.jauth, R) < Field(st, "invite") THEN Reject("J5.2c")
            ELSE Allow("J5.3")
  ELSE IF jr = "public" THEN Allow("J6")
  ELSE Reject("J7")

TpiKeys(ev) == {ev.c.tpikeys.top} \cup ev.c.tpikeys.list
AuthInvite(st, e, R) ==
  LET tgt == e.target  t == e.c.tpi IN
  IF t.present THEN
       IF Membership(st, tgt) = "ban" THEN Reject("I1.1")
       ELSE IF ~t.signed \/ ~t.hasmxid \/ ~t.hastoken THEN Reject("I1.2")
       ELSE IF t.mxid # tgt THEN Reject("I1.4")
       ELSE IF ~Has(st, K("m.room.third_party_invite", t.token)) THEN Reject("I1.5")
       ELSE IF st[K("m.room.third_party_invite", t.token)].sender # e.sender THEN Reject("I1.6")
       \* "if any signature in signed matches any public key in the m.room.third_party_invite event, allow": the keys of that
       \* event are its top-level public_key and every entry of its public_keys list
       ELSE IF t.sigkey \in TpiKeys(st[K("m.room.third_party_invite", t.token)]) THEN Allow("I1.7") ELSE Reject("I1.8")
  ELSE IF Membership(st, e.sender) # "join" THEN Reject("I2")
  ELSE IF Membership(st, tgt) \in {"join", "ban"} THEN Reject("I3")
  ELSE IF UserLevel(st, e.sender, R) >= Field(st, "invite") THEN Allow("I4") ELSE Reject("I5")

AuthLeave(st, e, R) ==
  LET tgt == e.target  sm == Membership(st, e.sender)
      sl == UserLevel(st, e.sender, R)  tl == UserLevel(st, tgt, R) IN
  IF e.sender = tgt
  THEN IF sm \in {"invite", "join"} \/ (R.knocking /\ sm = "knock") THEN Allow("L1") ELSE Reject("L1")
  ELSE IF sm # "join" THEN Reject("L2")
  ELSE IF Membership(st, tgt) = "ban" /\ sl < Field(st, "ban") THEN Reject("L3")
  ELSE IF sl >= Field(st, "kick") /\ tl < sl THEN Allow("L4") ELSE Reject("L5")

AuthBan(st, e, R) ==
  LET sl == UserLevel(st, e.sender, R)  tl == UserLevel(st, e.target, R) IN
  IF Membership(st, e.sender) # "join" THEN Reject("B1")
  ELSE IF sl >= Field(st, "ban") /\ tl < sl THEN Allow("B2") ELSE Reject("B3")

AuthKnock(st, e, R) ==
  LET jr == JoinRuleOf(st)  sm == Membership(st, e.sender) IN
  IF ~(jr = "knock" \/ (R.knockres /\ jr = "knock_restricted")) THEN Reject("K1")
  ELSE IF e.sender # e.target THEN Reject("K2")
  ELSE IF sm = "invite" THEN Unspec("K3-invite")
  ELSE IF sm \notin {"ban", "join"} THEN Allow("K3") ELSE Reject("K4")

AuthMember(st, e, R) ==
  IF ~e.haskey \/ e.c.membership = "absent" THEN Reject("5.1")
  ELSE IF ~e.targetvalid THEN Unspec("5.1-key")
  ELSE CASE e.c.membership = "join"   -> AuthJoin(st, e, R)
         [] e.c.membership = "invite" -> AuthInvite(st, e, R)
         [] e.c.membership = "leave"  -> AuthLeave(st, e, R)
         [] e.c.membership = "ban"    -> AuthBan(st, e, R)
         [] e.c.membership = "knock" /\ R.knocking -> AuthKnock(st, e, R)
         [] OTHER -> Reject("5.x")

(* ---- R10 power levels ---- *)
Num(t, dflt) == IF t.k = "absent" THEN dflt ELSE t.n
SameV(a, b) == (a.k = "absent" /\ b.k = "absent") \/ (a.k # "absent" /\ b.k # "absent" /\ a.n = b.n)
MapGet(m, x) == IF x \in DOMAIN m THEN m[x] ELSE AbsentV

ScalarVerdict(old, new, sl) ==   \* "ok" | "reject" | "unspec"
  LET bad(f) == LET o == old[f]  w == new[f] IN
                 IF SameV(o, w) THEN [a |-> FALSE, b |-> FALSE]
                 ELSE [ a |-> Num(o, DefaultOf(f)) > sl \/ Num(w, DefaultOf(f)) > sl,          \* absent = default
                        b |-> (o.k # "absent" /\ o.n > sl) \/ (w.k # "absent" /\ w.n > sl) ]    \* absent skipped
      A == \E f \in ScalarFields : bad(f).a
      B == \E f \in ScalarFields : bad(f).b
  IN IF A /\ B THEN "reject" ELSE IF ~A /\ ~B THEN "ok" ELSE "unspec"

MapBad(old, new, sl, strictOther, sender) ==
  \E x \in (DOMAIN old) \cup (DOMAIN new) :
     LET o == MapGet(old, x)  w == MapGet(new, x) IN
     /\ ~SameV(o, w)
     /\ \/ (o.k # "absent" /\ (IF strictOther THEN (x # sender /\ o.n >= sl) ELSE o.n > sl))
        \/ (w.k # "absent" /\ w.n > sl)

AuthPowerLevels(st, e, R) ==
  LET new == e.c.pl  sl == UserLevel(st, e.sender, R) IN
  IF R.intpl /\ ( \/ (\E f \in ScalarFields : new[f].k \in {"str", "bad"})
                  \/ (\E t \in DOMAIN new.events : new.events[t].k # "int")
                  \/ (\E t2 \in DOMAIN new.notifications : new.notifications[t2].k # "int") ) THEN Reject("10.1")
  ELSE IF ~new.userkeysvalid \/ (\E u \in DOMAIN new.users : ~ValidV(new.users[u], R)) THEN Reject("10.2")
  ELSE IF ~R.intpl /\ ( \/ (\E f \in ScalarFields : new[f].k = "bad")
                       \/ (\E t \in DOMAIN new.events : ~ValidV(new.events[t], R))
                       \/ (\E t2 \in DOMAIN new.notifications : ~ValidV(new.notifications[t2], R)) ) THEN Unspec("10.1-pre10")
  ELSE IF ~HasPL(st) THEN Allow("10.3")
  ELSE LET old == PL(st)  sv == ScalarVerdict(old, new, sl) IN
       IF sv = "reject" THEN Reject("10.4")
       ELSE IF MapBad(old.events, new.events, sl, FALSE, "") THEN Reject("10.5")
       ELSE IF R.notif /\ MapBad(old.notifications, new.notifications, sl, FALSE, "") THEN Reject("10.6")
       ELSE IF MapBad(old.users, new.users, sl, TRUE, e.sender.name) THEN Reject("10.7")
       ELSE IF sv = "unspec" THEN Unspec("10.4")
       ELSE Allow("10.8")

(* ---- the rule sequence ---- *)
Auth(st, e, R) ==
  IF e.type = "m.room.create" THEN
       IF e.prev # {} THEN Reject("1.1")
       ELSE IF e.roomserver # e.sender.server THEN Reject("1.2")
       ELSE IF ~R.createsender /\ ~e.c.hascreator THEN Reject("1.4")
       ELSE Allow("1.5")
  ELSE IF ~Has(st, K("m.room.create", "")) THEN Reject("2.4a")
  ELSE IF Create(st).id \notin e.auth THEN Reject("2.4")
  ELSE IF ~Create(st).c.federate /\ e.sender.server # Create(st).sender.server THEN Reject("3")
  ELSE IF R.aliases_special /\ e.type = "m.room.aliases" THEN
       IF ~e.haskey \/ e.key # e.sender.server THEN Reject("4.1") ELSE Allow("4.2")
  ELSE IF ~StateWellFormed(st, R) THEN Unspec("state")
  ELSE IF e.type = "m.room.member" THEN AuthMember(st, e, R)
  ELSE IF Membership(st, e.sender) # "join" THEN Reject("6")
  ELSE IF e.type = "m.room.third_party_invite" THEN
       IF UserLevel(st, e.sender, R) >= Field(st, "invite") THEN Allow("7") ELSE Reject("7")
  ELSE IF RequiredLevel(st, e) > UserLevel(st, e.sender, R) THEN Reject("8")
  ELSE IF e.haskey /\ e.keyisuser /\ e.key # e.sender.name THEN Reject("9")
  ELSE IF e.type = "m.room.power_levels" THEN AuthPowerLevels(st, e, R)
  ELSE IF R.redaction_special /\ e.type = "m.room.redaction" THEN
       IF UserLevel(st, e.sender, R) >= Field(st, "redact") THEN Allow("11.1")
       ELSE IF e.idserver = e.c.redactsserver THEN Allow("11.2") ELSE Reject("11.3")
  ELSE Allow("12")

(* ---- auth events selection (server-server "Auth events selection") ---- *)
AuthTypes(e, R) ==
  IF e.type = "m.room.create" THEN {}
  ELSE {K("m.room.create", ""), K("m.room.power_levels", ""), K("m.room.member", e.sender.name)}
       \cup (IF e.type = "m.room.member" /\ e.haskey
             THEN {K("m.room.member", e.key)}
                  \cup (IF e.c.membership \in {"join", "invite", "knock"} THEN {K("m.room.join_rules", "")} ELSE {})
                  \cup (IF e.c.membership = "invite" /\ e.c.tpi.present /\ e.c.tpi.signed /\ e.c.tpi.hastoken
                        THEN {K("m.room.third_party_invite", e.c.tpi.token)} ELSE {})
                  \cup (IF e.c.membership = "join" /\ R.restricted /\ e.c.jauth # NoUser
                        THEN {K("m.room.member", e.c.jauth.name)} ELSE {})
             ELSE {})

\* selection is specified unless the content is malformed in a way the selection text does not cover
SelectionSpecified(e) ==
  ~(e.type = "m.room.member" /\ (~e.haskey \/ e.c.membership = "absent"
                                 \/ (e.c.membership = "invite" /\ e.c.tpi.present /\ (~e.c.tpi.signed \/ ~e.c.tpi.hastoken))))

\* restriction of a state to the selected pairs: authorization must not depend on anything else
Selected(st, e, R) == [k \in (DOMAIN st) \cap AuthTypes(e, R) |-> st[k]]
NonInterference(st, e, R) == Auth(Selected(st, e, R), e, R) = Auth(st, e, R)
==============================================================================

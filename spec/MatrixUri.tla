----------------------------- MODULE MatrixUri -----------------------------
(* Matrix URIs (appendix "URIs"): the receiving side.  A URI text encodes a   *)
(* value iff an independent receiver - strip the base, split the path on '/', *)
(* percent-decode every segment, split the query on '&' and '=', percent-     *)
(* decode - recovers exactly the identifiers, via servers and action.         *)
(* Texts and identifiers are sequences of code points; decoding is done on    *)
(* UTF-8 bytes (a raw non-ASCII character stands for its UTF-8 bytes).        *)
EXTENDS Integers, Sequences, FiniteSets

Utf8(c) == IF c < 128 THEN <<c>>
           ELSE IF c < 2048 THEN <<192 + (c \div 64), 128 + (c % 64)>>
           ELSE IF c < 65536 THEN <<224 + (c \div 4096), 128 + ((c \div 64) % 64), 128 + (c % 64)>>
           ELSE <<240 + (c \div 262144), 128 + ((c \div 4096) % 64), 128 + ((c \div 64) % 64), 128 + (c % 64)>>
RECURSIVE Bytes(_)
Bytes(s) == IF s = <<>> THEN <<>> ELSE Utf8(Head(s)) \o Bytes(Tail(s))

IsHex(c) == (c >= 48 /\ c <= 57) \/ (c >= 65 /\ c <= 70) \/ (c >= 97 /\ c <= 102)
HexVal(c) == IF c <= 57 THEN c - 48 ELSE IF c <= 70 THEN c - 55 ELSE c - 87
\* percent-decoding of a text to bytes; a '%' not followed by two hex digits stays a literal '%'
RECURSIVE PctDecode(_)
PctDecode(s) ==
  IF s = <<>> THEN <<>>
  ELSE IF s[1] = 37 /\ Len(s) >= 3 /\ IsHex(s[2]) /\ IsHex(s[3]) THEN <<16 * HexVal(s[2]) + HexVal(s[3])>> \o PctDecode(SubSeq(s, 4, Len(s)))
  ELSE Utf8(s[1]) \o PctDecode(Tail(s))

Find(s, c) == IF \E i \in 1..Len(s) : s[i] = c THEN CHOOSE i \in 1..Len(s) : s[i] = c /\ \A j \in 1..(i - 1) : s[j] # c ELSE 0
RECURSIVE Split(_, _)
Split(s, c) == LET i == Find(s, c) IN IF i = 0 THEN <<s>> ELSE <<SubSeq(s, 1, i - 1)>> \o Split(SubSeq(s, i + 1, Len(s)), c)
StartsWith(s, p) == Len(s) >= Len(p) /\ SubSeq(s, 1, Len(p)) = p

MATRIXTO == <<104,116,116,112,115,58,47,47,109,97,116,114,105,120,46,116,111,47,35,47>>   \* https://matrix.to/#/
MATRIXSCHEME == <<109,97,116,114,105,120,58>>                                              \* matrix:
KVIA == <<118,105,97>>
KACTION == <<97,99,116,105,111,110>>
JOIN == <<106,111,105,110>>
CHAT == <<99,104,97,116>>

Err == [err |-> TRUE]
\* query string -> [via : Seq(bytes), action : Seq(bytes) or "none"]; unknown keys / repeated action are errors
ParseQuery(q) ==
  IF q = <<>> THEN [via |-> <<>>, action |-> <<>>, hasaction |-> FALSE, bad |-> FALSE]
  ELSE LET items == Split(q, 38)
           kv(i) == LET e == Find(items[i], 61) IN
                    IF e = 0 THEN [k |-> items[i], v |-> <<>>] ELSE [k |-> SubSeq(items[i], 1, e - 1), v |-> SubSeq(items[i], e + 1, Len(items[i]))]
           vias == {i \in 1..Len(items) : kv(i).k = KVIA}
           acts == {i \in 1..Len(items) : kv(i).k = KACTION}
           \* via servers in order of appearance
           viaSeq == [n \in 1..Cardinality(vias) |-> PctDecode(kv(CHOOSE i \in vias : Cardinality({j \in vias : j < i}) = n - 1).v)]
       IN [via |-> viaSeq, action |-> IF acts = {} THEN <<>> ELSE PctDecode(kv(CHOOSE i \in acts : TRUE).v),
           hasaction |-> acts # {},
           bad |-> Cardinality(acts) > 1 \/ \E i \in 1..Len(items) : kv(i).k \notin {KVIA, KACTION}]

KindOf(first, second) ==
  IF second = <<>> THEN (IF first = <<>> THEN "bad" ELSE CASE first[1] = 64 -> "user" [] first[1] = 33 -> "room" [] first[1] = 35 -> "alias" [] OTHER -> "bad")
  ELSE IF first = <<>> \/ second[1] # 36 THEN "bad"
  ELSE CASE first[1] = 33 -> "event_room" [] first[1] = 35 -> "event_alias" [] OTHER -> "bad"

\* the receiving side; result in bytes
SpecParse(text) ==
  IF StartsWith(text, MATRIXTO) THEN
       LET rest == SubSeq(text, Len(MATRIXTO) + 1, Len(text))
           qm == Find(rest, 63)
           path == IF qm = 0 THEN rest ELSE SubSeq(rest, 1, qm - 1)
           q == ParseQuery(IF qm = 0 THEN <<>> ELSE SubSeq(rest, qm + 1, Len(rest)))
           segs == Split(path, 47)
       IN IF Len(segs) \notin {1, 2} \/ q.bad \/ q.hasaction THEN Err
          ELSE LET first == PctDecode(segs[1])  second == IF Len(segs) = 2 THEN PctDecode(segs[2]) ELSE <<>>
                   kind == KindOf(first, second) IN
               IF kind = "bad" \/ (Len(segs) = 2 /\ second = <<>>) THEN Err
               ELSE [form |-> "matrix_to", kind |-> kind, id |-> first, ev |-> second, via |-> q.via, action |-> "none", custom |-> <<>>]
  ELSE IF StartsWith(text, MATRIXSCHEME) THEN
       LET rest == SubSeq(text, Len(MATRIXSCHEME) + 1, Len(text))
           qm == Find(rest, 63)
           path == IF qm = 0 THEN rest ELSE SubSeq(rest, 1, qm - 1)
           q == ParseQuery(IF qm = 0 THEN <<>> ELSE SubSeq(rest, qm + 1, Len(rest)))
           segs == Split(path, 47)
           sigil(t) == CASE t \in {<<117>>, <<117,115,101,114>>} -> 64                 \* u / user
                         [] t \in {<<114>>, <<114,111,111,109>>} -> 35                  \* r / room
                         [] t = <<114,111,111,109,105,100>> -> 33                       \* roomid
                         [] t \in {<<101>>, <<101,118,101,110,116>>} -> 36              \* e / event
                         [] OTHER -> 0
       IN IF Len(segs) \notin {2, 4} \/ q.bad THEN Err
          ELSE LET s1 == sigil(segs[1])
                   first == <<s1>> \o PctDecode(segs[2])
                   second == IF Len(segs) = 4 THEN <<sigil(segs[3])>> \o PctDecode(segs[4]) ELSE <<>>
                   kind == KindOf(first, second) IN
               IF s1 \in {0, 36} \/ kind = "bad" \/ (Len(segs) = 4 /\ sigil(segs[3]) # 36) THEN Err
               ELSE [form |-> "matrix", kind |-> kind, id |-> first, ev |-> second, via |-> q.via,
                     action |-> IF ~q.hasaction THEN "none" ELSE IF q.action = JOIN THEN "join" ELSE IF q.action = CHAT THEN "chat" ELSE "custom",
                     custom |-> IF q.hasaction /\ q.action \notin {JOIN, CHAT} THEN q.action ELSE <<>>]
  ELSE Err

\* a value (identifiers as code points) in the byte form the receiver produces
ValueBytes(v) == [form |-> v.form, kind |-> v.kind, id |-> Bytes(v.id), ev |-> Bytes(v.ev),
                  via |-> [i \in 1..Len(v.via) |-> Bytes(v.via[i])], action |-> v.action, custom |-> Bytes(v.custom)]
Encodes(text, v) == SpecParse(text) = ValueBytes(v)
=============================================================================

------------------------------ MODULE Signing ------------------------------
(* JSON signing and verification (appendix "Signing JSON"; ruma_signatures     *)
(* sign_json / verify_json) as a state machine over one JSON object.           *)
(*                                                                             *)
(* Cryptography is abstract: Sig(k, msg) is an injective constructor and a     *)
(* signature verifies under public key k' iff it is intact, k' = k and the     *)
(* message is the current signed content.  The signed content (payload) is     *)
(* the object without `signatures` and `unsigned`.                             *)
(*                                                                             *)
(*  obj == [ payload : P, unsigned : {"absent"} \cup U,                        *)
(*           sigs : [kind : {"absent","bad","map"},                            *)
(*                   m : [Entities -> [kind : {"absent","bad","map"},          *)
(*                                     slots : [KeyIds -> slot], alien : BOOLEAN]]] ]   *)
(*  slot == [present : BOOLEAN, key : Keys, msg : P, intact : BOOLEAN]         *)
(*  `alien` = a signature with an algorithm the library does not know.          *)
EXTENDS Naturals, FiniteSets

CONSTANTS Entities, Keys, Payloads

\* key k signs under key id "ed25519:<k>"; slots are indexed by the key itself
NoSlot == [present |-> FALSE, key |-> CHOOSE k \in Keys : TRUE, msg |-> CHOOSE p \in Payloads : TRUE, intact |-> TRUE]
Sig(k, msg) == [present |-> TRUE, key |-> k, msg |-> msg, intact |-> TRUE]
EmptyEntity == [kind |-> "absent", slots |-> [k \in Keys |-> NoSlot], alien |-> FALSE]
NoSigs == [kind |-> "absent", m |-> [e \in Entities |-> EmptyEntity]]

\* ---- sign_json(entity, key pair)
SignFails(obj, e) == obj.sigs.kind = "bad" \/ (obj.sigs.kind = "map" /\ obj.sigs.m[e].kind = "bad")
SignResult(obj, e, k) ==
  IF SignFails(obj, e) THEN [res |-> "err", obj |-> obj]               \* an error leaves the object as it was
  ELSE LET ent == IF obj.sigs.m[e].kind = "map" THEN obj.sigs.m[e] ELSE [EmptyEntity EXCEPT !.kind = "map"]
           ent2 == [ent EXCEPT !.slots[k] = Sig(k, obj.payload)]
       IN [res |-> "ok", obj |-> [obj EXCEPT !.sigs = [kind |-> "map", m |-> [obj.sigs.m EXCEPT ![e] = ent2]]]]

\* ---- verify_json(keys): keys[e][k] \in Keys \cup {"missing"} is the public key supplied for entity e, key id of k
Valid(slot, pub, payload) == slot.present /\ slot.intact /\ pub = slot.key /\ slot.msg = payload
Named(obj) == {e \in Entities : obj.sigs.m[e].kind # "absent"}
EntityHasValid(obj, keys, e) ==
  obj.sigs.m[e].kind = "map" /\ \E k \in Keys : keys[e][k] # "missing" /\ Valid(obj.sigs.m[e].slots[k], keys[e][k], obj.payload)
\* a present signature whose key is supplied but which does not verify: tampered content, signature or key
SomeInvalid(obj, keys, e) ==
  obj.sigs.m[e].kind = "map" /\ \E k \in Keys : /\ obj.sigs.m[e].slots[k].present /\ keys[e][k] # "missing"
                                                 /\ ~Valid(obj.sigs.m[e].slots[k], keys[e][k], obj.payload)
AllPresentValid(obj, keys, e) ==
  obj.sigs.m[e].kind = "map" /\ \A k \in Keys : obj.sigs.m[e].slots[k].present =>
                                                 (keys[e][k] # "missing" /\ Valid(obj.sigs.m[e].slots[k], keys[e][k], obj.payload))
VerifyOutcomes(obj, keys) ==
  IF obj.sigs.kind # "map" THEN {"err"}
  ELSE IF Named(obj) = {} THEN {"ok", "err"}                                   \* empty `signatures`: unspecified
  ELSE IF \E e \in Named(obj) : ~EntityHasValid(obj, keys, e) \/ SomeInvalid(obj, keys, e) THEN {"err"}
  ELSE IF \A e \in Named(obj) : AllPresentValid(obj, keys, e) THEN {"ok"}
  ELSE {"ok", "err"}                                                           \* an extra signature whose key was not supplied

(* ---- theorems (checked by TLC in every reachable state of MC_C02) ---- *)
AllRight == [e \in Entities |-> [k \in Keys |-> k]]
\* sign, then verify with the matching keys, when everything else on the object is valid: succeeds
SignThenVerify(obj, e, k) ==
  LET r == SignResult(obj, e, k) IN
  (r.res = "ok" /\ \A e2 \in Named(r.obj) : AllPresentValid(r.obj, AllRight, e2) /\ EntityHasValid(r.obj, AllRight, e2))
     => VerifyOutcomes(r.obj, AllRight) = {"ok"}
\* soundness: Ok is only possible if every named entity has a valid signature for the current content
Soundness(obj, keys) == "ok" \in VerifyOutcomes(obj, keys) => \A e \in Named(obj) : EntityHasValid(obj, keys, e)
\* earlier signatures and `unsigned` are kept by signing
KeepsOthers(obj, e, k) ==
  LET r == SignResult(obj, e, k) IN
  r.res = "ok" => /\ r.obj.unsigned = obj.unsigned /\ r.obj.payload = obj.payload
                  /\ \A e2 \in Entities, k2 \in Keys :
                        ((e2 # e \/ k2 # k) /\ obj.sigs.kind = "map" /\ obj.sigs.m[e2].kind = "map"
                                            /\ obj.sigs.m[e2].slots[k2].present) =>
                           r.obj.sigs.m[e2].slots[k2] = obj.sigs.m[e2].slots[k2]
\* `unsigned` never matters for verification
UnsignedIrrelevant(obj, keys, u) == VerifyOutcomes([obj EXCEPT !.unsigned = u], keys) = VerifyOutcomes(obj, keys)
=============================================================================

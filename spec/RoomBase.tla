------------------------------ MODULE RoomBase ------------------------------
(* The system model: one Matrix room replicated on several homeservers.        *)
(* Servers create events for their users on top of their current forward       *)
(* extremities (the state before an event is the resolution of the states      *)
(* after its prev_events, the event must pass the authorization rules against  *)
(* it, its auth_events are the selected entries of it) and pull each other's   *)
(* events in any order, so that forks, bans racing joins, power-level changes  *)
(* racing everything, events with and without a power-level ancestor and       *)
(* adversarial timestamps / event-id orders arise.                             *)
EXTENDS StateRes, TLC

CONSTANTS V,            \* room version
          Servers,      \* set of server names
          NewIds,       \* sequence of ids available for new events (in id order)
          TsPool,       \* timestamps a new event may carry
          MaxNew        \* number of events beyond the base room

R == RV(V)

S1 == "s1"
S2 == "s2"
UC == U("@c:s1", S1)    \* creator
UA == U("@a:s1", S1)
UB == U("@b:s2", S2)
Users == {UC, UA, UB}
UsersOf(s) == {u \in Users : u.server = s}

NoTpi == [present |-> FALSE, signed |-> FALSE, hasmxid |-> FALSE, hastoken |-> FALSE, mxid |-> NoUser, token |-> "", sigkey |-> ""]
EmptyPL == [users_default |-> AbsentV, events_default |-> AbsentV, state_default |-> AbsentV, ban |-> AbsentV,
            redact |-> AbsentV, kick |-> AbsentV, invite |-> AbsentV,
            users |-> <<>>, events |-> <<>>, notifications |-> <<>>, userkeysvalid |-> TRUE]
C0 == [membership |-> "absent", jauth |-> NoUser, tpi |-> NoTpi, hascreator |-> TRUE, creator |-> UC,
       federate |-> TRUE, join_rule |-> "absent", pl |-> EmptyPL, redactsserver |-> "", tag |-> 0,
       tpikeys |-> [top |-> "k8", list |-> {"k7"}]]

\* an event before it is placed in the DAG (id, prev, auth, ts filled in by Place)
Proto(type, sender, haskey, key, c) ==
  [id |-> "", type |-> type, sender |-> sender, haskey |-> haskey, key |-> key, keyisuser |-> FALSE,
   target |-> NoUser, targetvalid |-> TRUE, prev |-> {}, auth |-> {}, roomserver |-> S1,
   idserver |-> S1, c |-> c, ts |-> 0, chain |-> {}]
PCreate == Proto("m.room.create", UC, TRUE, "", C0)
PMember(sender, u, m) == [Proto("m.room.member", sender, TRUE, u.name, [C0 EXCEPT !.membership = m])
                            EXCEPT !.keyisuser = TRUE, !.target = u]
PJoinRules(sender, jr) == Proto("m.room.join_rules", sender, TRUE, "", [C0 EXCEPT !.join_rule = jr])
PPowerLevels(sender, pl) == Proto("m.room.power_levels", sender, TRUE, "", [C0 EXCEPT !.pl = pl])
PTopic(sender, n) == Proto("m.room.topic", sender, TRUE, "", [C0 EXCEPT !.tag = n])

Lv(f) == [u \in DOMAIN f |-> IntV(f[u])]
MkPL(users) == [EmptyPL EXCEPT !.users = Lv(users)]

(* ---- the replicated state ---- *)
\* w == [events : [id -> event], after : [id -> state], known : [Servers -> SUBSET ids]]
EmptyWorld == [events |-> <<>>, after |-> <<>>, known |-> [s \in Servers |-> {}]]

Heads(w, s) == {i \in w.known[s] : \A j \in w.known[s] : i \notin w.events[j].prev}
StateBefore(w, prev) == IF prev = {} THEN <<>> ELSE Resolve(w.events, {w.after[p] : p \in prev}, R)
AsEvents(w, st) == [k \in DOMAIN st |-> w.events[st[k]]]

\* the event a server would create from proto p on top of its current extremities
Placed(w, s, p, id, ts) ==
  LET prev == Heads(w, s)
      st == StateBefore(w, prev)
      sel == AuthTypes(p, R) \cap DOMAIN st
      auth == {st[k] : k \in sel}
  IN [p EXCEPT !.id = id, !.prev = prev, !.auth = auth, !.ts = ts,
               !.chain = auth \cup UNION {w.events[a].chain : a \in auth}]
PlacedOn(w, p, id, ts, prev) ==
  LET st == StateBefore(w, prev)
      auth == {st[k] : k \in AuthTypes(p, R) \cap DOMAIN st}
  IN [p EXCEPT !.id = id, !.prev = prev, !.auth = auth, !.ts = ts, !.chain = auth \cup UNION {w.events[a].chain : a \in auth}]
Allowed(w, s, e) == Auth(AsEvents(w, StateBefore(w, e.prev)), e, R)[1] = "allow"
Add(w, s, e) ==
  LET st == StateBefore(w, e.prev)
      k == K(e.type, e.key)
      st2 == IF e.haskey THEN [x \in (DOMAIN st) \cup {k} |-> IF x = k THEN e.id ELSE st[x]] ELSE st
  IN [events |-> w.events @@ (e.id :> e), after |-> w.after @@ (e.id :> st2),
      known |-> [w.known EXCEPT ![s] = @ \cup {e.id}]]
SyncAll(w) == [w EXCEPT !.known = [s \in Servers |-> UNION {w.known[t] : t \in Servers}]]

\* apply a list of <<server, proto, id, ts>> honestly, every server pulling everything after each step (base rooms)
RECURSIVE Build(_, _)
Build(w, steps) ==
  IF steps = <<>> THEN w
  ELSE LET st == Head(steps)
           e0 == Placed(w, st[1], st[2], st[3], st[4])
           \* an optional fifth component overrides prev_events (base rooms that already contain a fork)
           e == IF Len(st) = 5 THEN PlacedOn(w, st[2], st[3], st[4], st[5]) ELSE e0
       IN Build(SyncAll(Add(w, st[1], e)), Tail(steps))

\* what users of server s may try to do
PLContents == {MkPL((UC.name :> 100)), MkPL((UC.name :> 100) @@ (UA.name :> 50)), MkPL((UC.name :> 100) @@ (UA.name :> 100)),
               MkPL((UC.name :> 100) @@ (UA.name :> 50) @@ (UB.name :> 50))}
Protos(s) ==
  UNION {
    {PMember(u, u, "join"), PMember(u, u, "leave"), PTopic(u, 1), PTopic(u, 2), PJoinRules(u, "public"), PJoinRules(u, "invite")}
    \cup {PMember(u, t, m) : t \in Users \ {u}, m \in {"invite", "leave", "ban"}}
    \cup {PPowerLevels(u, pl) : pl \in PLContents}
    \* joins to a restricted room, authorised via another user (room versions 8+)
    \cup (IF R.restricted THEN {[PMember(u, u, "join") EXCEPT !.c.jauth = a] : a \in Users \ {u}} ELSE {})
  : u \in UsersOf(s)}
=============================================================================

------------------------------ MODULE StateRes ------------------------------
(* State resolution v2 exactly as written in the Matrix specification          *)
(* (server-server "Room state resolution", room version 2 page), over sets and *)
(* functions, with every intermediate result named.                            *)
(*                                                                             *)
(*  ev    : [event id -> event record of EventAuth.tla + ts : Nat]             *)
(*  state : [<<type, state_key>> -> event id]                                  *)
(* Event ids are strings; their order (for the final tie-break) is IdLess.     *)
(* Being set-based, Resolve is independent of any argument order by            *)
(* construction: it is the reference against which C06 is judged.              *)
EXTENDS EventAuth

CONSTANT IdLess(_, _)        \* strict total order on event ids (lexicographic order of the id strings)

Inf == 1000000               \* the mainline position "infinity"

SKey(ev, i) == K(ev[i].type, ev[i].key)

\* auth chain of an event: transitive closure of auth_events.  Every event record carries it in the field `chain`
\* (maintained as chain = auth \cup UNION of the auth events' chains when the event is created, see ChainOk).
Chain(ev, i) == ev[i].chain
ChainOk(ev) == \A i \in DOMAIN ev : ev[i].chain = ev[i].auth \cup UNION {ev[a].chain : a \in ev[i].auth}

StateKeys(S) == UNION {DOMAIN s : s \in S}
UKeys(S) == {k \in StateKeys(S) : \A s, t \in S : k \in DOMAIN s /\ k \in DOMAIN t /\ s[k] = t[k]}
Unconflicted(S) == [k \in UKeys(S) |-> (CHOOSE s \in S : TRUE)[k]]
ConflictedSet(S) == UNION {{s[k] : k \in (DOMAIN s) \ UKeys(S)} : s \in S}
FullChain(ev, s) == UNION {Chain(ev, s[k]) \cup {s[k]} : k \in DOMAIN s}
AuthDifference(ev, S) == {i \in UNION {FullChain(ev, s) : s \in S} : \E s \in S : i \notin FullChain(ev, s)}
FullConflicted(ev, S) == ConflictedSet(S) \cup AuthDifference(ev, S)

IsPowerEvent(ev, i) ==
  \/ ev[i].type \in {"m.room.power_levels", "m.room.join_rules"} /\ ev[i].haskey /\ ev[i].key = ""
  \/ /\ ev[i].type = "m.room.member" /\ ev[i].c.membership \in {"leave", "ban"}
     /\ ev[i].haskey /\ ev[i].sender.name # ev[i].key

PLEventsOf(ev, i) == {a \in ev[i].auth : ev[a].type = "m.room.power_levels"}
CreateOf(ev, i) == {a \in ev[i].auth : ev[a].type = "m.room.create"}
\* power level of the sender of i according to the power levels event in i's own auth events
SenderPower(ev, i, R) ==
  IF PLEventsOf(ev, i) # {}
  THEN LET pl == ev[CHOOSE a \in PLEventsOf(ev, i) : TRUE].c.pl IN
       IF ev[i].sender.name \in DOMAIN pl.users THEN pl.users[ev[i].sender.name].n
       ELSE IF pl.users_default.k # "absent" THEN pl.users_default.n ELSE 0
  ELSE IF CreateOf(ev, i) # {}
       THEN LET cr == ev[CHOOSE a \in CreateOf(ev, i) : TRUE] IN
            IF ev[i].sender = (IF R.createsender THEN cr.sender ELSE cr.c.creator) THEN 100 ELSE 0
       ELSE 0

\* reverse topological power ordering: x before y iff ...
PowerLess(ev, x, y, R) ==
  \/ SenderPower(ev, x, R) > SenderPower(ev, y, R)
  \/ SenderPower(ev, x, R) = SenderPower(ev, y, R) /\ ev[x].ts < ev[y].ts
  \/ SenderPower(ev, x, R) = SenderPower(ev, y, R) /\ ev[x].ts = ev[y].ts /\ IdLess(x, y)

RECURSIVE Kahn(_, _, _, _)
Kahn(ev, done, todo, R) ==
  IF todo = {} THEN done
  ELSE LET ready == {i \in todo : ev[i].auth \cap todo = {}}      \* DAG formed by the auth events inside the set
           m == CHOOSE i \in ready : \A j \in ready \ {i} : PowerLess(ev, i, j, R)
       IN Kahn(ev, Append(done, m), todo \ {m}, R)

PowerSet(ev, F) == LET P == {i \in F : IsPowerEvent(ev, i)} IN P \cup (UNION {Chain(ev, p) : p \in P} \cap F)
\* The text reads "the events from P's auth chain that are also in the full conflicted set".  The reference implementation
\* (Synapse) and ruma only follow auth_events edges between members of the full conflicted set, which leaves out a conflicted
\* event that P reaches only through unconflicted events (it is then sorted with the remaining events).  Both readings are
\* carried: conn = FALSE is the text, conn = TRUE the connected reading.
RECURSIVE ConnClosure(_, _, _)
ConnClosure(ev, X, F) == LET more == (UNION {ev[i].auth : i \in X}) \cap F IN
                         IF more \subseteq X THEN X ELSE ConnClosure(ev, X \cup more, F)
PowerSetConn(ev, F) == ConnClosure(ev, {i \in F : IsPowerEvent(ev, i)}, F)

\* state used to authorise e: for each key of the selection the partial state's event, else the one of e's own auth events
AuthStateFor(ev, e, st, R) ==
  LET own == [k \in {SKey(ev, a) : a \in e.auth} |-> CHOOSE a \in e.auth : SKey(ev, a) = k]
      sel == AuthTypes(e, R)
      ks == (DOMAIN own) \cup (sel \cap DOMAIN st)
  IN [k \in ks |-> ev[IF k \in sel /\ k \in DOMAIN st THEN st[k] ELSE own[k]]]

RECURSIVE IterAuth(_, _, _, _)
IterAuth(ev, list, st, R) ==
  IF list = <<>> THEN st
  ELSE LET i == Head(list)  e == ev[i]
           ok == Auth(AuthStateFor(ev, e, st, R), e, R)[1] = "allow"
           st2 == IF ok THEN [k \in (DOMAIN st) \cup {SKey(ev, i)} |-> IF k = SKey(ev, i) THEN i ELSE st[k]] ELSE st
       IN IterAuth(ev, Tail(list), st2, R)

NoPL == "none"
RECURSIVE Mainline(_, _)
Mainline(ev, p) == IF p = NoPL THEN <<>>
                   ELSE <<p>> \o Mainline(ev, IF PLEventsOf(ev, p) = {} THEN NoPL ELSE CHOOSE a \in PLEventsOf(ev, p) : TRUE)
\* mainline position of i: follow the power-levels auth events of i until one lies on the mainline; infinity if none.
\* noAncestor is the position given to events without a mainline ancestor (Inf in the specification).
RECURSIVE PosFrom(_, _, _, _)
PosFrom(ev, i, ml, noAncestor) ==
  IF PLEventsOf(ev, i) = {} THEN noAncestor
  ELSE LET a == CHOOSE a \in PLEventsOf(ev, i) : TRUE IN
       IF \E j \in 1..Len(ml) : ml[j] = a THEN (CHOOSE j \in 1..Len(ml) : ml[j] = a) - 1
       ELSE PosFrom(ev, a, ml, noAncestor)
MainlineLess(ev, x, y, ml, na) ==
  LET px == PosFrom(ev, x, ml, na)  py == PosFrom(ev, y, ml, na) IN
  \/ px > py \/ (px = py /\ ev[x].ts < ev[y].ts) \/ (px = py /\ ev[x].ts = ev[y].ts /\ IdLess(x, y))
RECURSIVE SortMainline(_, _, _, _, _)
SortMainline(ev, done, todo, ml, na) ==
  IF todo = {} THEN done
  ELSE LET m == CHOOSE i \in todo : \A j \in todo \ {i} : MainlineLess(ev, i, j, ml, na)
       IN SortMainline(ev, Append(done, m), todo \ {m}, ml, na)

\* all named intermediate results; na = Inf and conn = FALSE is the specification
ResolveDetailV(ev, S, R, na, conn) ==
  LET Un == Unconflicted(S)
      F == FullConflicted(ev, S)
      X == IF conn THEN PowerSetConn(ev, F) ELSE PowerSet(ev, F)
      order1 == Kahn(ev, <<>>, X, R)
      st1 == IterAuth(ev, order1, Un, R)
      P == IF K("m.room.power_levels", "") \in DOMAIN st1 THEN st1[K("m.room.power_levels", "")] ELSE NoPL
      ml == Mainline(ev, P)
      \* only state events can enter the state
      rest == {i \in F \ X : ev[i].haskey}
      order2 == SortMainline(ev, <<>>, rest, ml, IF na = Inf THEN Inf ELSE Len(ml) - 1)
      st2 == IterAuth(ev, order2, st1, R)
      final == [k \in (DOMAIN st2) \cup (DOMAIN Un) |-> IF k \in DOMAIN Un THEN Un[k] ELSE st2[k]]
  IN [conflicted |-> ConflictedSet(S) # {}, full |-> F, power |-> order1, rest |-> order2,
      resolved |-> IF ConflictedSet(S) = {} THEN Un ELSE final]

ResolveDetail(ev, S, R, na) == ResolveDetailV(ev, S, R, na, FALSE)
Resolve(ev, S, R) == ResolveDetail(ev, S, R, Inf).resolved
\* the variant that gives events without mainline ancestor the position of the oldest mainline event
ResolveOldest(ev, S, R) == ResolveDetail(ev, S, R, 0).resolved
=============================================================================

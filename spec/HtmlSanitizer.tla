--------------------------- MODULE HtmlSanitizer ---------------------------
(* Tree transformation of the Matrix HTML sanitiser (client-server             *)
(* m.room.message formatted_body; ruma_html::SanitizerConfig as documented).   *)
(*                                                                             *)
(* node == [k : {"el","text","other"}, name : STRING,                          *)
(*          attrs : set of [n : STRING (local name), v : Seq(code point), ns : BOOLEAN (in a namespace)],                  *)
(*          kids : Seq(node), text : Seq(code point)]                          *)
(* cfg  == [mode : {"none","strict","compat"}, noreply : BOOLEAN,              *)
(*          remove_el, ignore_el : set of names,                               *)
(*          allow_el : [kind, s], replace_el : [kind, m : [name -> name]],     *)
(*          allow_at : [kind, m : [el -> set]], remove_at : [el -> set],       *)
(*          replace_at : [kind, m : [el -> [attr -> attr]]],                   *)
(*          allow_sc : [kind, m : [el -> [attr -> set of scheme]]],            *)
(*          deny_sc : [el -> [attr -> set of scheme]],                         *)
(*          allow_cl : [kind, m : [el -> set of pattern]],                     *)
(*          remove_cl : [el -> set of pattern], max_depth : Int (-1 = unset)]  *)
(* kind \in {"unset", "add", "override"}: a list given with Add extends the    *)
(* mode's list, with Override replaces it.                                     *)
EXTENDS Integers, Sequences, FiniteSets, TLC

StrictElements == {"del", "h1", "h2", "h3", "h4", "h5", "h6", "blockquote", "p", "a", "ul", "ol", "sup", "sub",
                   "li", "b", "i", "u", "strong", "em", "s", "code", "hr", "br", "div", "table", "thead", "tbody",
                   "tr", "th", "td", "caption", "pre", "span", "img", "details", "summary", "mx-reply"}
StrictAttrs(el) ==
  CASE el = "span" -> {"data-mx-bg-color", "data-mx-color", "data-mx-spoiler", "data-mx-maths"}
    [] el = "a" -> {"target", "href"}
    [] el = "img" -> {"width", "height", "alt", "title", "src"}
    [] el = "ol" -> {"start"}
    [] el = "code" -> {"class"}
    [] el = "div" -> {"data-mx-maths"}
    [] OTHER -> {}
HTTP == <<104,116,116,112>>  HTTPS == <<104,116,116,112,115>>  FTP == <<102,116,112>>
MAILTO == <<109,97,105,108,116,111>>  MAGNET == <<109,97,103,110,101,116>>  MXC == <<109,120,99>>
MATRIX == <<109,97,116,114,105,120>>
StrictSchemes(el, at) == IF el = "a" /\ at = "href" THEN {HTTP, HTTPS, FTP, MAILTO, MAGNET}
                         ELSE IF el = "img" /\ at = "src" THEN {MXC} ELSE {}
CompatSchemes(el, at) == IF el = "a" /\ at = "href" THEN {MATRIX} ELSE {}
LANGDASH == <<108,97,110,103,117,97,103,101,45>>        \* "language-"
\* class patterns are [prefix : Seq(cp), star : BOOLEAN]  ("language-*" = prefix language-, star)
StrictClasses(el) == IF el = "code" THEN {[prefix |-> LANGDASH, star |-> TRUE]} ELSE {}
DeprecatedEl(name) == IF name = "font" THEN "span" ELSE IF name = "strike" THEN "s" ELSE name
DeprecatedAt(el, at) == IF el = "font" /\ at = "color" THEN "data-mx-color" ELSE at

UsesMode(cfg) == cfg.mode # "none"
Get(m, k, dflt) == IF k \in DOMAIN m THEN m[k] ELSE dflt

\* ---- effective lists
ElementAllowed(cfg, name) ==
  IF cfg.allow_el.kind = "unset" /\ ~UsesMode(cfg) THEN TRUE
  ELSE \/ (cfg.allow_el.kind # "unset" /\ name \in cfg.allow_el.s)
       \/ (cfg.allow_el.kind # "override" /\ UsesMode(cfg) /\ name \in StrictElements)
\* an element of foreign content (SVG, MathML: `foreign`) is not the HTML element of the same local name: under an element
\* allow list it is never allowed (it would be written back as that HTML element)
ElementAllowedN(cfg, n) ==
  ((cfg.allow_el.kind # "unset" \/ UsesMode(cfg)) => ~n.foreign) /\ ElementAllowed(cfg, n.name)
AttrWhitelisted(cfg) == cfg.allow_at.kind # "unset" \/ UsesMode(cfg)
AttrAllowed(cfg, el, at) ==
  \/ (cfg.allow_at.kind # "unset" /\ at \in Get(cfg.allow_at.m, el, {}))
  \/ (cfg.allow_at.kind # "override" /\ UsesMode(cfg) /\ at \in StrictAttrs(el))
SchemesChecked(cfg) == cfg.allow_sc.kind # "unset" \/ UsesMode(cfg)
\* the allowed schemes of (el, attr), and whether a list exists at all for it
SchemeList(cfg, el, at) ==
  (IF cfg.allow_sc.kind # "unset" THEN Get(Get(cfg.allow_sc.m, el, <<>>), at, {}) ELSE {})
  \cup (IF cfg.allow_sc.kind # "override" /\ UsesMode(cfg) THEN StrictSchemes(el, at) ELSE {})
  \cup (IF cfg.allow_sc.kind # "override" /\ cfg.mode = "compat" THEN CompatSchemes(el, at) ELSE {})
HasSchemeList(cfg, el, at) ==
  \/ (cfg.allow_sc.kind # "unset" /\ el \in DOMAIN cfg.allow_sc.m /\ at \in DOMAIN cfg.allow_sc.m[el])
  \/ (cfg.allow_sc.kind # "override" /\ UsesMode(cfg) /\ StrictSchemes(el, at) # {})
  \/ (cfg.allow_sc.kind # "override" /\ cfg.mode = "compat" /\ CompatSchemes(el, at) # {})
ClassWhitelisted(cfg) == cfg.allow_cl.kind # "unset" \/ UsesMode(cfg)
ClassPatterns(cfg, el) ==
  (IF cfg.allow_cl.kind # "unset" THEN Get(cfg.allow_cl.m, el, {}) ELSE {})
  \cup (IF cfg.allow_cl.kind # "override" /\ UsesMode(cfg) THEN StrictClasses(el) ELSE {})
MaxDepth(cfg) == IF cfg.max_depth >= 0 THEN cfg.max_depth ELSE IF UsesMode(cfg) THEN 100 ELSE -1

StartsWith(v, p) == Len(v) >= Len(p) /\ SubSeq(v, 1, Len(p)) = p
HasScheme(v, S) == \E s \in S : StartsWith(v, s \o <<58>>)      \* "scheme:"
MatchesPattern(tok, pat) == IF pat.star THEN StartsWith(tok, pat.prefix) ELSE tok = pat.prefix

IsWs(c) == c \in {9, 10, 12, 13, 32}
RECURSIVE Tokens(_, _)
Tokens(v, cur) == IF v = <<>> THEN (IF cur = <<>> THEN <<>> ELSE <<cur>>)
                  ELSE IF IsWs(Head(v)) THEN (IF cur = <<>> THEN <<>> ELSE <<cur>>) \o Tokens(Tail(v), <<>>)
                  ELSE Tokens(Tail(v), Append(cur, Head(v)))
RECURSIVE JoinSp(_)
JoinSp(ts) == IF ts = <<>> THEN <<>> ELSE IF Len(ts) = 1 THEN ts[1] ELSE ts[1] \o <<32>> \o JoinSp(Tail(ts))
ClassOk(cfg, el, tok) ==
  /\ ~\E p \in Get(cfg.remove_cl, el, {}) : MatchesPattern(tok, p)
  /\ (ClassWhitelisted(cfg) => \E p \in ClassPatterns(cfg, el) : MatchesPattern(tok, p))

\* ---- replacements (applied to the node before anything else)
Replace(node, cfg) ==
  LET atmap == IF cfg.replace_at.kind # "unset" THEN Get(cfg.replace_at.m, node.name, <<>>) ELSE <<>>
      newAt(a) == IF a \in DOMAIN atmap THEN atmap[a]
                  ELSE IF cfg.replace_at.kind # "override" /\ UsesMode(cfg) THEN DeprecatedAt(node.name, a) ELSE a
      nm == IF cfg.replace_el.kind # "unset" /\ node.name \in DOMAIN cfg.replace_el.m THEN cfg.replace_el.m[node.name]
            ELSE IF cfg.replace_el.kind # "override" /\ UsesMode(cfg) THEN DeprecatedEl(node.name) ELSE node.name
      \* an attribute is not renamed onto a name the element already carries (an element has one attribute of a name):
      \* the deprecated spelling then simply goes
      clash(a) == newAt(a.n) # a.n /\ \E b \in node.attrs : b.n = newAt(a.n)
  IN [node EXCEPT !.name = nm, !.attrs = {[n |-> newAt(a.n), v |-> a.v, ns |-> a.ns] : a \in {x \in node.attrs : ~clash(x)}}]

\* ---- what happens to an element
Action(n, depth, cfg) ==
  IF n.name \in cfg.remove_el THEN "remove"
  ELSE IF cfg.noreply /\ n.name = "mx-reply" THEN "remove"
  ELSE IF MaxDepth(cfg) >= 0 /\ depth >= MaxDepth(cfg) THEN "remove"
  ELSE IF n.name \in cfg.ignore_el THEN "ignore"
  ELSE IF ~ElementAllowedN(cfg, n) THEN "ignore"
  ELSE IF \E a \in n.attrs : HasScheme(a.v, Get(Get(cfg.deny_sc, n.name, <<>>), a.n, {})) THEN "ignore"
  ELSE IF SchemesChecked(cfg) /\ \E a \in n.attrs : HasSchemeList(cfg, n.name, a.n) /\ ~HasScheme(a.v, SchemeList(cfg, n.name, a.n)) THEN "ignore"
  ELSE "keep"

CleanAttrs(n, cfg) ==
  LET keep == {a \in n.attrs : /\ a.n \notin Get(cfg.remove_at, n.name, {})
                               \* an attribute in a namespace (xlink:href in foreign content) is never the allowed attribute of
                               \* the same local name: it is written back with its prefix
                               /\ (AttrWhitelisted(cfg) => (~a.ns /\ AttrAllowed(cfg, n.name, a.n)))}
      fix(a) == IF a.n # "class" THEN {a}
                ELSE LET ts == Tokens(a.v, <<>>)
                         ok == SelectSeq(ts, LAMBDA t : ClassOk(cfg, n.name, t))
                     IN IF Len(ok) = Len(ts) THEN {a}
                        ELSE IF ok = <<>> THEN {} ELSE {[n |-> "class", v |-> JoinSp(ok), ns |-> a.ns]}
  IN UNION {fix(a) : a \in keep}

RECURSIVE CleanNode(_, _, _)
RECURSIVE CleanSeq(_, _, _)
CleanSeq(kids, depth, cfg) == IF kids = <<>> THEN <<>> ELSE CleanNode(Head(kids), depth, cfg) \o CleanSeq(Tail(kids), depth, cfg)
CleanNode(node, depth, cfg) ==
  IF node.k = "text" THEN <<node>>
  ELSE IF node.k = "other" THEN <<>>
  ELSE LET n1 == Replace(node, cfg)  act == Action(n1, depth, cfg) IN
       IF act = "remove" THEN <<>>
       ELSE LET kids == CleanSeq(n1.kids, depth + 1, cfg) IN
            IF act = "ignore" THEN kids
            ELSE <<[n1 EXCEPT !.kids = kids, !.attrs = CleanAttrs(n1, cfg)]>>
Clean(roots, cfg) == CleanSeq(roots, 0, cfg)

(* ---- safety of a forest as seen by an HTML parser: what C14 promises about the output ---- *)
RECURSIVE SafeNode(_, _, _)
SafeNode(n, depth, cfg) ==
  IF n.k = "text" THEN TRUE
  ELSE IF n.k = "other" THEN FALSE
  ELSE /\ ElementAllowedN(cfg, n) /\ n.name \notin cfg.remove_el /\ n.name \notin cfg.ignore_el
       /\ ~(cfg.noreply /\ n.name = "mx-reply")
       /\ (MaxDepth(cfg) >= 0 => depth < MaxDepth(cfg))
       /\ \A a \in n.attrs :
            /\ a.n \notin Get(cfg.remove_at, n.name, {})
            /\ (AttrWhitelisted(cfg) => (~a.ns /\ AttrAllowed(cfg, n.name, a.n)))
            /\ ~HasScheme(a.v, Get(Get(cfg.deny_sc, n.name, <<>>), a.n, {}))
            /\ ((SchemesChecked(cfg) /\ HasSchemeList(cfg, n.name, a.n)) => HasScheme(a.v, SchemeList(cfg, n.name, a.n)))
            /\ (a.n = "class" => \A i \in 1..Len(Tokens(a.v, <<>>)) : ClassOk(cfg, n.name, Tokens(a.v, <<>>)[i]))
       /\ \A i \in 1..Len(n.kids) : SafeNode(n.kids[i], depth + 1, cfg)
Safe(roots, cfg) == \A i \in 1..Len(roots) : SafeNode(roots[i], 0, cfg)

\* text content in document order (kept through "ignore", dropped with removed subtrees)
RECURSIVE TextOf(_)
RECURSIVE TextOfSeq(_)
TextOfSeq(kids) == IF kids = <<>> THEN <<>> ELSE TextOf(Head(kids)) \o TextOfSeq(Tail(kids))
TextOf(n) == IF n.k = "text" THEN n.text ELSE IF n.k = "other" THEN <<>> ELSE TextOfSeq(n.kids)

\* no deprecated element or attribute (they are rewritten, so a document containing them is not a fixpoint)
RECURSIVE NoDeprecated(_)
NoDeprecated(roots) == \A i \in 1..Len(roots) :
   roots[i].k # "el" \/ (/\ roots[i].name \notin {"font", "strike"} /\ NoDeprecated(roots[i].kids))
=============================================================================

----------------------------- MODULE Federation -----------------------------
(* The system model one level above Room.tla: homeservers exchange signed PDUs *)
(* of one room and each applies the checks the server-server specification     *)
(* prescribes on receipt ("Checks performed upon receipt of a PDU"):           *)
(*                                                                             *)
(*   1-2. signature checks fail            -> the PDU is dropped               *)
(*   3.   content hash does not match      -> the PDU is redacted, then        *)
(*                                            processed further                *)
(*   4.   authorization by its auth events -> otherwise rejected               *)
(*   5.   authorization by the state before the event -> otherwise rejected    *)
(*   6.   authorization by the current state of the room -> otherwise          *)
(*        soft-failed                                                          *)
(*                                                                             *)
(* A PDU may be altered in flight (Tampers).  What a change does follows from  *)
(* what the signature and the hashes cover (EventSigning.tla): unsigned is     *)
(* covered by nothing; a key that redaction strips is covered by the content   *)
(* hash only; everything redaction keeps (and the hash itself) is covered by   *)
(* the signature.  A server therefore stores an event either in full or in its *)
(* redacted form, and every later check of that server reads the form it       *)
(* stored.  The event ID is the same in both forms.                            *)
(*                                                                             *)
(* The room itself (event creation on the forward extremities, authorization,  *)
(* state resolution) is Room.tla / StateRes.tla / EventAuth.tla, instantiated  *)
(* with each server's own view of the events.                                  *)
EXTENDS RoomBase

CONSTANTS Tampers,      \* subset of {"none", "unsigned", "unprotected", "protected", "nosig"}
          MaxDeliver,   \* bound on the number of deliveries explored
          Byzantine     \* servers that sign and send events their own state does not authorise

(* ---- the redacted form of an event, on the typed contents of EventAuth.tla; the keys kept are those of Redaction.tla ---- *)
RedactPL(p) == [p EXCEPT !.invite = IF R.keep_pl_invite THEN @ ELSE AbsentV, !.notifications = <<>>]
RedactC(type, c) ==
  CASE type = "m.room.member" -> [c EXCEPT !.jauth = IF R.keep_jauth THEN @ ELSE NoUser,
                                           !.tpi = IF R.keep_tpi_signed THEN @ ELSE NoTpi]
    [] type = "m.room.create" -> IF R.keep_create_all THEN c ELSE [c EXCEPT !.federate = TRUE]
    [] type = "m.room.join_rules" -> c
    [] type = "m.room.power_levels" -> [c EXCEPT !.pl = RedactPL(@)]
    [] OTHER -> [c EXCEPT !.tag = 0]
RedactTyped(e) == [e EXCEPT !.c = RedactC(e.type, e.c)]

Forms == {"full", "redacted"}

VARIABLES registry,   \* [event id -> event as created (full form)]
          view,       \* [server -> [event id -> form]] the events each server has accepted, and in which form
          afterAt,    \* [server -> [event id -> state after the event, as that server computed it]]
          soft,       \* [server -> set of event ids] soft-failed events (stored, never part of the server's state)
          last,       \* the last receipt: [to, id, tamper, result, form] (observation only)
          ncreate, ndeliver
fvars == <<registry, view, afterAt, soft, last, ncreate, ndeliver>>

As(s, i) == IF view[s][i] = "redacted" THEN RedactTyped(registry[i]) ELSE registry[i]
\* the world of Room.tla as server s sees it
W(s) == [events |-> [i \in DOMAIN view[s] |-> As(s, i)], after |-> afterAt[s], known |-> [t \in Servers |-> DOMAIN view[s]]]

NoReceipt == [to |-> "", id |-> "", tamper |-> "none", result |-> "none", form |-> "full"]

\* every server starts with the base room, in full
FedInit(base) ==
  /\ registry = base.events
  /\ view = [s \in Servers |-> [i \in DOMAIN base.events |-> "full"]]
  /\ afterAt = [s \in Servers |-> base.after]
  /\ soft = [s \in Servers |-> {}]
  /\ last = NoReceipt
  /\ ncreate = 0 /\ ndeliver = 0

UsedIdsF == DOMAIN registry
FreeNewF == {i \in 1..Len(NewIds) : NewIds[i] \notin UsedIdsF}
NextId == NewIds[CHOOSE i \in FreeNewF : \A j \in FreeNewF : i <= j]

StateWith(st, e) == IF e.haskey THEN [x \in (DOMAIN st) \cup {K(e.type, e.key)} |-> IF x = K(e.type, e.key) THEN e.id ELSE st[x]] ELSE st

\* server s creates an event for one of its users on top of what it has accepted
FedCreate(s, p, ts) ==
  /\ ncreate < MaxNew /\ FreeNewF # {}
  /\ LET w == W(s)
         prev == Heads(w, s)
         st == StateBefore(w, prev)
         stE == AsEvents(w, st)
         auth == {st[x] : x \in AuthTypes(p, R) \cap DOMAIN st}
         e == [p EXCEPT !.id = NextId, !.prev = prev, !.auth = auth, !.ts = ts,
                        !.chain = auth \cup UNION {registry[a].chain : a \in auth}]
         k == K(e.type, e.key)
     IN /\ (s \notin Byzantine => Auth(stE, e, R)[1] = "allow")
        /\ ((k \in DOMAIN st) => (stE[k].c # e.c \/ stE[k].sender # e.sender))
        /\ registry' = registry @@ (e.id :> e)
        /\ view' = [view EXCEPT ![s] = @ @@ (e.id :> "full")]
        /\ afterAt' = [afterAt EXCEPT ![s] = @ @@ (e.id :> StateWith(st, e))]
  /\ ncreate' = ncreate + 1
  /\ UNCHANGED <<soft, ndeliver>>
  /\ last' = NoReceipt

\* the checks of server t on receiving event i altered by tamper; the record it returns is what the implementation must compute
OwnAuthState(w, e) == [k \in {SKey(w.events, a) : a \in e.auth} |-> w.events[CHOOSE a \in e.auth : SKey(w.events, a) = k]]
Receipt(t, i, tamper) ==
  LET w == W(t)
      sigok == tamper \notin {"protected", "nosig"}
      form == IF tamper = "unprotected" THEN "redacted" ELSE "full"
      e == IF form = "redacted" THEN RedactTyped(registry[i]) ELSE registry[i]
      before == StateBefore(w, e.prev)
      cur == StateBefore(w, Heads(w, t))
      byAuth == Auth(OwnAuthState(w, e), e, R)[1]
      byBefore == Auth(AsEvents(w, before), e, R)[1]
      byCur == Auth(AsEvents(w, cur), e, R)[1]
      result == IF ~sigok THEN "dropped"
                ELSE IF byAuth # "allow" THEN "rejected_by_auth_events"
                ELSE IF byBefore # "allow" THEN "rejected_by_state_before"
                ELSE IF byCur # "allow" THEN "soft_failed" ELSE "accepted"
  IN [to |-> t, id |-> i, tamper |-> tamper, result |-> result, form |-> form, before |-> before, current |-> cur,
      after |-> StateWith(before, e), byAuth |-> byAuth, byBefore |-> byBefore, byCur |-> byCur]

Deliverable(t, i) == /\ i \in DOMAIN registry /\ i \notin DOMAIN view[t] /\ i \notin soft[t]
                     /\ registry[i].prev \subseteq DOMAIN view[t] /\ registry[i].auth \subseteq DOMAIN view[t]

Deliver(t, i, tamper) ==
  /\ ndeliver < MaxDeliver
  /\ Deliverable(t, i)
  /\ LET r == Receipt(t, i, tamper) IN
     /\ last' = [to |-> t, id |-> i, tamper |-> tamper, result |-> r.result, form |-> r.form]
     /\ IF r.result = "accepted"
        THEN /\ view' = [view EXCEPT ![t] = @ @@ (i :> r.form)]
             /\ afterAt' = [afterAt EXCEPT ![t] = @ @@ (i :> r.after)]
             /\ soft' = soft
        ELSE /\ UNCHANGED <<view, afterAt>>
             /\ soft' = IF r.result = "soft_failed" THEN [soft EXCEPT ![t] = @ \cup {i}] ELSE soft
  /\ ndeliver' = ndeliver + 1
  /\ UNCHANGED <<registry, ncreate>>

FedNext ==
  \/ \E s \in Servers : \E p \in Protos(s), ts \in TsPool : FedCreate(s, p, ts)
  \/ \E t \in Servers : \E i \in DOMAIN registry : \E tamper \in Tampers : Deliver(t, i, tamper)

(* ---- properties of the design ---- *)
\* a server only ever holds events of the registry, in one of the two forms, and knows the ancestors of what it holds
ViewsClosed == \A s \in Servers : \A i \in DOMAIN view[s] :
  /\ i \in DOMAIN registry /\ view[s][i] \in Forms
  /\ registry[i].prev \subseteq DOMAIN view[s] /\ registry[i].auth \subseteq DOMAIN view[s]
\* redacting is idempotent and does not touch what the authorization rules identify an event by
RedactTypedOk == \A i \in DOMAIN registry : LET e == registry[i]  r == RedactTyped(e) IN
  /\ RedactTyped(r) = r
  /\ r.id = e.id /\ r.type = e.type /\ r.sender = e.sender /\ r.key = e.key /\ r.prev = e.prev /\ r.auth = e.auth
  /\ (e.type = "m.room.member" => r.c.membership = e.c.membership)
  /\ (e.type = "m.room.join_rules" => r.c.join_rule = e.c.join_rule)
\* an altered PDU is either dropped or accepted in redacted form; an unaltered one is never dropped
TamperEffect == LET r == last IN
  /\ (r.tamper \in {"protected", "nosig"} => r.result = "dropped")
  /\ (r.tamper \in {"none", "unsigned"} => r.result # "dropped" /\ r.form = "full")
  /\ (r.tamper = "unprotected" => r.form = "redacted")
\* servers holding the same events in the same forms computed the same state after each of them
SameViewSameState == \A s, t \in Servers :
  (DOMAIN view[s] = DOMAIN view[t] /\ \A j \in DOMAIN view[s] : view[s][j] = view[t][j]) => afterAt[s] = afterAt[t]
\* when nothing is altered in flight every server holds everything in full, and an event its creator's server authorised is
\* never rejected by the first two authorization checks of a server that holds the same ancestors
HonestNeverRejected == (Byzantine = {} /\ Tampers \subseteq {"none", "unsigned", "protected", "nosig"}) =>
  /\ \A s \in Servers : \A i \in DOMAIN view[s] : view[s][i] = "full"
  /\ last.result \notin {"rejected_by_auth_events", "rejected_by_state_before"}
=============================================================================

----------------------------- MODULE StringEnum -----------------------------
(* String-valued protocol enums: the laws every such enum obeys, and the       *)
(* spellings the Matrix specification defines for the core enums.              *)
(*                                                                             *)
(* An observation of one conversion is                                         *)
(*   [enum, s, out, custom, display, ser, de, idem, fromstring]                *)
(* s : input string, out : string form of the converted value, custom : the    *)
(* value is the catch-all variant.                                             *)
EXTENDS Integers, Sequences, FiniteSets

\* spellings defined by the Matrix specification (client-server / server-server API), per enum
MatrixSpellings ==
  [ MembershipState |-> {"join", "invite", "leave", "ban", "knock"},
    JoinRule |-> {"public", "invite", "knock", "private", "restricted", "knock_restricted"},
    HistoryVisibility |-> {"invited", "joined", "shared", "world_readable"},
    GuestAccess |-> {"can_join", "forbidden"},
    MessageType |-> {"m.text", "m.emote", "m.notice", "m.image", "m.file", "m.audio", "m.video", "m.location", "m.server_notice",
                     "m.key.verification.request"},
    PresenceState |-> {"online", "offline", "unavailable"},
    RuleKind |-> {"override", "underride", "sender", "room", "content"},
    PushFormat |-> {"event_id_only"},
    RoomType |-> {"m.space"},
    Visibility |-> {"public", "private"},
    EventEncryptionAlgorithm |-> {"m.olm.v1.curve25519-aes-sha2", "m.megolm.v1.aes-sha2"},
    SigningKeyAlgorithm |-> {"ed25519"},
    DeviceKeyAlgorithm |-> {"ed25519", "curve25519"},
    OneTimeKeyAlgorithm |-> {"signed_curve25519"},
    ReceiptType |-> {"m.read", "m.read.private"},
    TagName |-> {"m.favourite", "m.lowpriority", "m.server_notice"},
    RelationType |-> {"m.annotation", "m.replace", "m.thread", "m.reference"},
    Medium |-> {"email", "msisdn"},
    StateEventType |-> {"m.room.create", "m.room.member", "m.room.power_levels", "m.room.join_rules", "m.room.name", "m.room.topic",
                        "m.room.avatar", "m.room.canonical_alias", "m.room.aliases", "m.room.history_visibility", "m.room.guest_access",
                        "m.room.encryption", "m.room.pinned_events", "m.room.server_acl", "m.room.third_party_invite", "m.room.tombstone",
                        "m.space.child", "m.space.parent"},
    MessageLikeEventType |-> {"m.room.message", "m.room.encrypted", "m.room.redaction", "m.reaction", "m.sticker", "m.call.invite",
                              "m.call.answer", "m.call.candidates", "m.call.hangup", "m.call.select_answer", "m.call.reject",
                              "m.call.negotiate", "m.key.verification.start", "m.key.verification.accept", "m.key.verification.key",
                              "m.key.verification.mac", "m.key.verification.cancel", "m.key.verification.done", "m.key.verification.ready"},
    TimelineEventType |-> {"m.room.create", "m.room.member", "m.room.power_levels", "m.room.message", "m.room.redaction", "m.reaction",
                           "m.room.topic", "m.room.join_rules", "m.room.third_party_invite", "m.room.aliases", "m.sticker"},
    GlobalAccountDataEventType |-> {"m.direct", "m.ignored_user_list", "m.push_rules", "m.secret_storage.default_key", "m.identity_server"},
    RoomAccountDataEventType |-> {"m.fully_read", "m.tag", "m.marked_unread"},
    EphemeralRoomEventType |-> {"m.typing", "m.receipt"},
    ToDeviceEventType |-> {"m.room_key", "m.room_key_request", "m.forwarded_room_key", "m.room.encrypted", "m.dummy", "m.secret.request",
                           "m.secret.send", "m.key.verification.request", "m.key.verification.start", "m.key.verification.cancel"},
    CancelCode |-> {"m.user", "m.timeout", "m.unknown_transaction", "m.unknown_method", "m.unexpected_message", "m.key_mismatch",
                    "m.user_mismatch", "m.invalid_message", "m.accepted"},
    RoomVersionId |-> {"1", "2", "3", "4", "5", "6", "7", "8", "9", "10", "11"},
    \* error codes of the client-server API ("Standard error response" and the endpoint-specific codes)
    ErrorCode |-> {"M_FORBIDDEN", "M_UNKNOWN_TOKEN", "M_MISSING_TOKEN", "M_BAD_JSON", "M_NOT_JSON", "M_NOT_FOUND", "M_LIMIT_EXCEEDED",
                   "M_UNRECOGNIZED", "M_UNKNOWN", "M_UNAUTHORIZED", "M_USER_DEACTIVATED", "M_USER_IN_USE", "M_INVALID_USERNAME",
                   "M_ROOM_IN_USE", "M_INVALID_ROOM_STATE", "M_THREEPID_IN_USE", "M_THREEPID_NOT_FOUND", "M_THREEPID_AUTH_FAILED",
                   "M_THREEPID_DENIED", "M_SERVER_NOT_TRUSTED", "M_UNSUPPORTED_ROOM_VERSION", "M_INCOMPATIBLE_ROOM_VERSION",
                   "M_BAD_STATE", "M_GUEST_ACCESS_FORBIDDEN", "M_CAPTCHA_NEEDED", "M_CAPTCHA_INVALID", "M_MISSING_PARAM",
                   "M_INVALID_PARAM", "M_TOO_LARGE", "M_EXCLUSIVE", "M_RESOURCE_LIMIT_EXCEEDED", "M_CANNOT_LEAVE_SERVER_NOTICE_ROOM",
                   "M_WEAK_PASSWORD", "M_UNABLE_TO_AUTHORISE_JOIN", "M_UNABLE_TO_GRANT_JOIN", "M_BAD_ALIAS", "M_DUPLICATE_ANNOTATION",
                   "M_NOT_YET_UPLOADED", "M_CANNOT_OVERWRITE_MEDIA", "M_WRONG_ROOM_KEYS_VERSION", "M_URL_NOT_SET", "M_BAD_STATUS",
                   "M_CONNECTION_FAILED", "M_CONNECTION_TIMEOUT", "M_THREEPID_MEDIUM_NOT_SUPPORTED"},
    \* key verification framework, SAS
    VerificationMethod |-> {"m.sas.v1", "m.qr_code.scan.v1", "m.qr_code.show.v1", "m.reciprocate.v1"},
    KeyAgreementProtocol |-> {"curve25519", "curve25519-hkdf-sha256"},
    HashAlgorithm |-> {"sha256"},
    MessageAuthenticationCode |-> {"hkdf-hmac-sha256", "hkdf-hmac-sha256.v2"},
    ShortAuthenticationString |-> {"decimal", "emoji"},
    \* predefined push rules ("Predefined Rules")
    PredefinedOverrideRuleId |-> {".m.rule.master", ".m.rule.suppress_notices", ".m.rule.invite_for_me", ".m.rule.member_event",
                                  ".m.rule.is_user_mention", ".m.rule.contains_display_name", ".m.rule.is_room_mention",
                                  ".m.rule.roomnotif", ".m.rule.tombstone", ".m.rule.reaction", ".m.rule.room.server_acl",
                                  ".m.rule.suppress_edits"},
    PredefinedContentRuleId |-> {".m.rule.contains_user_name"},
    PredefinedUnderrideRuleId |-> {".m.rule.call", ".m.rule.encrypted_room_one_to_one", ".m.rule.room_one_to_one", ".m.rule.message",
                                   ".m.rule.encrypted"},
    \* VoIP
    StreamPurpose |-> {"m.usermedia", "m.screenshare"},
    HangupReason |-> {"ice_failed", "invite_timeout", "ice_timeout", "user_hangup", "user_media_failed", "user_busy", "unknown_error"},
    \* cross-signing, secrets, key requests
    KeyUsage |-> {"master", "self_signing", "user_signing"},
    SecretName |-> {"m.cross_signing.master", "m.cross_signing.user_signing", "m.cross_signing.self_signing", "m.megolm_backup.v1"},
    KeyDerivationAlgorithm |-> {"m.pbkdf2"},
    KeyRequestAction |-> {"request", "request_cancellation"},
    \* assorted
    TokenType |-> {"Bearer"},
    PublicRoomJoinRule |-> {"public", "knock"},
    SpaceRoomJoinRule |-> {"public", "invite", "knock", "private", "restricted", "knock_restricted"},
    StateResJoinRule |-> {"public", "invite", "knock", "restricted", "knock_restricted"},
    ThumbnailMethod |-> {"crop", "scale"},
    MessageFormat |-> {"org.matrix.custom.html"},
    ServerNoticeType |-> {"m.server_notice.usage_limit_reached"},
    LimitType |-> {"monthly_active_user"},
    Recommendation |-> {"m.ban"},
    \* enums of the API crates
    EventFormat |-> {"client", "federation"},
    RoomPreset |-> {"private_chat", "public_chat", "trusted_private_chat"},
    ThirdPartyIdRemovalStatus |-> {"success", "no-support"},
    ContactRole |-> {"m.role.admin", "m.role.security"},
    RoomVersionStability |-> {"stable", "unstable"},
    MembershipEventFilter |-> {"join", "invite", "leave", "ban", "knock"},
    GroupingKey |-> {"room_id", "sender"},
    SearchKeys |-> {"content.body", "content.name", "content.topic"},
    OrderBy |-> {"recent", "rank"},
    AuthType |-> {"m.login.password", "m.login.recaptcha", "m.login.email.identity", "m.login.msisdn", "m.login.sso", "m.login.dummy",
                  "m.login.registration_token", "m.login.terms"},
    IncludeThreads |-> {"all", "participated"},
    FailureErrorCode |-> {"M_INVALID_SIGNATURE"},
    ApiReceiptType |-> {"m.read", "m.read.private", "m.fully_read"},
    ProfileField |-> {"displayname", "avatar_url"},
    NotificationPriority |-> {"high", "low"},
    IdentifierHashingAlgorithm |-> {"sha256", "none"} ]

\* aliases whose canonical spelling is documented (the unstable name of a since-stabilised identifier)
KnownAliases ==
  [ MessageLikeEventType |-> [x \in {"org.matrix.call.sdp_stream_metadata_changed"} |-> "m.call.sdp_stream_metadata_changed"],
    TimelineEventType |-> [x \in {"org.matrix.call.sdp_stream_metadata_changed"} |-> "m.call.sdp_stream_metadata_changed"] ]
TableEnums == DOMAIN MatrixSpellings

\* ---- laws (r is one observation; aliases is the set of declared alias spellings)
Lossless(r, aliases) == r.s \notin aliases => r.out = r.s          \* never reject or alter an unknown value
AliasLaw(r, aliases) == (r.s \in aliases /\ r.out # r.s) => ~r.custom   \* an alias maps to a declared (non catch-all) variant
SpecifiedSpelling(r) == (r.enum \in TableEnums /\ r.s \in MatrixSpellings[r.enum]) => (~r.custom /\ r.out = r.s)
\* "a declared alias maps to its canonical spelling"
AliasTarget(r) == (r.enum \in DOMAIN KnownAliases /\ r.s \in DOMAIN KnownAliases[r.enum]) => (~r.custom /\ r.out = KnownAliases[r.enum][r.s])
Idempotent(r) == r.idem                                            \* converting the result again changes nothing
SerdeAgrees(r) == r.display = r.out /\ r.ser = r.out /\ r.de = r.out /\ r.fromstring = r.out
Laws(r, aliases) == Lossless(r, aliases) /\ AliasLaw(r, aliases) /\ AliasTarget(r) /\ SpecifiedSpelling(r) /\ Idempotent(r) /\ SerdeAgrees(r)

\* ---- ordering / equality of two converted values agree with their string forms
\* p == [enum, a, b, eq, lt, cmp]: cmp \in {-1, 0, 1} from Ord::cmp, lt from PartialOrd
Sign(x, y, less) == IF x = y THEN 0 ELSE IF less THEN -1 ELSE 1
PairLaw(p) == (p.eq <=> p.a = p.b) /\ (p.cmp = Sign(p.a, p.b, p.strless)) /\ (p.lt <=> p.strless) /\ (p.partial = p.cmp)
=============================================================================

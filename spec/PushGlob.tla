----------------------------- MODULE PushGlob -----------------------------
(* Glob matching of push conditions (client-server "Push rules": conditions). *)
(* Strings are sequences of code points.  '*' = any run (possibly empty),     *)
(* '?' = exactly one character, comparison is case-insensitive.               *)
(* Whole-value matching: the glob must match the entire value.                *)
(* Word matching (content.body, display names): the glob must match a         *)
(* substring delimited on both sides by a word boundary (start / end of the   *)
(* value, or a character outside [A-Za-z0-9_]).  The text does not say        *)
(* whether a non-word character INSIDE the match may serve as its own         *)
(* boundary, so the verdict is three-valued.                                  *)
EXTENDS Naturals, Sequences, FiniteSets

Star == 42
Quest == 63
IsWordChar(c) == (c >= 48 /\ c <= 57) \/ (c >= 65 /\ c <= 90) \/ (c >= 97 /\ c <= 122) \/ c = 95
\* simple case folding: ASCII and Latin-1 letters used by the models (the property only needs ASCII)
Fold(c) == IF c >= 65 /\ c <= 90 THEN c + 32 ELSE IF c >= 192 /\ c <= 222 /\ c # 215 THEN c + 32 ELSE c

RECURSIVE Glob(_, _)
Glob(p, t) ==
  IF p = <<>> THEN t = <<>>
  ELSE IF Head(p) = Star THEN Glob(Tail(p), t) \/ (t # <<>> /\ Glob(p, Tail(t)))
  ELSE IF t = <<>> THEN FALSE
  ELSE IF Head(p) = Quest THEN Glob(Tail(p), Tail(t))
  ELSE Fold(Head(p)) = Fold(Head(t)) /\ Glob(Tail(p), Tail(t))

HasWildcard(p) == \E i \in 1..Len(p) : p[i] \in {Star, Quest}

StrictStart(t, i) == i = 1 \/ ~IsWordChar(t[i - 1])
StrictEnd(t, j) == j = Len(t) \/ ~IsWordChar(t[j + 1])
LiberalStart(t, i) == StrictStart(t, i) \/ (i <= Len(t) /\ ~IsWordChar(t[i]))
LiberalEnd(t, j) == StrictEnd(t, j) \/ (j >= 1 /\ ~IsWordChar(t[j]))
\* substring [i..j]; i = j + 1 is the empty substring at position i
WordStrict(p, t) == \E i \in 1..(Len(t) + 1) : \E j \in (i - 1)..Len(t) :
                       StrictStart(t, i) /\ StrictEnd(t, j) /\ Glob(p, SubSeq(t, i, j))
WordLiberal(p, t) == \E i \in 1..(Len(t) + 1) : \E j \in (i - 1)..Len(t) :
                       (i = j + 1 \/ (LiberalStart(t, i) /\ LiberalEnd(t, j))) /\ Glob(p, SubSeq(t, i, j))
WordVerdict(p, t) == IF p = <<>> THEN "unspec"
                     ELSE IF WordStrict(p, t) THEN "must" ELSE IF ~WordLiberal(p, t) THEN "mustnot" ELSE "unspec"

\* contains_display_name: "content.body contains the owner's display name" - the name is text, none of its characters is a
\* wildcard; it is looked for case-insensitively between the same word boundaries
LitEq(n, t) == Len(n) = Len(t) /\ \A i \in 1..Len(n) : Fold(n[i]) = Fold(t[i])
NameStrict(n, t) == \E i \in 1..(Len(t) + 1) : \E j \in (i - 1)..Len(t) :
                       StrictStart(t, i) /\ StrictEnd(t, j) /\ LitEq(n, SubSeq(t, i, j))
NameLiberal(n, t) == \E i \in 1..(Len(t) + 1) : \E j \in (i - 1)..Len(t) :
                       (i = j + 1 \/ (LiberalStart(t, i) /\ LiberalEnd(t, j))) /\ LitEq(n, SubSeq(t, i, j))
DisplayNameVerdict(n, t) == IF n = <<>> THEN "unspec"
                            ELSE IF NameStrict(n, t) THEN "must" ELSE IF ~NameLiberal(n, t) THEN "mustnot" ELSE "unspec"
=============================================================================

------------------------------- MODULE Events -------------------------------
(* Typed events (client-server API event tables): which variant of the typed   *)
(* event enums an event JSON must deserialize to, and the laws of content      *)
(* (de)serialization.                                                          *)
EXTENDS Naturals, FiniteSets

KnownTypes ==
  [ state |-> {"m.room.create", "m.room.member", "m.room.power_levels", "m.room.join_rules", "m.room.name", "m.room.topic", "m.room.avatar",
               "m.room.canonical_alias", "m.room.aliases", "m.room.history_visibility", "m.room.guest_access", "m.room.encryption",
               "m.room.pinned_events", "m.room.server_acl", "m.room.third_party_invite", "m.room.tombstone", "m.space.child", "m.space.parent"},
    message_like |-> {"m.room.message", "m.room.redaction", "m.reaction", "m.sticker", "m.room.encrypted", "m.call.invite", "m.call.answer",
                      "m.call.candidates", "m.call.hangup", "m.call.select_answer", "m.call.reject", "m.call.negotiate", "m.call.sdp_stream_metadata_changed",
                      "m.key.verification.start", "m.key.verification.accept", "m.key.verification.key", "m.key.verification.mac",
                      "m.key.verification.cancel", "m.key.verification.done", "m.key.verification.ready"},
    ephemeral |-> {"m.typing", "m.receipt"},
    global_account_data |-> {"m.direct", "m.ignored_user_list", "m.push_rules", "m.secret_storage.default_key", "m.identity_server"},
    room_account_data |-> {"m.fully_read", "m.tag", "m.marked_unread"},
    to_device |-> {"m.dummy", "m.room_key", "m.room_key_request", "m.forwarded_room_key", "m.room.encrypted", "m.secret.request", "m.secret.send",
                   "m.key.verification.request", "m.key.verification.start", "m.key.verification.accept", "m.key.verification.key",
                   "m.key.verification.mac", "m.key.verification.cancel", "m.key.verification.done", "m.key.verification.ready"} ]
Kinds == DOMAIN KnownTypes
\* wildcard types (m.secret_storage.key.<id>) are dedicated variants that keep their suffix
IsKnown(kind, type, wildcard) == type \in KnownTypes[kind] \/ (kind = "global_account_data" /\ wildcard)
\* only room events can be redacted
Redactable(kind) == kind \in {"state", "message_like"}

\* target enums an event of a kind must deserialize into, per format
Targets(kind, format) ==
  CASE kind = "state" /\ format = "sync" -> {"AnySyncStateEvent", "AnySyncTimelineEvent"}
    [] kind = "state" /\ format = "full" -> {"AnyStateEvent", "AnyTimelineEvent", "AnySyncStateEvent", "AnySyncTimelineEvent"}
    [] kind = "state" /\ format = "stripped" -> {"AnyStrippedStateEvent"}
    [] kind = "message_like" /\ format = "sync" -> {"AnySyncMessageLikeEvent", "AnySyncTimelineEvent"}
    [] kind = "message_like" /\ format = "full" -> {"AnyMessageLikeEvent", "AnyTimelineEvent", "AnySyncMessageLikeEvent", "AnySyncTimelineEvent"}
    [] kind = "ephemeral" -> {"AnySyncEphemeralRoomEvent"}
    [] kind = "global_account_data" -> {"AnyGlobalAccountDataEvent"}
    [] kind = "room_account_data" -> {"AnyRoomAccountDataEvent"}
    [] kind = "to_device" -> {"AnyToDeviceEvent"}
    [] OTHER -> {}

\* documented alias spellings (unstable names of since-stabilised types) and their canonical spelling
AliasTable == [x \in {"org.matrix.call.sdp_stream_metadata_changed"} |-> "m.call.sdp_stream_metadata_changed"]
CanonicalOf(t) == IF t \in DOMAIN AliasTable THEN AliasTable[t] ELSE t

\* one observation r of deserializing an event into a target enum
Dispatch(r) ==
  /\ r.target \in Targets(r.kind, r.format)
  /\ r.ok                                                      \* spec-shaped events deserialize
  \* variant by `type`, unknown types -> custom variant; a declared alias spelling (unstable prefix) is not a type of the
  \* specification: whether it gets the dedicated variant is left open, everything else must still hold for it
  /\ (r.alias \/ (r.known <=> IsKnown(r.kind, r.type, r.wildcard)))
  /\ (r.redacted_out <=> (r.redacted_in /\ Redactable(r.kind))) \* unsigned.redacted_because -> redacted variant
  /\ IF r.alias THEN r.type_out \in {r.type, CanonicalOf(r.type)}   \* an alias comes back as itself or as its canonical spelling
                ELSE r.type_out = r.type                       \* the type string survives (wildcard suffix included)
  /\ r.acc_ok                                                   \* sender, ids, timestamp, state key as in the JSON
  \* the same JSON value with the string `type` spelled with escapes (\uXXXX, \/) gives the same variant and answers
  /\ r.spelling_indep
ContentLaws(r) ==
  r.hascontent => (r.fix_ok /\ r.nodup /\ r.subsumes /\ r.order_indep)
RawLaws(r) == r.raw_identical /\ r.raw_field_ok
Agrees(r) == ~r.panic /\ Dispatch(r) /\ ContentLaws(r) /\ r.extras_ok /\ RawLaws(r)

\* sanity of the tables: a type is not both a state and a message-like type (the timeline enums decide by state_key)
TablesDisjoint == KnownTypes["state"] \cap KnownTypes["message_like"] = {}
=============================================================================

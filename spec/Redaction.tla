----------------------------- MODULE Redaction -----------------------------
(* Redaction algorithm per room version (client-server "Redactions" and the  *)
(* "Redactions" section of each room-version page).                           *)
(*                                                                            *)
(* An event is a record                                                       *)
(*   [ type : STRING, top : [keys -> atom], hascontent : BOOLEAN,             *)
(*     content : [keys -> atom],                                              *)
(*     tpikind : {"none","atom","obj"}, tpi : [keys -> atom] ]                *)
(* top holds every top-level key except "content"; tpi describes the value    *)
(* of content.third_party_invite when it is an object.  Values are atoms:     *)
(* redaction never looks inside a kept value, so keeping a key means keeping  *)
(* the identical (arbitrarily nested) value.                                  *)
EXTENDS Naturals, Sequences, FiniteSets, RoomVersions

TopAlways == {"event_id", "type", "room_id", "sender", "state_key", "content", "hashes", "signatures",
              "depth", "prev_events", "auth_events", "origin_server_ts"}
TopOld == {"origin", "membership", "prev_state"}
KeptTop(v) == TopAlways \cup (IF RV(v).keep_top_old THEN TopOld ELSE {})

PLKeys == {"ban", "events", "events_default", "kick", "redact", "state_default", "users", "users_default"}

SpecialTypes == {"m.room.member", "m.room.create", "m.room.join_rules", "m.room.power_levels",
                 "m.room.history_visibility", "m.room.redaction", "m.room.aliases"}

\* which of the present content keys survive
KeptContent(type, v, keys) ==
  CASE type = "m.room.member" ->
         {"membership"} \cup (IF RV(v).keep_jauth THEN {"join_authorised_via_users_server"} ELSE {})
                        \cup (IF RV(v).keep_tpi_signed THEN {"third_party_invite"} ELSE {})
    [] type = "m.room.create" -> IF RV(v).keep_create_all THEN keys ELSE {"creator"}
    [] type = "m.room.join_rules" -> {"join_rule"} \cup (IF RV(v).keep_allow THEN {"allow"} ELSE {})
    [] type = "m.room.power_levels" -> PLKeys \cup (IF RV(v).keep_pl_invite THEN {"invite"} ELSE {})
    [] type = "m.room.history_visibility" -> {"history_visibility"}
    [] type = "m.room.redaction" -> IF RV(v).keep_redacts THEN {"redacts"} ELSE {}
    [] type = "m.room.aliases" -> IF RV(v).keep_aliases THEN {"aliases"} ELSE {}
    [] OTHER -> {}

Restrict(f, S) == [k \in (DOMAIN f) \cap S |-> f[k]]

\* Redaction is specified for every event.  Under the v11 rule only third_party_invite.signed is kept: a value that is not an
\* object has no such member, so nothing of it is kept (the key goes, like an object without `signed`).
Specified(e, v) == TRUE

Redact(e, v) ==
  LET kc == KeptContent(e.type, v, DOMAIN e.content)
      reduce == e.type = "m.room.member" /\ RV(v).keep_tpi_signed
      tpi2 == IF reduce THEN Restrict(e.tpi, {"signed"}) ELSE e.tpi
      hasTpi == "third_party_invite" \in DOMAIN e.content
      dropTpi == hasTpi /\ reduce /\ ((e.tpikind = "obj" /\ DOMAIN tpi2 = {}) \/ e.tpikind = "atom")
      c2 == Restrict(e.content, IF dropTpi THEN kc \ {"third_party_invite"} ELSE kc)
      keepsTpi == "third_party_invite" \in DOMAIN c2
  IN [e EXCEPT !.top = Restrict(e.top, KeptTop(v)),
               !.content = c2,
               !.tpikind = IF keepsTpi THEN e.tpikind ELSE "none",
               !.tpi = IF keepsTpi /\ e.tpikind = "obj" THEN tpi2 ELSE <<>>]

\* content-only entry point: the content of the redacted event
RedactContent(e, v) == Redact(e, v).content

(* ---- theorems checked by TLC on every enumerated event ---- *)
Idempotent(e, v) == Redact(Redact(e, v), v) = Redact(e, v)
OnlyRemoves(e, v) ==
  LET r == Redact(e, v) IN
  /\ DOMAIN r.top \subseteq DOMAIN e.top /\ \A k \in DOMAIN r.top : r.top[k] = e.top[k]
  /\ DOMAIN r.content \subseteq DOMAIN e.content /\ \A k \in DOMAIN r.content : r.content[k] = e.content[k]
  /\ DOMAIN r.tpi \subseteq DOMAIN e.tpi /\ \A k \in DOMAIN r.tpi : r.tpi[k] = e.tpi[k]
  /\ r.type = e.type /\ r.hascontent = e.hascontent
=============================================================================

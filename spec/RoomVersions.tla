---------------------------- MODULE RoomVersions ----------------------------
(* Per-room-version rule records (Matrix spec, room version pages v1..v11).   *)
(* This is the single table every other module of the specification reads,   *)
(* the counterpart of RoomVersionId::rules() in the implementation.          *)
EXTENDS Naturals

Versions == 1..11

RV(v) ==
  [ \* algorithms
    stateres            |-> IF v = 1 THEN 1 ELSE 2,
    eventidfmt          |-> IF v <= 2 THEN 1 ELSE IF v = 3 THEN 2 ELSE 3,
    \* authorization rules
    redaction_special   |-> v <= 2,     \* m.room.redaction special case
    aliases_special     |-> v <= 5,     \* m.room.aliases special case
    notif               |-> v >= 6,     \* notifications checked in power-level changes
    knocking            |-> v >= 7,
    restricted          |-> v >= 8,
    knockres            |-> v >= 10,
    intpl               |-> v >= 10,    \* power levels must be integers
    createsender        |-> v >= 11,    \* creator = sender of m.room.create
    \* redaction rules
    keep_top_old        |-> v < 11,     \* origin, membership, prev_state
    keep_aliases        |-> v < 6,
    keep_allow          |-> v >= 8,
    keep_jauth          |-> v >= 9,
    keep_create_all     |-> v >= 11,
    keep_redacts        |-> v >= 11,
    keep_pl_invite      |-> v >= 11,
    keep_tpi_signed     |-> v >= 11,
    \* signature checks on received events
    check_eventid_server |-> v <= 2,
    check_jauth_server   |-> v >= 8,
    \* event format
    strict_canonical    |-> v >= 6 ]
=============================================================================

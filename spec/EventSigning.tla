---------------------------- MODULE EventSigning ----------------------------
(* Hashing, signing and verifying events (server-server "Signing events",      *)
(* "Calculating the content hash / reference hash", "Validating hashes and      *)
(* signatures on received events"), on the abstract events of Redaction.tla.    *)
(* An event additionally carries the attributes the signer rules look at:       *)
(*   membership : STRING ("" for non-member events), senderServer, idServer     *)
(*   (server part of the event ID, room versions 1-2), jauthServer ("" if the   *)
(*   content has no join_authorised_via_users_server).                          *)
(* SHA-256 and Ed25519 are abstract and injective: a hash / signature IS the    *)
(* pre-image it was computed over.                                              *)
EXTENDS Redaction, TLC

Minus(f, S) == [k \in (DOMAIN f) \ S |-> f[k]]

\* content hash: the event without unsigned, signatures, hashes
ContentHashPre(e) == [e EXCEPT !.top = Minus(e.top, {"unsigned", "signatures", "hashes"})]
\* reference hash / signed bytes: the redacted event without signatures, unsigned (hashes stay in)
RefHashPre(e, v) == LET r == Redact(e, v) IN [r EXCEPT !.top = Minus(r.top, {"signatures", "unsigned"})]
SignedPre(e, v) == RefHashPre(e, v)

\* event ID alphabet (room version 3: standard base64, 4+: URL-safe; 1-2: event_id is a field, reference hash standard)
RefHashAlphabet(v) == IF RV(v).eventidfmt <= 2 THEN "standard" ELSE "urlsafe"

\* servers whose signature is required
IsThirdPartyInvite(e) == e.type = "m.room.member" /\ e.membership = "invite" /\ e.hascontent
                         /\ "third_party_invite" \in DOMAIN e.content /\ e.tpikind = "obj"
ServersToCheck(e, v) ==
  (IF IsThirdPartyInvite(e) THEN {} ELSE {e.senderServer})
  \cup (IF RV(v).check_eventid_server THEN {e.idServer} ELSE {})
  \* "if the event is an m.room.member event with membership join and has join_authorised_via_users_server": the key on any
  \* other event demands nothing
  \cup (IF RV(v).check_jauth_server /\ e.type = "m.room.member" /\ e.membership = "join" /\ e.hascontent
           /\ "join_authorised_via_users_server" \in DOMAIN e.content
        THEN {e.jauthServer} ELSE {})

\* the reading ruma implements (and one of its pinned tests demands): the key on ANY event names a further required signer
ServersToCheckAnyEvent(e, v) ==
  ServersToCheck(e, v) \cup (IF RV(v).check_jauth_server /\ e.hascontent /\ "join_authorised_via_users_server" \in DOMAIN e.content
                             THEN {e.jauthServer} ELSE {})

\* hash_and_sign_event by server s: `hashes` := content hash, signature of s := signed pre-image
WithHash(e) == [e EXCEPT !.top = Minus(e.top, {"hashes"}) @@ [x \in {"hashes"} |-> ContentHashPre(e)]]
NoSig == [none |-> TRUE]
HashAndSign(e, sigs, s, v) ==
  LET e1 == WithHash(e) IN [e |-> e1, sigs |-> [sigs EXCEPT ![s] = SignedPre(e1, v)]]

\* verify_event with correct public keys for every server
Verify(e, sigs, v) ==
  IF "hashes" \notin DOMAIN e.top THEN "err"
  ELSE IF \E s \in ServersToCheck(e, v) : sigs[s] = NoSig \/ sigs[s] # SignedPre(e, v) THEN "err"
  ELSE IF e.top["hashes"] = ContentHashPre(e) THEN "all" ELSE "signatures"

VerifyAnyEvent(e, sigs, v) ==
  IF "hashes" \notin DOMAIN e.top THEN "err"
  ELSE IF \E s \in ServersToCheckAnyEvent(e, v) : sigs[s] = NoSig \/ sigs[s] # SignedPre(e, v) THEN "err"
  ELSE IF e.top["hashes"] = ContentHashPre(e) THEN "all" ELSE "signatures"

\* a redacted copy as a server would store it (signatures and hashes are kept top-level keys)
RedactedCopy(e, v) == Redact(e, v)
=============================================================================

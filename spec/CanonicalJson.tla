--------------------------- MODULE CanonicalJson ---------------------------
(* Matrix canonical JSON (appendix "Canonical JSON") on tagged values.        *)
EXTENDS Integers, Sequences, FiniteSets, TLC

\* value == [t : {"null","bool","int","str","arr","obj","bad"}, b : BOOLEAN, neg : BOOLEAN, d : Seq(0..9),
\*           s : Seq(codepoint), items : Seq(value), mem : Seq([k : Seq(codepoint), v : value])]
\* "bad" = a number canonical JSON cannot represent (fraction, exponent, -0)

RECURSIVE LexLess(_, _)
LexLess(a, b) == IF a = <<>> THEN b # <<>>
                 ELSE IF b = <<>> THEN FALSE
                 ELSE IF Head(a) # Head(b) THEN Head(a) < Head(b)
                 ELSE LexLess(Tail(a), Tail(b))

Utf8(c) == IF c < 128 THEN <<c>>
           ELSE IF c < 2048 THEN <<192 + (c \div 64), 128 + (c % 64)>>
           ELSE IF c < 65536 THEN <<224 + (c \div 4096), 128 + ((c \div 64) % 64), 128 + (c % 64)>>
           ELSE <<240 + (c \div 262144), 128 + ((c \div 4096) % 64), 128 + ((c \div 64) % 64), 128 + (c % 64)>>
Hex(n) == IF n < 10 THEN 48 + n ELSE 87 + n      \* lower-case
Esc(c) == CASE c = 34 -> <<92, 34>>  [] c = 92 -> <<92, 92>>
            [] c = 8 -> <<92, 98>>   [] c = 12 -> <<92, 102>>  [] c = 10 -> <<92, 110>>
            [] c = 13 -> <<92, 114>> [] c = 9 -> <<92, 116>>
            [] c < 32 -> <<92, 117, 48, 48, Hex(c \div 16), Hex(c % 16)>>
            [] OTHER -> Utf8(c)
RECURSIVE StrBody(_)
StrBody(s) == IF s = <<>> THEN <<>> ELSE Esc(Head(s)) \o StrBody(Tail(s))
Str(s) == <<34>> \o StrBody(s) \o <<34>>

\* integers as digit sequences: strip leading zeros, range check against 2^53 - 1
RECURSIVE Strip(_)
Strip(d) == IF Len(d) > 1 /\ Head(d) = 0 THEN Strip(Tail(d)) ELSE d
MaxD == <<9,0,0,7,1,9,9,2,5,4,7,4,0,9,9,1>>
InRange(d) == Len(d) < Len(MaxD) \/ (Len(d) = Len(MaxD) /\ ~LexLess(MaxD, d))
IntOk(v) == LET d == Strip(v.d) IN InRange(d) /\ ~(v.neg /\ d = <<0>>)
IntBytes(v) == (IF v.neg THEN <<45>> ELSE <<>>) \o [i \in 1..Len(Strip(v.d)) |-> 48 + Strip(v.d)[i]]

\* last duplicate wins, then sort by key
RECURSIVE Dedup(_)
Dedup(m) == IF m = <<>> THEN <<>>
            ELSE IF \E i \in 2..Len(m) : m[i].k = m[1].k THEN Dedup(Tail(m)) ELSE <<m[1]>> \o Dedup(Tail(m))
RECURSIVE SortM(_)
SortM(m) == IF m = <<>> THEN <<>>
            ELSE LET i == CHOOSE i \in 1..Len(m) : \A j \in 1..Len(m) : j = i \/ LexLess(m[i].k, m[j].k)
                 IN <<m[i]>> \o SortM(SubSeq(m, 1, i - 1) \o SubSeq(m, i + 1, Len(m)))

RECURSIVE Ok(_)
Ok(v) == CASE v.t = "bad" -> FALSE
           [] v.t = "int" -> IntOk(v)
           [] v.t = "arr" -> \A i \in 1..Len(v.items) : Ok(v.items[i])
           [] v.t = "obj" -> \A i \in 1..Len(Dedup(v.mem)) : Ok(Dedup(v.mem)[i].v)   \* shadowed duplicates are not part of the value
           [] OTHER -> TRUE

RECURSIVE Canon(_)
RECURSIVE CanonItems(_)
RECURSIVE CanonMem(_)
CanonItems(s) == IF s = <<>> THEN <<>> ELSE Canon(Head(s)) \o (IF Len(s) > 1 THEN <<44>> ELSE <<>>) \o CanonItems(Tail(s))
CanonMem(m) == IF m = <<>> THEN <<>>
               ELSE Str(m[1].k) \o <<58>> \o Canon(m[1].v) \o (IF Len(m) > 1 THEN <<44>> ELSE <<>>) \o CanonMem(Tail(m))
Canon(v) == CASE v.t = "null" -> <<110,117,108,108>>
              [] v.t = "bool" -> IF v.b THEN <<116,114,117,101>> ELSE <<102,97,108,115,101>>
              [] v.t = "int" -> IntBytes(v)
              [] v.t = "str" -> Str(v.s)
              [] v.t = "arr" -> <<91>> \o CanonItems(v.items) \o <<93>>
              [] v.t = "obj" -> <<123>> \o CanonMem(SortM(Dedup(v.mem))) \o <<125>>

\* every member, shadowed duplicates included, is representable.  A text whose shadowed duplicate is not
\* representable denotes a representable value, but whether it must be accepted is left open (UNSPEC).
RECURSIVE OkStrict(_)
OkStrict(v) == CASE v.t = "bad" -> FALSE
                 [] v.t = "int" -> IntOk(v)
                 [] v.t = "arr" -> \A i \in 1..Len(v.items) : OkStrict(v.items[i])
                 [] v.t = "obj" -> \A i \in 1..Len(v.mem) : OkStrict(v.mem[i].v)
                 [] OTHER -> TRUE

\* the JSON value a text denotes: last duplicate wins at every depth (what the property calls "the JSON value")
RECURSIVE Normalize(_)
Normalize(v) == CASE v.t = "arr" -> [v EXCEPT !.items = [i \in 1..Len(v.items) |-> Normalize(v.items[i])]]
                  [] v.t = "obj" -> LET m == SortM(Dedup(v.mem)) IN
                                    [v EXCEPT !.mem = [i \in 1..Len(m) |-> [k |-> m[i].k, v |-> Normalize(m[i].v)]]]
                  [] v.t = "int" -> [v EXCEPT !.d = Strip(v.d)]
                  [] OTHER -> v
\* the bytes that are signed and hashed (appendix "Signing JSON"): the canonical form of the object without its
\* top-level "signatures" and "unsigned" members; nothing below the top level is removed
KSignatures == <<115,105,103,110,97,116,117,114,101,115>>
KUnsigned == <<117,110,115,105,103,110,101,100>>
SigningForm(v) == [v EXCEPT !.mem = SelectSeq(Dedup(v.mem), LAMBDA m : m.k \notin {KSignatures, KUnsigned})]
SigningBytes(v) == Canon(SigningForm(v))
\* canonical form depends on the value only
CanonOfNormalize(v) == Ok(v) => (Ok(Normalize(v)) /\ Canon(Normalize(v)) = Canon(v))
==============================================================================

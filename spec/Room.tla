-------------------------------- MODULE Room --------------------------------
(* Behaviours of one replicated room: the definitions of RoomBase.tla (events, *)
(* placement on the forward extremities, base rooms, what users may try) plus  *)
(* the state machine in which servers create events and pull each other's      *)
(* events in any order.                                                        *)
EXTENDS RoomBase

CONSTANT AllowStale    \* servers may also build on a stale view (the parents of their extremities)

(* ---- behaviours beyond the base room ---- *)
VARIABLES world, nnew
vars == <<world, nnew>>

UsedIds == DOMAIN world.events
FreeNew == {i \in 1..Len(NewIds) : NewIds[i] \notin UsedIds}
\* a new event takes the smallest or the largest unused id: event-id order is not creation order
IdChoices == IF FreeNew = {} THEN {} ELSE {NewIds[CHOOSE i \in FreeNew : \A j \in FreeNew : i <= j],
                                          NewIds[CHOOSE i \in FreeNew : \A j \in FreeNew : i >= j]}

\* a new event takes (smallest unused id, late timestamp) or (largest unused id, early timestamp): the event-id order,
\* the timestamp order and the creation order all disagree
IdTsChoices == IF FreeNew = {} THEN {} ELSE
  {<<NewIds[CHOOSE i \in FreeNew : \A j \in FreeNew : i <= j], 2>>, <<NewIds[CHOOSE i \in FreeNew : \A j \in FreeNew : i >= j], 1>>}

\* server s (optionally after pulling everything the other servers have) creates one event for one of its users
Send(s, pull) ==
  /\ nnew < MaxNew
  /\ LET w == IF pull THEN [world EXCEPT !.known[s] = UNION {world.known[t] : t \in Servers}] ELSE world
         \* normally the forward extremities; with AllowStale also a single extremity or one step back (a worker or restored backup of the
         \* same server acting on an older view), which creates forks between events of one server
         prevs == {Heads(w, s)} \cup (IF AllowStale THEN {{q} : q \in Heads(w, s) \cup UNION {w.events[h].prev : h \in Heads(w, s)}} ELSE {})
     IN /\ (pull => w.known[s] # world.known[s])
        /\ \E prev \in prevs : LET st == StateBefore(w, prev)  stE == AsEvents(w, st) IN
           \E p \in Protos(s), it \in IdTsChoices :
             LET auth == {st[x] : x \in AuthTypes(p, R) \cap DOMAIN st}
                 e == [p EXCEPT !.id = it[1], !.prev = prev, !.auth = auth, !.ts = it[2],
                                !.chain = auth \cup UNION {w.events[a].chain : a \in auth}]
                 k == K(e.type, e.key)
             IN /\ Auth(stE, e, R)[1] = "allow"
                \* no-op state changes (same content and sender as the current entry) are not interesting
                /\ ((k \in DOMAIN st) => (stE[k].c # e.c \/ stE[k].sender # e.sender))
                /\ world' = [events |-> w.events @@ (e.id :> e),
                             after |-> w.after @@ (e.id :> [x \in (DOMAIN st) \cup {k} |-> IF x = k THEN e.id ELSE st[x]]),
                             known |-> [w.known EXCEPT ![s] = @ \cup {e.id}]]
                /\ nnew' = nnew + 1

Next == \E s \in Servers, pull \in BOOLEAN : Send(s, pull)

(* ---- what every reachable state must satisfy (sanity of the transcription, design-level facts) ---- *)
AllStates == {world.after[i] : i \in DOMAIN world.after}
\* resolving one state set, or identical ones, is the identity
ResolveIdentity(I) == \A i \in I : Resolve(world.events, {world.after[i]}, R) = world.after[i]
\* the result only contains events of the inputs or of the auth difference, and keeps unconflicted entries
ResolveSound(S) ==
  LET r == Resolve(world.events, S, R)  Un == Unconflicted(S) IN
  /\ \A k \in DOMAIN r : r[k] \in (UNION {{s[x] : x \in DOMAIN s} : s \in S}) \cup AuthDifference(world.events, S)
  /\ \A k \in DOMAIN Un : k \in DOMAIN r /\ r[k] = Un[k]
  /\ \A k \in DOMAIN r : SKey(world.events, r[k]) = k
\* the create event stays the create event
CreateStable(S) == LET r == Resolve(world.events, S, R) IN
  \A s \in S : K("m.room.create", "") \in DOMAIN s => (K("m.room.create", "") \in DOMAIN r /\ r[K("m.room.create", "")] = s[K("m.room.create", "")])
=============================================================================

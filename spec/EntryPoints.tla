---------------------------- MODULE EntryPoints ----------------------------
(* The library as seen by a process that feeds it data controlled by a remote  *)
(* party.  There is one action per kind of entry point:                        *)
(*                                                                             *)
(*   Call      a stateless entry point (parsers, deserialisers, verifiers,     *)
(*             evaluators, the HTML sanitiser, endpoint message decoders):     *)
(*             it returns Ok or Err and its result is a function of its        *)
(*             arguments alone -- the library has no hidden state;             *)
(*   Edit      an operation on an explicit object the caller owns (a push      *)
(*             Ruleset, an object handed to sign_json): it returns Ok or Err,  *)
(*             and Err leaves the object exactly as it was;                    *)
(*   Start     a process start: explicit objects are created afresh and are    *)
(*             always created equal.                                           *)
(*                                                                             *)
(* There is no action whose outcome is a panic, an abort (stack exhaustion     *)
(* included) or a call that does not return: a behaviour of the implementation *)
(* containing one is not a behaviour of this specification.                    *)
(*                                                                             *)
(* Inputs are abstract identities; results and object states are abstract      *)
(* values (the harness logs digests).  memo holds the result each live input   *)
(* produced; an input is forgotten after its last scheduled call so that the   *)
(* state stays small on long traces.                                           *)
EXTENDS Naturals, Sequences, FiniteSets, TLC

Outcomes == {"ok", "err"}

VARIABLES memo,      \* [input id -> <<outcome, result>>] of the inputs seen and still scheduled again
          objs,      \* [object name -> state] of the persistent explicit objects of the running process
          fresh      \* [object name -> state] the state each explicit object has when created
vars == <<memo, objs, fresh>>

Init == memo = <<>> /\ objs = <<>> /\ fresh = <<>>

Forget(m, i) == [j \in (DOMAIN m) \ {i} |-> m[j]]

\* the part of Call that concerns the result: equal arguments, equal result, whatever happened in between
Deterministic(i, outcome, res) == (i \in DOMAIN memo) => (memo[i] = <<outcome, res>>)
Remember(i, last, outcome, res) ==
  memo' = IF last THEN Forget(memo, i)
          ELSE IF i \in DOMAIN memo THEN memo ELSE memo @@ (i :> <<outcome, res>>)

Call(i, last, outcome, res) ==
  /\ outcome \in Outcomes
  /\ Deterministic(i, outcome, res)
  /\ Remember(i, last, outcome, res)
  /\ UNCHANGED <<objs, fresh>>

\* an edit of the persistent object o of the running process
Edit(o, outcome, before, after) ==
  /\ outcome \in Outcomes
  /\ o \in DOMAIN objs /\ objs[o] = before
  /\ (outcome = "err" => after = before)
  /\ objs' = [objs EXCEPT ![o] = after]
  /\ UNCHANGED <<memo, fresh>>

\* an edit of an object passed with the call (the object is an argument: the call is also a Call)
EditArgument(i, last, outcome, res, before, after) ==
  /\ (outcome = "err" => after = before)
  /\ Call(i, last, outcome, res)

\* a process start with the explicit objects in state st
Start(st) ==
  /\ \A o \in (DOMAIN st) \cap (DOMAIN fresh) : st[o] = fresh[o]
  /\ fresh' = [o \in (DOMAIN st) \cup (DOMAIN fresh) |-> IF o \in DOMAIN fresh THEN fresh[o] ELSE st[o]]
  /\ objs' = st
  /\ UNCHANGED memo

(* ---- properties of the design ---- *)
\* an explicit object only changes through a successful edit or a process start (action property)
ObjectsChangeOnlyByOkEdits(trueOutcome) == [][objs' # objs => trueOutcome]_vars
=============================================================================

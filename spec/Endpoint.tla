------------------------------ MODULE Endpoint ------------------------------
(* Endpoints over the wire (ruma_common::api): path selection from a version   *)
(* history, the authorization-header decision, and the path / query codec as   *)
(* seen by the receiving side (route on '/', percent-decode; form-decode the    *)
(* query).                                                                      *)
EXTENDS MatrixUri

(* ---- path selection ---- *)
\* h == [stable : set of versions that introduced a stable path, unstable : BOOLEAN, dep, rem : version or -1]
\* versions are 0..14 (1.0 .. 1.14); S is the non-empty set of versions the server supports
VMax(S) == CHOOSE x \in S : \A y \in S : y <= x
VMin(S) == CHOOSE x \in S : \A y \in S : x <= y
Select(h, S) ==
  IF h.rem # -1 /\ \A v \in S : v >= h.rem THEN [kind |-> "removed", ver |-> h.rem]       \* every supported version removed it
  ELSE LET usable == {p \in h.stable : \E v \in S : v >= p} IN
       IF usable # {} THEN [kind |-> "stable", ver |-> VMax(usable)]                       \* newest stable path some version offers
       ELSE IF h.unstable THEN [kind |-> "unstable", ver |-> -1] ELSE [kind |-> "error", ver |-> -1]
WellFormed(h) ==
  /\ (h.stable = {} => h.unstable /\ h.dep = -1)
  /\ (h.dep # -1 => h.stable # {} /\ (h.dep > VMax(h.stable) \/ (h.dep = 0 /\ VMax(h.stable) = 0)))
  /\ (h.rem # -1 => h.dep # -1 /\ h.rem > h.dep)

(* ---- authorization header: does the request carry "Authorization: Bearer <token>"? ---- *)
\* auth \in {"None","AccessToken","AccessTokenOptional","AppserviceToken","AppserviceTokenOptional","ServerSignatures"}
\* send \in {"None","IfRequired","Always","Appservice"}; result "header" | "none" | "error"
AuthHeader(auth, send) ==
  CASE auth = "None" -> IF send = "Always" THEN "header" ELSE "none"
    [] auth = "AccessToken" -> IF send \in {"IfRequired", "Always", "Appservice"} THEN "header" ELSE "error"
    [] auth = "AccessTokenOptional" -> IF send \in {"IfRequired", "Always", "Appservice"} THEN "header" ELSE "none"
    [] auth = "AppserviceToken" -> IF send \in {"Always", "Appservice"} THEN "header" ELSE "error"
    [] auth = "AppserviceTokenOptional" -> IF send \in {"Always", "Appservice"} THEN "header" ELSE "none"
    [] auth = "ServerSignatures" -> "none"

(* ---- wire codec, receiving side ---- *)
\* template segments: <<"lit", text>> or <<"arg">>; a request path decodes to args iff routing on '/' matches the literals
\* and percent-decoding the placeholder segments gives exactly the arguments (as UTF-8 bytes)
PathDecodesTo(path, template, args) ==
  LET segs == Split(path, 47) IN
  /\ Len(segs) = Len(template) + 1 /\ segs[1] = <<>>
  /\ \A i \in 1..Len(template) :
        IF template[i][1] = "lit" THEN segs[i + 1] = template[i][2]
        ELSE PctDecode(segs[i + 1]) = Bytes(args[Cardinality({j \in 1..i : template[j][1] = "arg"})])
\* application/x-www-form-urlencoded: '+' is a space
RECURSIVE PlusToSpace(_)
PlusToSpace(s) == IF s = <<>> THEN <<>> ELSE <<IF Head(s) = 43 THEN 32 ELSE Head(s)>> \o PlusToSpace(Tail(s))
FormDecode(s) == PctDecode(PlusToSpace(s))
\* query text decodes to the ordered list of pairs (keys and values as code points)
QueryDecodesTo(q, pairs) ==
  IF pairs = <<>> THEN q = <<>>
  ELSE LET items == Split(q, 38) IN
       /\ Len(items) = Len(pairs)
       /\ \A i \in 1..Len(items) :
            LET e == Find(items[i], 61)
                k == IF e = 0 THEN items[i] ELSE SubSeq(items[i], 1, e - 1)
                v == IF e = 0 THEN <<>> ELSE SubSeq(items[i], e + 1, Len(items[i]))
            IN FormDecode(k) = Bytes(pairs[i][1]) /\ FormDecode(v) = Bytes(pairs[i][2])
=============================================================================

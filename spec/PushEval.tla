----------------------------- MODULE PushEval -----------------------------
(* Push rule evaluation (client-server "Push rules"): dotted property paths,  *)
(* conditions, and the priority order of kinds and rules.                     *)
EXTENDS PushGlob, Integers

(* ---- dot-separated property paths: '.' and '\' in keys are escaped with '\' ---- *)
Dot == 46
Bsl == 92
RECURSIVE EscapeKey(_)
EscapeKey(k) == IF k = <<>> THEN <<>>
                ELSE (IF Head(k) \in {Dot, Bsl} THEN <<Bsl, Head(k)>> ELSE <<Head(k)>>) \o EscapeKey(Tail(k))
\* the path of a property below the root is its escaped name; below any other object, the object's path, a dot, the escaped
\* name.  The root is told apart by a flag, not by an empty path: a property may have the empty name.
\* JSON value == [t : {"obj","str","int","bool","null","arr"}, mem : Seq([k, v]), s : Seq(cp), n : Int, b : BOOLEAN,
\*                items : Seq(scalar value)]
\* Flatten gives the set of <<path, leaf>>; an empty object is a leaf of its own, arrays are leaves.
RECURSIVE FlattenAt(_, _, _)
FlattenAt(v, prefix, root) ==
  IF v.t = "obj" /\ Len(v.mem) > 0
  THEN UNION {FlattenAt(v.mem[i].v, IF root THEN EscapeKey(v.mem[i].k) ELSE prefix \o <<Dot>> \o EscapeKey(v.mem[i].k), FALSE) :
                i \in 1..Len(v.mem)}
  ELSE {<<prefix, v>>}
Flatten(v) == FlattenAt(v, <<>>, TRUE)
Paths(v) == {x[1] : x \in Flatten(v)}
Lookup(v, path) == LET hits == {x \in Flatten(v) : x[1] = path} IN
                   IF hits = {} THEN [t |-> "absent"] ELSE (CHOOSE x \in hits : TRUE)[2]
\* with unique keys per object, no two leaves share a path
PathsUnique(v) == \A x, y \in Flatten(v) : x[1] = y[1] => x = y

(* ---- conditions ---- *)
\* event_match: only string leaves can match, even for the pattern "*"
EventMatch(ev, path, pattern, isBody) ==
  LET leaf == Lookup(ev, path) IN
  IF leaf.t # "str" THEN "mustnot"
  ELSE IF isBody THEN WordVerdict(pattern, leaf.s)
  ELSE IF Glob(pattern, leaf.s) THEN "must" ELSE "mustnot"

ScalarEq(a, b) == a.t = b.t /\ CASE a.t = "str" -> a.s = b.s [] a.t = "int" -> a.n = b.n
                                   [] a.t = "bool" -> a.b = b.b [] a.t = "null" -> TRUE [] OTHER -> FALSE
IsScalar(v) == v.t \in {"str", "int", "bool", "null"}
PropertyIs(ev, path, value) == LET leaf == Lookup(ev, path) IN IsScalar(leaf) /\ ScalarEq(leaf, value)
PropertyContains(ev, path, value) ==
  LET leaf == Lookup(ev, path) IN leaf.t = "arr" /\ \E i \in 1..Len(leaf.items) : ScalarEq(leaf.items[i], value)

\* room_member_count: decimal with optional prefix
CountIs(op, n, count) == CASE op = "==" -> count = n [] op = "" -> count = n [] op = "<" -> count < n
                           [] op = ">" -> count > n [] op = "<=" -> count <= n [] op = ">=" -> count >= n

(* ---- rule priority ---- *)
KindOrder == <<"override", "content", "room", "sender", "underride">>
\* rules : [kind -> Seq([id, enabled, matches])]; ids are positive naturals, 0 = no rule matched;
\* matches = all conditions of the rule hold for the event
RECURSIVE FirstOf(_)
FirstOf(s) == IF s = <<>> THEN 0 ELSE IF s[1].enabled /\ s[1].matches THEN s[1].id ELSE FirstOf(Tail(s))
AllRules(rules) == rules["override"] \o rules["content"] \o rules["room"] \o rules["sender"] \o rules["underride"]
GetMatch(rules, ownEvent) == IF ownEvent THEN 0 ELSE FirstOf(AllRules(rules))
=============================================================================

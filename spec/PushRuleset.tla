--------------------------- MODULE PushRuleset ---------------------------
(* Edit state machine of a push ruleset (ruma_common::push::Ruleset):       *)
(* documented placement semantics of insert / remove / set_enabled /        *)
(* set_actions.  Every error branch leaves the ruleset UNCHANGED; the model  *)
(* is nondeterministic exactly where the documentation is silent.            *)
(*                                                                           *)
(* Rule ids are sequences of code points so that "starts with '.'" and       *)
(* "contains '/' or '\'" are decided here, not by the harness.               *)
(* A rule is [id, default, enabled, payload, act]; payload stands for the    *)
(* conditions/pattern, act for the actions.                                  *)
EXTENDS Naturals, Sequences, FiniteSets

None == <<0>>                          \* "no anchor" (not a valid id: U+0000)
Master == <<46,109,46,114,117,108,101,46,109,97,115,116,101,114>>   \* ".m.rule.master"

IsDotId(id) == Len(id) > 0 /\ id[1] = 46
IsBadId(id) == \E i \in 1..Len(id) : id[i] \in {47, 92}

Has(s, id) == \E i \in 1..Len(s) : s[i].id = id
IdxOf(s, id) == CHOOSE i \in 1..Len(s) : s[i].id = id
Without(s, id) == SelectSeq(s, LAMBDA r : r.id # id)
InsAt(s, i, r) == SubSeq(s, 1, i - 1) \o <<r>> \o SubSeq(s, i, Len(s))   \* r lands at index i

NewRule(id, p) == [id |-> id, default |-> FALSE, enabled |-> TRUE, payload |-> p, act |-> p]

InsertError(s, id, after, before) ==
  IF IsDotId(id) THEN "ServerDefaultRuleId"
  ELSE IF IsBadId(id) THEN "InvalidRuleId"
  ELSE IF (after # None /\ IsDotId(after)) \/ (before # None /\ IsDotId(before)) THEN "RelativeToServerDefaultRule"
  ELSE IF (after # None /\ ~Has(s, after)) \/ (before # None /\ ~Has(s, before)) THEN "UnknownRuleId"
  ELSE IF after # None /\ before # None /\ IdxOf(s, before) < IdxOf(s, after) + 1 THEN "BeforeHigherThanAfter"
  ELSE "ok"

\* the rule as stored after a successful insert: new, or replacing keeps `enabled`
Stored(s, id, p) == IF Has(s, id) THEN [s[IdxOf(s, id)] EXCEPT !.payload = p, !.act = p, !.default = FALSE]
                    ELSE NewRule(id, p)

\* set of permitted successor sequences for a successful insert
InsertResults(s, ovr, id, p, after, before) ==
  LET r == Stored(s, id, p)
      base == Without(s, id)
  IN IF before # None THEN {InsAt(base, IdxOf(base, before), r)}
     ELSE IF after # None THEN {InsAt(base, IdxOf(base, after) + 1, r)}
     ELSE IF Has(s, id) THEN {[s EXCEPT ![IdxOf(s, id)] = r]}
     ELSE IF ovr
          THEN IF Len(s) >= 1 /\ s[1].id = Master THEN {InsAt(s, 2, r)}
               ELSE {InsAt(s, 1, r)}     \* no master rule in front: "the rule with the highest priority of its kind"
          ELSE {InsAt(s, 1, r)}

\* A rule anchored on itself is not covered by the documentation: either an error (nothing changes), or
\* the rule is placed as if the self-anchor had not been given, or an existing rule is replaced where it is, or
\* a new rule is appended.
SelfAnchored(id, after, before) == after = id \/ before = id
SelfAnchorResults(s, ovr, id, p, after, before) ==
  LET a2 == IF after = id THEN None ELSE after
      b2 == IF before = id THEN None ELSE before
  IN (IF Has(s, id) THEN {[s EXCEPT ![IdxOf(s, id)] = Stored(s, id, p)]} ELSE {Append(s, NewRule(id, p))})
     \cup (IF InsertError(s, id, a2, b2) = "ok" THEN InsertResults(s, ovr, id, p, a2, b2) ELSE {})

\* outcome of a call: [err : STRING, posts : set of sequences]; err # "ok" => posts = {s}
InsertOutcome(s, ovr, id, p, after, before) ==
  IF SelfAnchored(id, after, before)
  THEN IF IsDotId(id) \/ IsBadId(id) THEN [err |-> InsertError(s, id, None, None), posts |-> {s}]
       ELSE [err |-> "any", posts |-> {s} \cup SelfAnchorResults(s, ovr, id, p, after, before)]
  ELSE LET e == InsertError(s, id, after, before) IN
       IF e # "ok" THEN [err |-> e, posts |-> {s}]
       ELSE [err |-> "ok", posts |-> InsertResults(s, ovr, id, p, after, before)]

RemoveOutcome(s, id) ==
  IF ~Has(s, id) THEN [err |-> "NotFound", posts |-> {s}]
  ELSE IF s[IdxOf(s, id)].default THEN [err |-> "ServerDefault", posts |-> {s}]
  ELSE [err |-> "ok", posts |-> {Without(s, id)}]

EnableOutcome(s, id, en) ==
  IF ~Has(s, id) THEN [err |-> "NotFound", posts |-> {s}]
  ELSE [err |-> "ok", posts |-> {[s EXCEPT ![IdxOf(s, id)].enabled = en]}]

ActionsOutcome(s, id, a) ==
  IF ~Has(s, id) THEN [err |-> "NotFound", posts |-> {s}]
  ELSE [err |-> "ok", posts |-> {[s EXCEPT ![IdxOf(s, id)].act = a]}]

\* op == [op, id, p, after, before, en]
Outcome(s, ovr, op) ==
  CASE op.op = "insert" -> InsertOutcome(s, ovr, op.id, op.p, op.after, op.before)
    [] op.op = "remove" -> RemoveOutcome(s, op.id)
    [] op.op = "enable" -> EnableOutcome(s, op.id, op.en)
    [] op.op = "actions" -> ActionsOutcome(s, op.id, op.p)

\* A logged call (result class res \in {"ok","err"}, post-state post) is explained by the model
Permitted(s, ovr, op, res, post) ==
  LET o == Outcome(s, ovr, op) IN
  CASE o.err = "ok" -> res = "ok" /\ post \in o.posts
    [] o.err = "any" -> (res = "err" /\ post = s) \/ (res = "ok" /\ post \in o.posts)
    [] OTHER -> res = "err" /\ post = s

(* ---- invariants of the design ---- *)
Unique(s) == \A i, j \in 1..Len(s) : s[i].id = s[j].id => i = j
DefaultsStable(s) == \A i \in 1..Len(s) : s[i].default <=> IsDotId(s[i].id)
MasterFirst(s) == Has(s, Master) => s[1].id = Master
=============================================================================

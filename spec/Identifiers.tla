----------------------------- MODULE Identifiers -----------------------------
(* Recognisers for Matrix identifiers (appendix "Identifier grammar") on code-point sequences. *)
(* Verdicts: "must" (recommended grammar, semantically valid), "mustnot" (violates a structural   *)
(* requirement), "unspec" otherwise.                                                              *)
EXTENDS Integers, Sequences, FiniteSets, TLC

IsDigit(c) == c >= 48 /\ c <= 57
IsLower(c) == c >= 97 /\ c <= 122
IsUpper(c) == c >= 65 /\ c <= 90
IsDns(c) == IsDigit(c) \/ IsLower(c) \/ IsUpper(c) \/ c = 45 \/ c = 46
IsHex6(c) == IsDigit(c) \/ (c >= 97 /\ c <= 102) \/ (c >= 65 /\ c <= 70) \/ c = 58 \/ c = 46
IsLocalRec(c) == IsDigit(c) \/ IsLower(c) \/ c \in {45, 46, 61, 95, 47, 43}       \* - . = _ / +
IsMedia(c) == IsDigit(c) \/ IsLower(c) \/ IsUpper(c) \/ c = 45 \/ c = 95
U8(c) == IF c < 128 THEN 1 ELSE IF c < 2048 THEN 2 ELSE IF c < 65536 THEN 3 ELSE 4
RECURSIVE Bytes(_)
Bytes(s) == IF s = <<>> THEN 0 ELSE U8(Head(s)) + Bytes(Tail(s))
Find(s, c) == IF \E i \in 1..Len(s) : s[i] = c THEN CHOOSE i \in 1..Len(s) : s[i] = c /\ \A j \in 1..(i - 1) : s[j] # c ELSE 0
All(s, P(_)) == \A i \in 1..Len(s) : P(s[i])
RECURSIVE Val(_)
Val(d) == IF d = <<>> THEN 0 ELSE Val(SubSeq(d, 1, Len(d) - 1)) * 10 + (d[Len(d)] - 48)

And3(a, b) == IF a = "mustnot" \/ b = "mustnot" THEN "mustnot" ELSE IF a = "must" /\ b = "must" THEN "must" ELSE "unspec"

Port(p) == IF p = <<>> \/ Len(p) > 5 \/ ~All(p, IsDigit) THEN "mustnot" ELSE IF Val(p) <= 65535 THEN "must" ELSE "unspec"
KnownV6 == { <<58,58,49>>, <<58,58>>, <<49,50,51,52,58,53,54,55,56,58,58,97,98,99,100>> }    \* ::1  ::  1234:5678::abcd
ServerName(s) ==
  IF s = <<>> THEN "mustnot"
  ELSE IF s[1] = 91 THEN
       LET e == Find(s, 93) IN
       IF e = 0 THEN "mustnot"
       ELSE LET inner == SubSeq(s, 2, e - 1)  rest == SubSeq(s, e + 1, Len(s))
                host == IF Len(inner) < 2 \/ Len(inner) > 45 \/ ~All(inner, IsHex6) THEN "mustnot"
                        ELSE IF inner \in KnownV6 THEN "must" ELSE "unspec"
                tail == IF rest = <<>> THEN "must" ELSE IF rest[1] # 58 THEN "mustnot" ELSE Port(Tail(rest))
            IN And3(host, tail)
  ELSE LET c == Find(s, 58)  host == IF c = 0 THEN s ELSE SubSeq(s, 1, c - 1)
           hv == IF host = <<>> \/ ~All(host, IsDns) THEN "mustnot" ELSE IF Len(host) <= 255 THEN "must" ELSE "unspec"
           pv == IF c = 0 THEN "must" ELSE Port(SubSeq(s, c + 1, Len(s)))
       IN And3(hv, pv)
HostOf(s) == IF s[1] = 91 THEN SubSeq(s, 1, Find(s, 93)) ELSE IF Find(s, 58) = 0 THEN s ELSE SubSeq(s, 1, Find(s, 58) - 1)

Sigiled(s, sigil, needRec) ==      \* @localpart:server, #alias:server
  IF s = <<>> \/ s[1] # sigil THEN "mustnot"
  ELSE IF Bytes(s) > 255 THEN "mustnot"
  ELSE LET c == Find(s, 58) IN
       IF c = 0 THEN "mustnot"
       ELSE LET lp == SubSeq(s, 2, c - 1)  sv == ServerName(SubSeq(s, c + 1, Len(s)))
                lv == IF \E i \in 1..Len(lp) : lp[i] = 0 THEN "mustnot"
                      ELSE IF lp # <<>> /\ (~needRec \/ All(lp, IsLocalRec)) THEN "must" ELSE "unspec"
            IN And3(lv, sv)
UserId(s) == Sigiled(s, 64, TRUE)
RoomAliasId(s) == Sigiled(s, 35, FALSE)
RoomId(s) == IF s = <<>> \/ s[1] # 33 \/ Bytes(s) > 255 \/ (\E i \in 1..Len(s) : s[i] = 0) THEN "mustnot"
             ELSE IF Find(s, 58) > 2 /\ ServerName(SubSeq(s, Find(s, 58) + 1, Len(s))) = "must" THEN "must" ELSE "unspec"
IsKeyNameChar(c) == IsDigit(c) \/ IsLower(c) \/ IsUpper(c) \/ c = 95
\* algorithm ":" key name; strictName: the name must be a server signing key version [A-Za-z0-9_]+
KeyId(s, strictName) ==
  LET c == Find(s, 58) IN
  IF c = 0 \/ c = 1 THEN "mustnot"
  ELSE LET name == SubSeq(s, c + 1, Len(s)) IN
       IF ~strictName THEN "must"
       \* "the version must have characters matching the regular expression [a-zA-Z0-9_]"
       ELSE IF name = <<>> THEN "unspec" ELSE IF All(name, IsKeyNameChar) THEN "must" ELSE "mustnot"
MXC == <<109, 120, 99, 58, 47, 47>>
MxcUri(s) ==
  IF Len(s) < 6 \/ SubSeq(s, 1, 6) # MXC THEN "mustnot"
  ELSE LET r == SubSeq(s, 7, Len(s))  sl == Find(r, 47) IN
       IF sl = 0 THEN "mustnot"
       ELSE LET sv == ServerName(SubSeq(r, 1, sl - 1))  m == SubSeq(r, sl + 1, Len(r))
                mv == IF ~All(m, IsMedia) THEN "mustnot" ELSE IF m # <<>> THEN "must" ELSE "unspec"
            IN And3(sv, mv)
IsB64(c) == IsDigit(c) \/ IsLower(c) \/ IsUpper(c) \/ c \in {43, 47, 45, 95}
EventId(s) ==
  IF s = <<>> \/ s[1] # 36 \/ Bytes(s) > 255 \/ (\E i \in 1..Len(s) : s[i] = 0) THEN "mustnot"
  ELSE LET c == Find(s, 58) IN
       IF c = 0 THEN (IF Len(s) = 44 /\ All(Tail(s), IsB64) THEN "must" ELSE "unspec")
       ELSE And3(IF c > 2 THEN "must" ELSE "unspec", ServerName(SubSeq(s, c + 1, Len(s))))
RoomOrAliasId(s) == IF s = <<>> THEN "mustnot" ELSE IF s[1] = 35 THEN RoomAliasId(s) ELSE IF s[1] = 33 THEN RoomId(s) ELSE "mustnot"
IsVersionChar(c) == IsDigit(c) \/ IsLower(c) \/ IsUpper(c) \/ c = 45 \/ c = 46
RoomVersionId(s) == IF s = <<>> \/ Len(s) > 32 THEN "mustnot" ELSE IF All(s, IsVersionChar) THEN "must" ELSE "unspec"

\* client secrets and session IDs: [0-9a-zA-Z.=_-]{1,255}
IsSecretChar(c) == IsDigit(c) \/ IsLower(c) \/ IsUpper(c) \/ c \in {46, 61, 95, 45}
OpaqueToken(s) == IF s = <<>> \/ Bytes(s) > 255 \/ ~All(s, IsSecretChar) THEN "mustnot" ELSE "must"
\* a public key used as a key name: unpadded base64; padding and the URL-safe alphabet are left open, anything else is not base64
Base64Key(s) == IF s = <<>> THEN "mustnot"
                ELSE IF All(s, LAMBDA c : IsDigit(c) \/ IsLower(c) \/ IsUpper(c) \/ c \in {43, 47}) THEN "must"
                ELSE IF All(s, LAMBDA c : IsDigit(c) \/ IsLower(c) \/ IsUpper(c) \/ c \in {43, 47, 61, 45, 95}) THEN "unspec"
                ELSE "mustnot"
Verdict(kind, s) ==
  CASE kind = "server" -> ServerName(s)
    [] kind = "user" -> UserId(s)
    [] kind = "alias" -> RoomAliasId(s)
    [] kind = "room" -> RoomId(s)
    [] kind = "roomoralias" -> RoomOrAliasId(s)
    [] kind = "event" -> EventId(s)
    [] kind = "serverkey" -> KeyId(s, TRUE)
    [] kind = "devicekey" -> KeyId(s, FALSE)
    [] kind = "mxc" -> MxcUri(s)
    [] kind = "version" -> RoomVersionId(s)
    [] kind \in {"clientsecret", "sessionid"} -> OpaqueToken(s)
    [] kind = "b64key" -> Base64Key(s)

(* components of an accepted identifier (used to check the accessors); positions are 1-based *)
ColonPos(s) == Find(s, 58)
PortOf(sn) ==     \* <<>> when there is no port
  IF sn = <<>> THEN <<>>
  ELSE IF sn[1] = 91 THEN LET e == Find(sn, 93) IN IF e = 0 \/ e = Len(sn) THEN <<>> ELSE SubSeq(sn, e + 2, Len(sn))
  ELSE LET c == Find(sn, 58) IN IF c = 0 THEN <<>> ELSE SubSeq(sn, c + 1, Len(sn))
==============================================================================

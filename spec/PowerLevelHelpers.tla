------------------------- MODULE PowerLevelHelpers -------------------------
(* Client-side power-level helper predicates (ruma_events RoomPowerLevels) as  *)
(* documented, stated over the power-levels record of EventAuth.tla, and the    *)
(* authorization question each one stands for.                                  *)
EXTENDS EventAuth

HField(pl, f) == IF pl[f].k = "absent" THEN DefaultOf(f) ELSE pl[f].n
HForUser(pl, u) == IF u \in DOMAIN pl.users THEN pl.users[u].n ELSE HField(pl, "users_default")
HForMessage(pl, t) == IF t \in DOMAIN pl.events THEN pl.events[t].n ELSE HField(pl, "events_default")
\* "the power level required to send the given state event type": m.room.third_party_invite is authorized by the invite level
\* alone (rule 7 comes before the rule that looks the type up in `events`)
HForState(pl, t) == IF t = "m.room.third_party_invite" THEN HField(pl, "invite")
                    ELSE IF t \in DOMAIN pl.events THEN pl.events[t].n ELSE HField(pl, "state_default")
HNotifRoom(pl) == IF "room" \in DOMAIN pl.notifications THEN pl.notifications["room"].n ELSE 50

HCanBanUser(pl, a, t) == HForUser(pl, a) >= HField(pl, "ban") /\ HForUser(pl, t) < HForUser(pl, a)
HCanKickUser(pl, a, t) == HForUser(pl, a) >= HField(pl, "kick") /\ HForUser(pl, t) < HForUser(pl, a)
HCanUnbanUser(pl, a, t) == /\ HForUser(pl, a) >= HField(pl, "ban") /\ HForUser(pl, a) >= HField(pl, "kick")
                           /\ HForUser(pl, t) < HForUser(pl, a)
HCanInvite(pl, a) == HForUser(pl, a) >= HField(pl, "invite")
HCanSendMessage(pl, a, t) == HForUser(pl, a) >= HForMessage(pl, t)
HCanSendState(pl, a, t) == HForUser(pl, a) >= HForState(pl, t)
HCanNotifyRoom(pl, a) == HForUser(pl, a) >= HNotifRoom(pl)

\* the push condition sender_notification_permission("room") of the client-server spec
NotifPermission(pl, sender) == HForUser(pl, sender) >= HNotifRoom(pl)
=============================================================================

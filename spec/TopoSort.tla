------------------------------ MODULE TopoSort ------------------------------
(* Lexicographical topological sort (Kahn) used by state resolution:         *)
(* every node once, dependencies first, and among the ready nodes always the *)
(* one with the greatest power level, then the earliest timestamp, then the  *)
(* smallest event id.                                                        *)
EXTENDS Integers, Sequences, FiniteSets

\* deps : [Nodes -> SUBSET Nodes] (acyclic), power, ts, idrank : [Nodes -> Int]
Before(x, y, power, ts, idrank) ==
  \/ power[x] > power[y]
  \/ power[x] = power[y] /\ ts[x] < ts[y]
  \/ power[x] = power[y] /\ ts[x] = ts[y] /\ idrank[x] < idrank[y]

RECURSIVE Sorted(_, _, _, _, _, _)
Sorted(done, todo, deps, power, ts, idrank) ==
  IF todo = {} THEN done
  ELSE LET ready == {i \in todo : deps[i] \cap todo = {}}
           m == CHOOSE i \in ready : \A j \in ready \ {i} : Before(i, j, power, ts, idrank)
       IN Sorted(Append(done, m), todo \ {m}, deps, power, ts, idrank)

Pos(s, x) == CHOOSE i \in 1..Len(s) : s[i] = x
IsPermutation(s, Nodes) == Len(s) = Cardinality(Nodes) /\ {s[i] : i \in 1..Len(s)} = Nodes
DepsFirst(s, deps) == \A i \in 1..Len(s) : \A d \in deps[s[i]] : Pos(s, d) < i
\* at every step the emitted node is the minimum of the nodes that were ready
GreedyMin(s, deps, power, ts, idrank) ==
  \A i \in 1..Len(s) :
     LET emitted == {s[j] : j \in 1..(i - 1)}
         ready == {x \in {s[j] : j \in i..Len(s)} : deps[x] \subseteq emitted}
     IN \A y \in ready \ {s[i]} : Before(s[i], y, power, ts, idrank)
=============================================================================

------------------------------ MODULE Trace_C11 ------------------------------
(* impl -> spec: every URI text the real code produced for a value must be    *)
(* decoded to that value by the independent receiver SpecParse, and the real  *)
(* parser must have returned the same value and re-formatted identically.     *)
EXTENDS MatrixUri, Json, IOUtils, TLC

Rec == ndJsonDeserialize(IOEnv.TRACE)
VARIABLE i
Init == i \in 1..Len(Rec)
Next == UNCHANGED i
SameValue(a, b) == /\ a.form = b.form /\ a.kind = b.kind /\ a.id = b.id /\ a.ev = b.ev /\ a.via = b.via
                   /\ a.action = b.action /\ a.custom = b.custom
Agrees(r) == /\ Encodes(r.text, r.v) /\ r.parse_ok /\ r.same_value /\ r.same_text /\ SameValue(r.pv, r.v)
Check == Agrees(Rec[i]) \/ PrintT(<<"MISMATCH", i>>)
=============================================================================

------------------------------- MODULE MC_C11 -------------------------------
(* C11: every URI value over identifiers containing reserved, percent and      *)
(* non-ASCII characters x 0..2 via servers x every action, in both forms.      *)
EXTENDS MatrixUri, Json, TLC
UserIds == {<<64,97,58,115,46,99,111>>, <<64,97,47,98,58,115,46,99,111>>, <<64,97,37,98,58,115,46,99,111>>, <<64,97,37,52,49,58,115,46,99,111>>, <<64,97,63,98,58,115,46,99,111>>, <<64,97,35,98,58,115,46,99,111>>, <<64,97,32,98,58,115,46,99,111>>, <<64,233,58,115,46,99,111>>, <<64,97,43,98,38,99,61,100,58,115,46,99,111>>, <<64,128512,58,91,58,58,49,93,58,56,48>>, <<64,97,58,115,46,99,111,58,56,52,52,56>>}
RoomIds == {<<33>>, <<33,114,58,115,46,99,111>>, <<33,114,47,120,37,50,70,58,115,46,99,111>>, <<33,110,111,100,111,109,97,105,110>>, <<33,97,63,98,35,99,58,115,46,99,111>>, <<33,233,58,115,46,99,111>>}
AliasIds == {<<35,97,58,115,46,99,111>>, <<35,97,35,98,32,63,58,115,46,99,111>>, <<35,97,47,98,37,58,115,46,99,111>>, <<35,233,58,115,46,99,111>>}
EventIds == {<<36>>, <<36,101,58,115,46,99,111>>, <<36,97,99,82,49,88,98,74,47,69,69,119,43,106,72,75,87,103,120,71,82,114,115,109,66,79,116,78,113,115,67,100,120,90,120,51,73,52,65,88,78,100,75,119>>, <<36,101,37,50,70,58,115,46,99,111>>, <<36,101,63,120,61,121,38,122,58,115,46,99,111>>, <<36,233,58,115,46,99,111>>}
ViaServers == {<<115,46,99,111>>, <<91,58,58,49,93,58,56,48>>, <<97,45,98,46,99,58,56,52,52,56>>}
Customs == {<<97,38,98>>, <<97,32,98>>, <<97,37,50,54,98>>, <<233>>, <<97,43,98>>, <<97,61,98,35,99>>, <<>>, <<106,111,105,110,50>>, <<74,79,73,78>>}

Vias == {<<>>} \cup {<<a>> : a \in ViaServers} \cup {<<a, b>> : a \in ViaServers, b \in ViaServers}
Actions == {[k |-> "none", s |-> <<>>], [k |-> "join", s |-> <<>>], [k |-> "chat", s |-> <<>>]} \cup {[k |-> "custom", s |-> c] : c \in Customs}

VARIABLES phase, val
Forms == {"matrix_to", "matrix"}
Init == phase = 0 /\ \E f \in Forms, kind \in {"user", "room", "alias", "event_room", "event_alias"} :
           val = [form |-> f, kind |-> kind, id |-> <<>>, ev |-> <<>>, via |-> <<>>, action |-> "none", custom |-> <<>>]
Next == /\ phase = 0 /\ phase' = 1
        /\ \E id \in (CASE val.kind = "user" -> UserIds [] val.kind \in {"room", "event_room"} -> RoomIds [] OTHER -> AliasIds),
              ev \in (IF val.kind \in {"event_room", "event_alias"} THEN EventIds ELSE {<<>>}), via \in Vias, a \in Actions :
             /\ (val.form = "matrix_to" => a.k = "none")
             /\ val' = [val EXCEPT !.id = id, !.ev = ev, !.via = via, !.action = a.k, !.custom = a.s]

\* ---- a reference encoder: escape every byte except unreserved characters; it round-trips (model theorem)
Unreserved(b) == (b >= 48 /\ b <= 57) \/ (b >= 65 /\ b <= 90) \/ (b >= 97 /\ b <= 122) \/ b \in {45, 46, 95, 126}
HexDigit(n) == IF n < 10 THEN 48 + n ELSE 55 + n
RECURSIVE Enc(_)
Enc(bs) == IF bs = <<>> THEN <<>> ELSE (IF Unreserved(Head(bs)) THEN <<Head(bs)>> ELSE <<37, HexDigit(Head(bs) \div 16), HexDigit(Head(bs) % 16)>>) \o Enc(Tail(bs))
RECURSIVE Query(_, _)
Query(items, first) == IF items = <<>> THEN <<>> ELSE <<IF first THEN 63 ELSE 38>> \o items[1] \o Query(Tail(items), FALSE)
RefEncode(v) ==
  LET q == Query([i \in 1..Len(v.via) |-> KVIA \o <<61>> \o Enc(Bytes(v.via[i]))]
                 \o (IF v.action = "none" THEN <<>> ELSE <<KACTION \o <<61>> \o
                        (IF v.action = "join" THEN JOIN ELSE IF v.action = "chat" THEN CHAT ELSE Enc(Bytes(v.custom)))>>), TRUE)
  IN IF v.form = "matrix_to"
     THEN MATRIXTO \o Enc(Bytes(v.id)) \o (IF v.ev = <<>> THEN <<>> ELSE <<47>> \o Enc(Bytes(v.ev))) \o q
     ELSE MATRIXSCHEME \o (CASE v.id[1] = 64 -> <<117>> [] v.id[1] = 35 -> <<114>> [] OTHER -> <<114,111,111,109,105,100>>)
          \o <<47>> \o Enc(Bytes(Tail(v.id))) \o (IF v.ev = <<>> THEN <<>> ELSE <<47, 101, 47>> \o Enc(Bytes(Tail(v.ev)))) \o q
\* an empty custom action cannot be told from a missing value by any receiver: not a constructible value
\* ... and an identifier that consists of its sigil only has no text in the matrix: form (an empty path segment): the identifier
\* parsers must not produce one
BareSigil(v) == Len(v.id) = 1 \/ Len(v.ev) = 1
Constructible(v) == ~(v.action = "custom" /\ v.custom = <<>>) /\ ~BareSigil(v)
ThmRefEncodeRoundTrips == (phase = 1 /\ Constructible(val)) => Encodes(RefEncode(val), val)

Emit == phase = 1 => PrintT(<<"CASE", ToJson([v |-> val, ok |-> Constructible(val), bare |-> BareSigil(val), ref |-> RefEncode(val)])>>)
=============================================================================

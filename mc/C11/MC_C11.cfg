INIT Init
NEXT Next
INVARIANT ThmRefEncodeRoundTrips
INVARIANT Emit
CHECK_DEADLOCK FALSE

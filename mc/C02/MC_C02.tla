------------------------------- MODULE MC_C02 -------------------------------
(* All behaviours of <= MaxDepth steps of sign / tamper / drop / corrupt on one *)
(* object with 2 entities and 2 key pairs; in every reachable state every      *)
(* sign_json call and a family of verify_json calls are emitted with the       *)
(* outcome the specification prescribes (one implementation test per call).    *)
EXTENDS Signing, Json, TLC

CONSTANT MaxDepth
Unsigned == {"absent", "u0", "u1"}

VARIABLES obj, depth
vars == <<obj, depth>>
Init == obj = [payload |-> "p0", unsigned |-> "absent", sigs |-> NoSigs] /\ depth = 0

Other(p) == IF p = "p0" THEN "p1" ELSE "p0"
SetEnt(e, ent) == obj' = [obj EXCEPT !.sigs.m[e] = ent]
Next ==
  /\ depth < MaxDepth /\ depth' = depth + 1
  /\ \/ \E e \in Entities, k \in Keys : obj' = SignResult(obj, e, k).obj
     \/ obj' = [obj EXCEPT !.payload = Other(obj.payload)]                              \* TamperPayload
     \/ \E u \in Unsigned : obj' = [obj EXCEPT !.unsigned = u]                           \* TamperUnsigned
     \/ \E e \in Entities, k \in Keys :                                                 \* FlipSigBit / DropSig
          /\ obj.sigs.kind = "map" /\ obj.sigs.m[e].kind = "map" /\ obj.sigs.m[e].slots[k].present
          /\ \/ SetEnt(e, [obj.sigs.m[e] EXCEPT !.slots[k].intact = FALSE])
             \/ SetEnt(e, [obj.sigs.m[e] EXCEPT !.slots[k] = NoSlot])
     \/ \E e \in Entities : /\ obj.sigs.kind = "map" /\ obj.sigs.m[e].kind = "map"      \* AddUnknownAlgSig
                            /\ SetEnt(e, [obj.sigs.m[e] EXCEPT !.alien = TRUE])
     \/ \E e \in Entities : /\ obj.sigs.kind = "map"                                     \* corrupt one entity entry
                            /\ SetEnt(e, [EmptyEntity EXCEPT !.kind = "bad"])
     \/ \E e \in Entities : /\ obj.sigs.kind \in {"absent", "map"}                       \* entity with only an unknown-algorithm signature
                            /\ obj.sigs.m[e].kind = "absent"
                            /\ obj' = [obj EXCEPT !.sigs = [kind |-> "map", m |-> [obj.sigs.m EXCEPT ![e] = [EmptyEntity EXCEPT !.kind = "map", !.alien = TRUE]]]]
     \/ obj' = [obj EXCEPT !.sigs = [kind |-> "bad", m |-> NoSigs.m]]                    \* `signatures` not an object
     \/ /\ obj.sigs.kind = "absent" /\ obj' = [obj EXCEPT !.sigs = [kind |-> "map", m |-> NoSigs.m]]   \* empty `signatures`

\* verifier key configurations: all right, and every single slot wrong / missing
WrongKey(k) == CHOOSE k2 \in Keys : k2 # k
KeyCfgs == {AllRight} \cup {[AllRight EXCEPT ![e][k] = x] : e \in Entities, k \in Keys, x \in {"missing", "wrong"}}
Concrete(cfg) == [e \in Entities |-> [k \in Keys |-> IF cfg[e][k] = "wrong" THEN WrongKey(k) ELSE cfg[e][k]]]

ThmSignThenVerify == \A e \in Entities, k \in Keys : SignThenVerify(obj, e, k)
ThmSoundness == \A cfg \in KeyCfgs : Soundness(obj, Concrete(cfg))
ThmKeepsOthers == \A e \in Entities, k \in Keys : KeepsOthers(obj, e, k)
ThmUnsigned == \A cfg \in KeyCfgs, u \in Unsigned : UnsignedIrrelevant(obj, Concrete(cfg), u)

Emit ==
  /\ \A e \in Entities, k \in Keys :
       LET r == SignResult(obj, e, k) IN
       PrintT(<<"CASE", ToJson([call |-> "sign", pre |-> obj, entity |-> e, key |-> k, res |-> r.res, post |-> r.obj])>>)
  /\ \A cfg \in KeyCfgs :
       PrintT(<<"CASE", ToJson([call |-> "verify", pre |-> obj, keys |-> Concrete(cfg), outcomes |-> VerifyOutcomes(obj, Concrete(cfg))])>>)
=============================================================================

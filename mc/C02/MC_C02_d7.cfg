INIT Init
NEXT Next
CONSTANT Entities = {"e1.example", "e2.example"}
CONSTANT Keys = {"1", "2"}
CONSTANT Payloads = {"p0", "p1"}
CONSTANT MaxDepth = 7
INVARIANT ThmSignThenVerify
INVARIANT ThmSoundness
INVARIANT ThmKeepsOthers
INVARIANT ThmUnsigned
INVARIANT Emit
CHECK_DEADLOCK FALSE

------------------------------ MODULE Trace_C08 ------------------------------
(* impl -> spec for C08: randomised concrete (room version, state, event)      *)
(* triples, generated outside the abstraction of MC_C08 (levels anywhere,      *)
(* several power-level fields and map entries at once, arbitrary combinations  *)
(* of memberships, join rules and candidate events).  Every recorded verdict   *)
(* of ruma's auth_check must be the verdict of EventAuth!Auth, unless the      *)
(* specification leaves the case open.                                         *)
EXTENDS EventAuth, Json, IOUtils

Rec == ndJsonDeserialize(IOEnv.TRACE)
VARIABLE i
Init == i \in 1..Len(Rec)
Next == UNCHANGED i

Range(s) == {s[j] : j \in 1..Len(s)}
ToV(x) == [k |-> x.k, n |-> x.n]
ToMap(l) == [u \in {x.u : x \in Range(l)} |-> ToV(CHOOSE x \in Range(l) : x.u = u)]
FieldOf(p, f) == ToV(CHOOSE x \in Range(p.fields) : x.f = f)
ToPL(p) == [users_default |-> FieldOf(p, "users_default"), events_default |-> FieldOf(p, "events_default"),
            state_default |-> FieldOf(p, "state_default"), ban |-> FieldOf(p, "ban"), redact |-> FieldOf(p, "redact"),
            kick |-> FieldOf(p, "kick"), invite |-> FieldOf(p, "invite"),
            users |-> ToMap(p.users), events |-> ToMap(p.events), notifications |-> ToMap(p.notifications),
            userkeysvalid |-> p.userkeysvalid]
ToEv(j) ==
  [id |-> j.id, type |-> j.type, sender |-> U(j.sender, j.sserver), haskey |-> j.haskey, key |-> j.key, keyisuser |-> j.keyisuser,
   target |-> U(j.target, j.tserver), targetvalid |-> j.targetvalid, prev |-> Range(j.prev), auth |-> Range(j.auth),
   roomserver |-> j.roomserver, idserver |-> j.idserver,
   c |-> [membership |-> j.membership, jauth |-> U(j.jauth, j.jserver),
          tpi |-> [present |-> j.tpi.present, signed |-> j.tpi.signed, hasmxid |-> j.tpi.hasmxid, hastoken |-> j.tpi.hastoken,
                   mxid |-> U(j.tpi.mxid, j.tpi.mxidserver), token |-> j.tpi.token, sigkey |-> j.tpi.sigkey],
          hascreator |-> j.hascreator, creator |-> U(j.creator, j.cserver), federate |-> j.federate, join_rule |-> j.join_rule,
          pl |-> ToPL(j.pl), redactsserver |-> j.redactsserver,
          tpikeys |-> [top |-> j.tpitop, list |-> Range(j.tpilist)]]]
StateOfRec(r) == LET evs == {ToEv(x) : x \in Range(r.st)} IN
                 [k \in {K(x.type, x.key) : x \in evs} |-> CHOOSE x \in evs : K(x.type, x.key) = k]
Verdict(r) == Auth(StateOfRec(r), ToEv(r.e), RV(r.v))
Agrees(r) == LET a == Verdict(r) IN a[1] = "unspec" \/ a[1] = r.out
Check == Agrees(Rec[i]) \/ PrintT(<<"MISMATCH", i, Verdict(Rec[i])>>)
\* coverage: how many records the specification decides
Decided == Verdict(Rec[i])[1] # "unspec" \/ PrintT(<<"UNSPEC", i>>)
=============================================================================

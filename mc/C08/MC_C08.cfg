INIT Init
NEXT Next
INVARIANT ThmNonInterference
INVARIANT ThmWellFormed
INVARIANT Emit
CHECK_DEADLOCK FALSE

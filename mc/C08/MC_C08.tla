------------------------------- MODULE MC_C08 -------------------------------
(* Stratified exhaustive enumeration of (room version, state, candidate event)  *)
(* triples for the authorization rules (C08), the auth-event selection and the  *)
(* non-interference theorem (C09).  Each stratum fixes the early rules to       *)
(* "pass" and varies one rule family exhaustively over the comparisons it makes. *)
(* Two-level enumeration: Init = stratum x version, Next expands the stratum.    *)
EXTENDS EventAuth, Json, SequencesExt

S1 == "s1"
S2 == "s2"
UC == U("@c:s1", S1)    \* room creator
UA == U("@a:s1", S1)
UB == U("@b:s1", S1)
UR == U("@r:s2", S2)    \* user on another server
UZ == U("@z:s1", S1)    \* bystander, never selected

NoTpi == [present |-> FALSE, signed |-> FALSE, hasmxid |-> FALSE, hastoken |-> FALSE, mxid |-> NoUser,
          token |-> "", sigkey |-> ""]
EmptyPL == [users_default |-> AbsentV, events_default |-> AbsentV, state_default |-> AbsentV, ban |-> AbsentV,
            redact |-> AbsentV, kick |-> AbsentV, invite |-> AbsentV,
            users |-> <<>>, events |-> <<>>, notifications |-> <<>>, userkeysvalid |-> TRUE]
C0 == [membership |-> "absent", jauth |-> NoUser, tpi |-> NoTpi, hascreator |-> TRUE, creator |-> UC,
       federate |-> TRUE, join_rule |-> "absent", pl |-> EmptyPL, redactsserver |-> "",
       tpikeys |-> [top |-> "k8", list |-> {"k7"}]]

Ev(id, type, sender, haskey, key, c) ==
  [id |-> id, type |-> type, sender |-> sender, haskey |-> haskey, key |-> key, keyisuser |-> FALSE,
   target |-> NoUser, targetvalid |-> TRUE, prev |-> {"$p"}, auth |-> {"$create"}, roomserver |-> S1,
   idserver |-> sender.server, c |-> c]

CreateEv(fed) == [Ev("$create", "m.room.create", UC, TRUE, "", [C0 EXCEPT !.federate = fed])
                    EXCEPT !.prev = {}, !.auth = {}]
MemberBy(sender, u, m) == [Ev("$m" \o u.name, "m.room.member", sender, TRUE, u.name, [C0 EXCEPT !.membership = m])
                             EXCEPT !.keyisuser = TRUE, !.target = u]
MemberEv(u, m) == MemberBy(u, u, m)
JoinRulesEv(jr) == Ev("$jr", "m.room.join_rules", UC, TRUE, "", [C0 EXCEPT !.join_rule = jr])
PLEv(pl) == Ev("$pl", "m.room.power_levels", UC, TRUE, "", [C0 EXCEPT !.pl = pl])
TpiEv(token, sender) == Ev("$tpi", "m.room.third_party_invite", sender, TRUE, token, C0)
TopicEv == Ev("$topic", "m.room.topic", UC, TRUE, "", C0)

StateOf(evs) == [k \in {K(x.type, x.key) : x \in evs} |-> CHOOSE x \in evs : K(x.type, x.key) = k]

Memberships == {"absent", "join", "invite", "leave", "ban", "knock"}
JoinRules == {"public", "invite", "knock", "restricted", "knock_restricted", "org.custom", "absent"}

\* member events for a membership assignment (absent = no event)
Members(f) == {MemberEv(u, f[u]) : u \in {x \in DOMAIN f : f[x] # "absent"}}
JR(jr) == IF jr = "absent" THEN {} ELSE {JoinRulesEv(jr)}
\* entries that are never selected for the candidate events below: make non-interference non-vacuous
Bystanders == {MemberEv(UZ, "ban"), TopicEv}

One(k, v) == [x \in {k} |-> v]
PLUsers(us) == [EmptyPL EXCEPT !.users = us]
Thr == {AbsentV, IntV(50), IntV(51)}
Levels == {49, 50, 51}

(* ------------------------------------------------------------------------ *)
Strata == {"create", "early", "join", "invite", "invite3p", "leaveself", "kick", "ban", "knock", "other3p", "badmember",
           "generic", "tpievent", "plscalar", "plmaps", "plkinds", "redaction", "aliastype"}

VARIABLES phase, stratum, v, evs, e
vars == <<phase, stratum, v, evs, e>>

Dummy == Ev("$none", "none", NoUser, FALSE, "", C0)
Init == /\ phase = 0 /\ stratum \in Strata /\ v \in Versions /\ evs = {} /\ e = Dummy

Base == {CreateEv(TRUE)} \cup Bystanders
Msg(u) == Ev("$e", "m.room.message", u, FALSE, "", C0)

\* ---- create
NextCreate ==
  \E pv \in {{}, {"$x"}}, rs \in {S1, S2}, hc \in BOOLEAN, ck \in {"empty", "x", "nokey"} :
     /\ evs' = {}
     \* neither the rules for m.room.create nor the selection ("for m.room.create: none") look at the state key
     /\ e' = [CreateEv(TRUE) EXCEPT !.id = "$e", !.prev = pv, !.roomserver = rs, !.c.hascreator = hc,
                                    !.haskey = ck # "nokey", !.key = IF ck = "x" THEN "x" ELSE ""]

\* ---- early rules 2.4, 3, 4
NextEarly ==
  \E kind \in {"nocreate", "createnotinauth", "fed", "aliases"} :
    \/ /\ kind = "nocreate"
       /\ evs' = Bystanders \cup {MemberEv(UA, "join")}
       /\ e' \in {Msg(UA), [MemberBy(UA, UB, "invite") EXCEPT !.id = "$e"]}
    \/ /\ kind = "createnotinauth"
       /\ evs' = Base \cup {MemberEv(UA, "join")}
       /\ e' \in {[Msg(UA) EXCEPT !.auth = {}], [Msg(UA) EXCEPT !.auth = {"$pl", "$m@a:s1"}]}
    \/ /\ kind = "fed"
       /\ \E fed \in BOOLEAN, u \in {UA, UR}, ty \in {"msg", "member", "aliases"} :
            /\ evs' = {CreateEv(fed)} \cup Bystanders \cup {MemberEv(u, "join")}
            /\ e' = CASE ty = "msg" -> Msg(u)
                      [] ty = "member" -> [MemberEv(u, "leave") EXCEPT !.id = "$e"]
                      [] ty = "aliases" -> Ev("$e", "m.room.aliases", u, TRUE, u.server, C0)
    \/ /\ kind = "aliases"
       /\ \E u \in {UA, UR}, key \in {"s1", "s2", "", "nokey"}, sm \in {"join", "leave"} :
            /\ evs' = Base \cup Members(One(u, sm))
            /\ e' = Ev("$e", "m.room.aliases", u, key # "nokey", IF key = "nokey" THEN "" ELSE key, C0)

\* ---- join
JauthCfgs == {"none", "ok", "oknopl", "lowlevel", "notjoined", "nomember"}
NextJoin ==
  \E who \in {UC, UA}, pv \in {"create", "other", "none", "both"}, self \in BOOLEAN, cur \in Memberships \cup {"org.other"},
     jr \in JoinRules, ja \in JauthCfgs :
     LET sender == IF self THEN who ELSE UB
         jauthUser == IF ja = "none" THEN NoUser ELSE UB
         jm == CASE ja \in {"ok", "oknopl", "lowlevel"} -> "join" [] ja = "notjoined" -> "leave" [] OTHER -> "absent"
         pl == CASE ja = "ok" -> {PLEv([PLUsers(One(UB.name, IntV(50))) EXCEPT !.invite = IntV(50)])}
                 [] ja = "lowlevel" -> {PLEv([PLUsers(One(UB.name, IntV(49))) EXCEPT !.invite = IntV(50)])}
                 [] OTHER -> {}
         mem == (IF cur = "absent" THEN {} ELSE {MemberEv(who, cur)})
                \cup (IF ~self THEN {MemberEv(UB, "join")}
                      ELSE IF jm = "absent" THEN {} ELSE {MemberEv(UB, jm)})
     IN /\ (~self => ja = "none")
        /\ (pv \in {"none", "both"} => ja = "none")     \* "the only previous event is the create event": no, one other, none, two
        /\ evs' = Base \cup mem \cup pl \cup JR(jr)
        /\ e' = [MemberBy(sender, who, "join") EXCEPT !.id = "$e", !.c.jauth = jauthUser,
                                                     !.prev = CASE pv = "create" -> {"$create"} [] pv = "other" -> {"$p"}
                                                                [] pv = "none" -> {} [] OTHER -> {"$create", "$p"}]

\* ---- invite (ordinary)
LevelCfgs == {<<"nopl-creator">>, <<"nopl-other">>} \cup {"users", "default"} \X Levels \X {AbsentV, IntV(50)}
NextInvite ==
  \E sm \in Memberships, tm \in Memberships, lc \in LevelCfgs :
     LET sender == IF lc[1] = "nopl-creator" THEN UC ELSE UA
         pl == IF lc[1] \in {"nopl-creator", "nopl-other"} THEN {}
               ELSE IF lc[1] = "users" THEN {PLEv([PLUsers(One(sender.name, IntV(lc[2]))) EXCEPT !.invite = lc[3]])}
               ELSE {PLEv([EmptyPL EXCEPT !.users_default = IntV(lc[2]), !.invite = lc[3]])}
     IN /\ evs' = Base \cup Members(One(sender, sm)) \cup Members(One(UB, tm)) \cup pl \cup JR("invite")
        /\ e' = [MemberBy(sender, UB, "invite") EXCEPT !.id = "$e"]

\* ---- invite created from a third-party invite
NextInvite3p ==
  \E sm \in {"join", "leave"}, tm \in {"absent", "ban", "join"}, sg \in BOOLEAN, hm \in BOOLEAN, ht \in BOOLEAN,
     mm \in BOOLEAN, te \in {"same", "othersender", "absent", "othertoken"}, sk \in {"k7", "k8", "k9"}, kl \in SUBSET {"k7", "k8"} :
     LET tpi == [present |-> TRUE, signed |-> sg, hasmxid |-> sg /\ hm, hastoken |-> sg /\ ht,
                 mxid |-> IF sg /\ hm THEN (IF mm THEN UB ELSE UZ) ELSE NoUser,
                 token |-> IF sg /\ ht THEN "tok" ELSE "", sigkey |-> IF sg THEN sk ELSE ""]
         tev == CASE te = "same" -> {[TpiEv("tok", UA) EXCEPT !.c.tpikeys.list = kl]} [] te = "othersender" -> {TpiEv("tok", UC)}
                  [] te = "othertoken" -> {TpiEv("tok2", UA)} [] OTHER -> {}
     IN /\ (~sg => (hm /\ ht /\ mm /\ sk = "k9"))      \* no signed object: the sub-fields do not exist
        /\ (te # "same" => kl = {"k7"})               \* the key list matters only for the event that is looked up
        /\ evs' = Base \cup Members(One(UA, sm)) \cup Members(One(UB, tm)) \cup tev \cup JR("invite")
        /\ e' = [MemberBy(UA, UB, "invite") EXCEPT !.id = "$e", !.c.tpi = tpi]

\* ---- leave: own membership
NextLeaveSelf ==
  \E sm \in Memberships \cup {"org.other"}, u \in {UA, UC} :
     /\ evs' = Base \cup Members(One(u, sm)) \cup JR("invite")
     /\ e' = [MemberEv(u, "leave") EXCEPT !.id = "$e"]

\* ---- leave: kick / unban, and ban
KickNoPL == {"nopl"} \X {UC, UA} \X {UC, UB}
KickPL == {"pl"} \X Levels \X {-1, 0, 1} \X Thr \X Thr \X {"users", "default"}
PLFor(cfg, sender, target) ==
  IF cfg[1] = "nopl" THEN {}
  ELSE LET sl == cfg[2]  tl == cfg[2] + cfg[3] IN
       {PLEv([(IF cfg[6] = "users" THEN PLUsers(One(sender.name, IntV(sl)) @@ One(target.name, IntV(tl)))
               ELSE [PLUsers(One(sender.name, IntV(sl))) EXCEPT !.users_default = IntV(tl)])
              EXCEPT !.ban = cfg[4], !.kick = cfg[5]])}
KickWith(cfg) ==
  \E sm \in {"join", "leave", "invite"}, tm \in Memberships \cup {"org.other"}, mship \in {"leave", "ban"} :
     LET sender == IF cfg[1] = "nopl" THEN cfg[2] ELSE UA
         target == IF cfg[1] = "nopl" THEN cfg[3] ELSE UB
     IN /\ sender # target
        \* a sender who is not joined is rejected before any level is compared: one representative configuration
        /\ IF sm # "join" /\ cfg[1] = "pl" THEN cfg[2] = 50 /\ cfg[3] = -1 /\ cfg[4] = AbsentV /\ cfg[5] = IntV(50) ELSE TRUE
        /\ evs' = Base \cup Members(One(sender, sm)) \cup Members(One(target, tm)) \cup PLFor(cfg, sender, target) \cup JR("public")
        /\ e' = [MemberBy(sender, target, mship) EXCEPT !.id = "$e"]
NextKick == (\E cfg \in KickNoPL : KickWith(cfg)) \/ (\E cfg \in KickPL : KickWith(cfg))

\* ---- knock
NextKnock ==
  \E jr \in JoinRules, self \in BOOLEAN, sm \in Memberships \cup {"org.other"} :
     /\ evs' = Base \cup Members(One(UA, sm)) \cup Members(One(UB, "leave")) \cup JR(jr)
     /\ e' = [MemberBy(UA, IF self THEN UA ELSE UB, "knock") EXCEPT !.id = "$e"]

\* ---- a third_party_invite object on member events that are NOT invites: neither the rules nor the selection look at it
Tpis3 == { [present |-> TRUE, signed |-> FALSE, hasmxid |-> FALSE, hastoken |-> FALSE, mxid |-> NoUser, token |-> "", sigkey |-> ""],
           [present |-> TRUE, signed |-> TRUE, hasmxid |-> TRUE, hastoken |-> TRUE, mxid |-> UB, token |-> "tok", sigkey |-> "k7"],
           [present |-> TRUE, signed |-> TRUE, hasmxid |-> FALSE, hastoken |-> FALSE, mxid |-> NoUser, token |-> "", sigkey |-> ""] }
NextOther3p ==
  \E t \in Tpis3, m \in {"join", "leave", "ban", "knock"}, jr \in {"public", "invite", "knock"}, sm \in {"join", "leave", "invite"} :
     LET target == IF m = "ban" THEN UB ELSE UA IN
     /\ evs' = Base \cup Members(One(UA, sm)) \cup (IF target = UB THEN Members(One(UB, "join")) ELSE {}) \cup JR(jr)
                \cup {PLEv(PLUsers(One(UA.name, IntV(50))))}
     /\ e' = [MemberBy(UA, target, m) EXCEPT !.id = "$e", !.c.tpi = t]

\* ---- malformed / unknown membership events
NextBadMember ==
  \E m \in {"absent", "org.other", "join"}, hk \in BOOLEAN :
     /\ evs' = Base \cup Members(One(UA, "join")) \cup JR("public")
     /\ e' = [MemberEv(UA, m) EXCEPT !.id = "$e", !.haskey = hk, !.key = IF hk THEN UA.name ELSE ""]

\* ---- required power level for the event type, sender membership, state keys naming users
GenericPL == {<<"nopl-creator">>, <<"nopl-other">>}
             \cup {"pl"} \X {"users", "default"} \X {AbsentV, IntV(49), IntV(50), IntV(51)}   \* events[type]
                         \X {AbsentV, IntV(49), IntV(51)}                                       \* events_default
                         \X {AbsentV, IntV(49), IntV(51)}                                       \* state_default
NextGeneric ==
  \E ty \in {"msg", "state", "ownkey", "otherkey", "plainkey", "custom"}, sm \in Memberships, g \in GenericPL,
     sl \in {50, 49, 0} :       \* at / just below the defaults 50 and 0, so that an absent field differs from a wrong default
     LET sender == IF g[1] = "nopl-creator" THEN UC ELSE UA
         etype == IF ty = "msg" THEN "m.room.message" ELSE IF ty = "custom" THEN "org.custom.ev" ELSE "m.room.topic"
         ev == CASE ty \in {"msg", "custom"} -> Ev("$e", etype, sender, FALSE, "", C0)
                 [] ty = "state" -> Ev("$e", etype, sender, TRUE, "", C0)
                 [] ty = "ownkey" -> [Ev("$e", etype, sender, TRUE, sender.name, C0) EXCEPT !.keyisuser = TRUE]
                 [] ty = "otherkey" -> [Ev("$e", etype, sender, TRUE, UB.name, C0) EXCEPT !.keyisuser = TRUE]
                 [] ty = "plainkey" -> Ev("$e", etype, sender, TRUE, "x", C0)
         pl == IF g[1] \in {"nopl-creator", "nopl-other"} THEN {}
               ELSE LET base == IF g[2] = "users" THEN PLUsers(One(sender.name, IntV(sl)))
                                ELSE [EmptyPL EXCEPT !.users_default = IntV(sl)]
                    IN {PLEv([base EXCEPT !.events = IF g[3] = AbsentV THEN <<>> ELSE One(etype, g[3]),
                                          !.events_default = g[4], !.state_default = g[5]])}
     IN /\ IF sm # "join" /\ g[1] = "pl" THEN g[3] = IntV(50) /\ g[4] = AbsentV /\ g[5] = AbsentV /\ sl = 50 ELSE TRUE
        /\ (g[1] # "pl" => sl = 50)
        /\ evs' = Base \cup Members(One(sender, sm)) \cup pl \cup JR("invite")
        /\ e' = ev

NextTpiEvent ==
  \E sm \in {"join", "leave"}, lc \in LevelCfgs :
     LET sender == IF lc[1] = "nopl-creator" THEN UC ELSE UA
         pl == IF lc[1] \in {"nopl-creator", "nopl-other"} THEN {}
               ELSE IF lc[1] = "users" THEN {PLEv([PLUsers(One(sender.name, IntV(lc[2]))) EXCEPT !.invite = lc[3]])}
               ELSE {PLEv([EmptyPL EXCEPT !.users_default = IntV(lc[2]), !.invite = lc[3]])}
     IN /\ evs' = Base \cup Members(One(sender, sm)) \cup pl
        /\ e' = Ev("$e", "m.room.third_party_invite", sender, TRUE, "tok9", C0)

\* ---- power level changes.  The sender UA has level 50 in the current power levels.
Vals == {AbsentV, IntV(49), IntV(50), IntV(51)}
OldBase == PLUsers(One(UA.name, IntV(50)))
PLState(old) == Base \cup Members(One(UA, "join")) \cup {PLEv(old)}
NewPLEv(sender, new) == Ev("$e", "m.room.power_levels", sender, TRUE, "", [C0 EXCEPT !.pl = new])

NextPLScalar ==
  \E f \in ScalarFields, o \in Vals, n \in Vals :
     /\ evs' = PLState([OldBase EXCEPT ![f] = o])
     /\ e' = NewPLEv(UA, [OldBase EXCEPT ![f] = n])

NextPLMaps ==
  \/ \E which \in {"events", "notifications"}, o \in Vals, n \in Vals :
       LET mk(x) == IF x = AbsentV THEN <<>> ELSE One(IF which = "events" THEN "m.x" ELSE "room", x) IN
       /\ evs' = PLState([OldBase EXCEPT ![which] = mk(o)])
       /\ e' = NewPLEv(UA, [OldBase EXCEPT ![which] = mk(n)])
  \/ \E o \in Vals, n \in Vals :          \* another user's entry
       LET mk(x) == IF x = AbsentV THEN One(UA.name, IntV(50)) ELSE One(UA.name, IntV(50)) @@ One(UB.name, x) IN
       /\ evs' = PLState(PLUsers(mk(o)))
       /\ e' = NewPLEv(UA, PLUsers(mk(n)))
  \/ \E n \in Vals :                      \* the sender's own entry
       /\ evs' = PLState(OldBase)
       /\ e' = NewPLEv(UA, PLUsers(IF n = AbsentV THEN <<>> ELSE One(UA.name, n)))
  \/ \E who \in {UC, UA}, n \in {AbsentV, IntV(100), IntV(101)} :      \* no current power levels (10.3)
       /\ evs' = Base \cup Members(One(who, "join"))
       /\ e' = NewPLEv(who, [EmptyPL EXCEPT !.ban = n])

NextPLKinds ==
  \/ \E f \in {"ban", "users_default"}, k \in {StrV(50), StrV(49), BadV} :                    \* new scalar not an integer
       /\ evs' = PLState(OldBase) /\ e' = NewPLEv(UA, [OldBase EXCEPT ![f] = k])
  \/ \E which \in {"events", "notifications"}, k \in {StrV(50), BadV} :
       /\ evs' = PLState(OldBase)
       /\ e' = NewPLEv(UA, [OldBase EXCEPT ![which] = One(IF which = "events" THEN "m.x" ELSE "room", k)])
  \/ \E k \in {StrV(49), StrV(50), BadV} :                                                       \* users entry
       /\ evs' = PLState(OldBase)
       /\ e' = NewPLEv(UA, PLUsers(One(UA.name, IntV(50)) @@ One(UB.name, k)))
  \/ /\ evs' = PLState(OldBase)                                                                  \* invalid user id key
     /\ e' = NewPLEv(UA, [OldBase EXCEPT !.userkeysvalid = FALSE])
  \/ \E f \in {"ban", "kick"}, n \in Vals :                                                      \* current levels as strings
       /\ evs' = PLState([PLUsers(One(UA.name, StrV(50))) EXCEPT ![f] = StrV(50)])
       /\ e' = NewPLEv(UA, [PLUsers(One(UA.name, StrV(50))) EXCEPT ![f] = n])

\* ---- redaction special case (v1, v2)
NextRedaction ==
  \E lvl \in Levels \cup {-100}, thr \in {AbsentV, IntV(50)}, same \in BOOLEAN, sm \in {"join", "leave"} :
     LET pl == IF lvl = -100 THEN {} ELSE {PLEv([PLUsers(One(UA.name, IntV(lvl))) EXCEPT !.redact = thr])} IN
     /\ evs' = Base \cup Members(One(UA, sm)) \cup pl
     /\ e' = [Ev("$e", "m.room.redaction", UA, FALSE, "", [C0 EXCEPT !.redactsserver = IF same THEN S1 ELSE S2])
                EXCEPT !.idserver = S1]

\* ---- two event types that an implementation may know as "the same" (a stable name and its unstable predecessor): the rules
\* compare the `type` string of the event with the keys of `events`, nothing else
TStable == "m.call.sdp_stream_metadata_changed"
TUnstable == "org.matrix.call.sdp_stream_metadata_changed"
NextAliasType ==
  \E ls \in {AbsentV, IntV(0), IntV(100)}, lu \in {AbsentV, IntV(0), IntV(100)}, ty \in {TStable, TUnstable}, ed \in {AbsentV, IntV(100)} :
     LET evmap == (IF ls = AbsentV THEN <<>> ELSE One(TStable, ls)) @@ (IF lu = AbsentV THEN <<>> ELSE One(TUnstable, lu)) IN
     /\ evs' = Base \cup Members(One(UA, "join")) \cup {PLEv([PLUsers(One(UA.name, IntV(50))) EXCEPT !.events = evmap, !.events_default = ed])}
     /\ e' = Ev("$e", ty, UA, FALSE, "", C0)

Next == /\ phase = 0 /\ phase' = 1 /\ UNCHANGED <<stratum, v>>
        /\ CASE stratum = "create" -> NextCreate
             [] stratum = "early" -> NextEarly
             [] stratum = "join" -> NextJoin
             [] stratum = "invite" -> NextInvite
             [] stratum = "invite3p" -> NextInvite3p
             [] stratum = "leaveself" -> NextLeaveSelf
             [] stratum = "kick" -> NextKick
             [] stratum = "ban" -> NextKick
             [] stratum = "knock" -> NextKnock
             [] stratum = "other3p" -> NextOther3p
             [] stratum = "badmember" -> NextBadMember
             [] stratum = "generic" -> NextGeneric
             [] stratum = "tpievent" -> NextTpiEvent
             [] stratum = "plscalar" -> NextPLScalar
             [] stratum = "plmaps" -> NextPLMaps
             [] stratum = "plkinds" -> NextPLKinds
             [] stratum = "redaction" -> NextRedaction
             [] stratum = "aliastype" -> NextAliasType

(* ------------------------------------------------------------------------ *)
St == StateOf(evs)
Verdict == Auth(St, e, RV(v))

\* C09 on the model: the verdict is a function of the selected entries only
ThmNonInterference == phase = 1 => NonInterference(St, e, RV(v))
\* sanity: exactly one entry per (type, state_key)
ThmWellFormed == phase = 1 => Cardinality(evs) = Cardinality(DOMAIN St)

\* ---- compact JSON projection of events (defaults omitted, tagged levels shortened)
CV(t) == CASE t.k = "int" -> t.n [] t.k = "str" -> [s |-> t.n] [] OTHER -> [bad |-> TRUE]
CMap(m) == [x \in DOMAIN m |-> CV(m[x])]
CPL(p) == [f \in {g \in ScalarFields : p[g].k # "absent"} |-> CV(p[f])]
          @@ [users |-> CMap(p.users), events |-> CMap(p.events), notifications |-> CMap(p.notifications),
              userkeysvalid |-> p.userkeysvalid]
CContent(x) ==
  CASE x.type = "m.room.create" -> [hascreator |-> x.c.hascreator, creator |-> x.c.creator.name, federate |-> x.c.federate]
    [] x.type = "m.room.member" ->
         [membership |-> x.c.membership, jauth |-> x.c.jauth.name,
          tpi |-> IF x.c.tpi.present THEN [x.c.tpi EXCEPT !.mxid = x.c.tpi.mxid.name] ELSE [present |-> FALSE]]
    [] x.type = "m.room.join_rules" -> [join_rule |-> x.c.join_rule]
    [] x.type = "m.room.power_levels" -> [pl |-> CPL(x.c.pl)]
    [] x.type = "m.room.redaction" -> [redactsserver |-> x.c.redactsserver]
    [] x.type = "m.room.third_party_invite" -> [tpikeys |-> [top |-> x.c.tpikeys.top, list |-> SetToSeq(x.c.tpikeys.list)]]
    [] OTHER -> [none |-> TRUE]
CEv(x) == [id |-> x.id, type |-> x.type, sender |-> x.sender.name, haskey |-> x.haskey, key |-> x.key, prev |-> x.prev,
           auth |-> x.auth, roomserver |-> x.roomserver, idserver |-> x.idserver, c |-> CContent(x)]
CEvs(S) == LET q == SetToSeq(S) IN [i \in 1..Len(q) |-> CEv(q[i])]

Emit == phase = 1 =>
  PrintT(<<"CASE", ToJson([ v |-> v, stratum |-> stratum, st |-> CEvs(evs), e |-> CEv(e),
                             verdict |-> Verdict[1], rule |-> Verdict[2],
                             sel |-> AuthTypes(e, RV(v)), selspec |-> SelectionSpecified(e) ])>>)
=============================================================================

INIT Init
NEXT Next
INVARIANT Check Decided
CHECK_DEADLOCK FALSE

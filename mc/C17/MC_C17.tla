------------------------------- MODULE MC_C17 -------------------------------
(* Small-scope exploration of EntryPoints: a library given as a fixed function *)
(* F from inputs to results and a fixed transition function G for the explicit *)
(* object, driven by every schedule of calls, edits and restarts.  It shows    *)
(* that the specification is satisfiable (every action is taken), that a       *)
(* stateless library conforms under every schedule, and that the three ways a  *)
(* library can be stateful -- a result depending on the call count, an edit    *)
(* that fails after changing the object, a fresh object depending on the       *)
(* past -- are each excluded by exactly one conjunct (the Faulty* actions are  *)
(* never enabled together with the corresponding specification action).        *)
EXTENDS EntryPoints

Inputs == 1..3
States == 0..2
F(i) == IF i = 2 THEN <<"err", "e">> ELSE <<"ok", "r">>          \* results of the stateless entry points
G(s, i) == IF i = 2 THEN <<"err", s>> ELSE <<"ok", (s + i) % 3>> \* the edit i on object state s

VARIABLES ncalls
mvars == <<memo, objs, fresh, ncalls>>

MCInit == Init /\ ncalls = 0
Bound == ncalls < 6

DoStart == Bound /\ Start([ruleset |-> 0]) /\ ncalls' = ncalls + 1
DoCall == \E i \in Inputs, last \in BOOLEAN : Bound /\ Call(i, last, F(i)[1], F(i)[2]) /\ ncalls' = ncalls + 1
DoEdit == \E i \in Inputs : Bound /\ "ruleset" \in DOMAIN objs
            /\ Edit("ruleset", G(objs["ruleset"], i)[1], objs["ruleset"], G(objs["ruleset"], i)[2]) /\ ncalls' = ncalls + 1
MCNext == DoStart \/ DoCall \/ DoEdit

\* the conforming library never gets stuck: in every reachable state every call, edit and restart is accepted
AlwaysAccepted ==
  /\ \A i \in Inputs : Deterministic(i, F(i)[1], F(i)[2])
  /\ ("ruleset" \in DOMAIN fresh => fresh["ruleset"] = 0)
MemoIsF == \A i \in DOMAIN memo : memo[i] = F(i)

\* faulty libraries: each of these steps must be rejected by the specification in every reachable state where it differs
FaultyResultRejected == \A i \in DOMAIN memo : ~Deterministic(i, memo[i][1], "other")
FaultyEditRejected == \A s \in States : ~(("err" = "err") => ((s + 1) % 3 = s))     \* err with a changed object
FaultyStartRejected == ("ruleset" \in DOMAIN fresh) => ~(\A o \in {"ruleset"} : 1 = fresh[o])
NoOtherOutcome == \A x \in {"panic", "abort", "timeout"} : x \notin Outcomes
ObjProp == [][objs' # objs => (ncalls' = ncalls + 1)]_mvars
=============================================================================

------------------------------ MODULE Trace_C17 ------------------------------
(* impl -> spec: the log of the supervised worker processes must be a          *)
(* behaviour of EntryPoints.  One event per call (after it returned), one per  *)
(* process start, and one written by the supervisor for a call that never      *)
(* returned (process death or time budget exceeded).  An event no action of    *)
(* the specification explains is reported and the logged state adopted, so     *)
(* that the rest of the trace is still checked.                                *)
EXTENDS EntryPoints, Json, IOUtils

Rec == ndJsonDeserialize(IOEnv.TRACE)
VARIABLE l
tvars == <<memo, objs, fresh, l>>

TInit == Init /\ l = 1

Resync(r) ==
  /\ memo' = IF r.ev \in {"call", "edit"} /\ r.obj # "ruleset" /\ r.outcome \in Outcomes
             THEN (IF r.last THEN Forget(memo, r.i) ELSE (r.i :> <<r.outcome, r.res>>) @@ memo)
             ELSE IF "i" \in DOMAIN r THEN Forget(memo, r.i) ELSE memo
  /\ objs' = IF r.ev = "edit" /\ r.obj = "ruleset" THEN ("ruleset" :> r.after) @@ objs
             ELSE IF r.ev = "start" THEN [ruleset |-> r.ruleset] ELSE objs
  /\ fresh' = fresh

Step ==
  /\ l <= Len(Rec)
  /\ l' = l + 1
  /\ LET r == Rec[l] IN
     IF r.ev = "start" /\ ENABLED Start([ruleset |-> r.ruleset]) THEN Start([ruleset |-> r.ruleset])
     ELSE IF r.ev = "call" /\ ENABLED Call(r.i, r.last, r.outcome, r.res) THEN Call(r.i, r.last, r.outcome, r.res)
     ELSE IF r.ev = "edit" /\ r.obj = "ruleset" /\ ENABLED Edit("ruleset", r.outcome, r.before, r.after) THEN Edit("ruleset", r.outcome, r.before, r.after)
     ELSE IF r.ev = "edit" /\ r.obj # "ruleset" /\ ENABLED EditArgument(r.i, r.last, r.outcome, r.res, r.before, r.after)
          THEN EditArgument(r.i, r.last, r.outcome, r.res, r.before, r.after)
     ELSE PrintT(<<"MISMATCH", l>>) /\ Resync(r)

TNext == Step
=============================================================================

INIT MCInit
NEXT MCNext
INVARIANT AlwaysAccepted MemoIsF FaultyResultRejected FaultyEditRejected FaultyStartRejected NoOtherOutcome
PROPERTY ObjProp
CHECK_DEADLOCK FALSE

------------------------------- MODULE MC_C20 -------------------------------
(* C20: every power-level helper answers yes exactly when EventAuth!Auth accepts *)
(* the corresponding minimal event from a joined actor.  Decided on the model    *)
(* (theorem Equiv); every configuration is emitted for replay against the real  *)
(* helpers and the real auth_check.                                              *)
EXTENDS PowerLevelHelpers, Json, SequencesExt

S1 == "s1"
UC == U("@c:s1", S1)
UA == U("@a:s1", S1)    \* actor
UB == U("@b:s1", S1)    \* target

NoTpi == [present |-> FALSE, signed |-> FALSE, hasmxid |-> FALSE, hastoken |-> FALSE, mxid |-> NoUser, token |-> "", sigkey |-> ""]
EmptyPL == [users_default |-> AbsentV, events_default |-> AbsentV, state_default |-> AbsentV, ban |-> AbsentV,
            redact |-> AbsentV, kick |-> AbsentV, invite |-> AbsentV,
            users |-> <<>>, events |-> <<>>, notifications |-> <<>>, userkeysvalid |-> TRUE]
C0 == [membership |-> "absent", jauth |-> NoUser, tpi |-> NoTpi, hascreator |-> TRUE, creator |-> UC,
       federate |-> TRUE, join_rule |-> "absent", pl |-> EmptyPL, redactsserver |-> "",
       tpikeys |-> [top |-> "k8", list |-> {"k7"}]]
Ev(id, type, sender, haskey, key, c) ==
  [id |-> id, type |-> type, sender |-> sender, haskey |-> haskey, key |-> key, keyisuser |-> FALSE,
   target |-> NoUser, targetvalid |-> TRUE, prev |-> {"$p"}, auth |-> {"$create"}, roomserver |-> S1,
   idserver |-> sender.server, c |-> c]
CreateEv == [Ev("$create", "m.room.create", UC, TRUE, "", C0) EXCEPT !.prev = {}, !.auth = {}]
MemberBy(sender, u, m) == [Ev("$m" \o u.name, "m.room.member", sender, TRUE, u.name, [C0 EXCEPT !.membership = m])
                             EXCEPT !.keyisuser = TRUE, !.target = u]
PLEv(pl) == Ev("$pl", "m.room.power_levels", UC, TRUE, "", [C0 EXCEPT !.pl = pl])
StateOf(evs) == [k \in {K(x.type, x.key) : x \in evs} |-> CHOOSE x \in evs : K(x.type, x.key) = k]
One(k, v) == [x \in {k} |-> v]

CONSTANT VersionSet
QuickVersions == {3, 6, 9, 10, 11}
AllVersions == 3..11

Parts == {"member", "send", "notif"}
VARIABLES phase, part, v, str, pl, tm, al, red
vars == <<phase, part, v, str, pl, tm, al, red>>

\* levels relative to the actor's level al; al is placed at and just below the two default values (50 and 0) so
\* that an absent field is distinguishable from every wrong default
ActorLevels == {50, 49, 0, -1}
Rel == {"absent", "lt", "eq", "gt"}
Val(r, ss) == CASE r = "absent" -> AbsentV
                 [] r = "lt" -> IF ss THEN StrV(al - 1) ELSE IntV(al - 1)
                 [] r = "eq" -> IF ss THEN StrV(al) ELSE IntV(al)
                 [] r = "gt" -> IF ss THEN StrV(al + 1) ELSE IntV(al + 1)
MapOf(k, r, ss) == IF r = "absent" THEN <<>> ELSE One(k, Val(r, ss))

Init == /\ phase = 0 /\ part \in Parts /\ v \in VersionSet /\ str \in BOOLEAN
        /\ pl = EmptyPL /\ tm = "join" /\ al \in ActorLevels
        \* red: the power levels event has been redacted; helpers and rules then read its redacted content (which keeps
        \* `invite` from room version 11 on and never keeps `notifications`)
        /\ red \in BOOLEAN /\ (red => part \in {"member", "notif"})

\* the actor's level 50 comes from a users entry or from users_default; the target's from an entry or the default
Actor(mode, tr) ==
  IF mode = "entry"
  THEN [users |-> One(UA.name, Val("eq", str)) @@ MapOf(UB.name, tr, str), ud |-> AbsentV]
  ELSE [users |-> MapOf(UB.name, tr, str), ud |-> Val("eq", str)]

Next ==
  /\ phase = 0 /\ phase' = 1 /\ UNCHANGED <<part, v, str, al, red>>
  /\ \/ /\ part = "member"
        /\ \E mode \in {"entry", "default"}, tr \in Rel, b \in Rel, k \in Rel, i \in Rel, m \in {"join", "invite", "leave", "ban", "absent"} :
             LET a == Actor(mode, tr) IN
             /\ pl' = [EmptyPL EXCEPT !.users = a.users, !.users_default = a.ud, !.ban = Val(b, str), !.kick = Val(k, str),
                                      !.invite = Val(i, str)]
             /\ tm' = m
     \/ /\ part = "send"
        /\ \E mode \in {"entry", "default"}, ed \in Rel, sd \in Rel, em \in Rel, et \in Rel, i \in Rel, e3 \in {"absent", "gt"} :
             LET a == Actor(mode, "absent") IN
             /\ pl' = [EmptyPL EXCEPT !.users = a.users, !.users_default = a.ud, !.events_default = Val(ed, str),
                                      !.state_default = Val(sd, str), !.invite = Val(i, str),
                                      !.events = MapOf("m.room.message", em, str) @@ MapOf("m.room.topic", et, str)
                                                 @@ MapOf("m.room.third_party_invite", e3, str)]
             /\ tm' = "join"
     \/ /\ part = "notif"
        /\ \E mode \in {"entry", "default"}, n \in Rel :
             LET a == Actor(mode, "absent") IN
             /\ pl' = [EmptyPL EXCEPT !.users = a.users, !.users_default = a.ud, !.notifications = MapOf("room", n, str)]
             /\ tm' = "join"

R == RV(v)
RedactPL(p) == [p EXCEPT !.invite = IF R.keep_pl_invite THEN @ ELSE AbsentV, !.notifications = <<>>]
EPL == IF red THEN RedactPL(pl) ELSE pl
St == StateOf({CreateEv, PLEv(EPL), MemberBy(UA, UA, "join")} \cup (IF tm = "absent" THEN {} ELSE {MemberBy(UB, UB, tm)}))
Allowed(ev) == Auth(St, ev, R)[1]
MemberEvent(m) == [MemberBy(UA, UB, m) EXCEPT !.id = "$e"]
MsgEvent == Ev("$e", "m.room.message", UA, FALSE, "", C0)
TopicEvent == Ev("$e", "m.room.topic", UA, TRUE, "", C0)
\* the same type sent without a state key is a message-like event: `events[type]` or `events_default`
TopicAsMessage == Ev("$e", "m.room.topic", UA, FALSE, "", C0)
TpiEvent == Ev("$e", "m.room.third_party_invite", UA, TRUE, "tok9", C0)
\* m.room.aliases with the sender's server as state key: room versions 1-5 allow it whatever the levels (rule 4), later versions
\* treat it like any state event.  The helpers take no room version.
AliasesEvent == Ev("$e", "m.room.aliases", UA, TRUE, UA.server, C0)

Specified == StateWellFormed(St, R)
Iff(h, verdict) == (h /\ verdict = "allow") \/ (~h /\ verdict = "reject")

\* ---- the theorem of C20, on the model
Equiv ==
  (phase = 1 /\ Specified) =>
    /\ Iff(HCanBanUser(EPL, UA.name, UB.name), Allowed(MemberEvent("ban")))
    /\ (tm \in {"join", "invite"} => Iff(HCanKickUser(EPL, UA.name, UB.name), Allowed(MemberEvent("leave"))))
    /\ (tm = "ban" => Iff(HCanUnbanUser(EPL, UA.name, UB.name), Allowed(MemberEvent("leave"))))
    /\ (tm \in {"leave", "absent"} => Iff(HCanInvite(EPL, UA.name), Allowed(MemberEvent("invite"))))
    /\ Iff(HCanSendMessage(EPL, UA.name, "m.room.message"), Allowed(MsgEvent))
    /\ Iff(HCanSendState(EPL, UA.name, "m.room.topic"), Allowed(TopicEvent))
    /\ Iff(HCanSendMessage(EPL, UA.name, "m.room.topic"), Allowed(TopicAsMessage))
    /\ Iff(HCanSendState(EPL, UA.name, "m.room.third_party_invite"), Allowed(TpiEvent))
    /\ (~R.aliases_special => Iff(HCanSendState(EPL, UA.name, "m.room.aliases"), Allowed(AliasesEvent)))
    /\ (HCanNotifyRoom(EPL, UA.name) <=> NotifPermission(EPL, UA.name))
    /\ HForUser(EPL, UA.name) = UserLevel(St, UA, R)
    /\ HForUser(EPL, UB.name) = UserLevel(St, UB, R)

CV(t) == CASE t.k = "int" -> t.n [] t.k = "str" -> [s |-> t.n] [] OTHER -> [bad |-> TRUE]
CMap(m) == [x \in DOMAIN m |-> CV(m[x])]
CPL(p) == [f \in {g \in ScalarFields : p[g].k # "absent"} |-> CV(p[f])]
          @@ [users |-> CMap(p.users), events |-> CMap(p.events), notifications |-> CMap(p.notifications), userkeysvalid |-> TRUE]

Emit == phase = 1 =>
  PrintT(<<"CASE", ToJson([ v |-> v, part |-> part, str |-> str, tm |-> tm, al |-> al, pl |-> CPL(pl), red |-> red, spec |-> Specified,
     ban |-> HCanBanUser(EPL, UA.name, UB.name), kick |-> HCanKickUser(EPL, UA.name, UB.name),
     unban |-> HCanUnbanUser(EPL, UA.name, UB.name), invite |-> HCanInvite(EPL, UA.name),
     msg |-> HCanSendMessage(EPL, UA.name, "m.room.message"), topic |-> HCanSendState(EPL, UA.name, "m.room.topic"),
     topicmsg |-> HCanSendMessage(EPL, UA.name, "m.room.topic"), tpi |-> HCanSendState(EPL, UA.name, "m.room.third_party_invite"),
     a_topicmsg |-> Allowed(TopicAsMessage), a_tpi |-> Allowed(TpiEvent),
     aliases |-> HCanSendState(EPL, UA.name, "m.room.aliases"), a_aliases |-> Allowed(AliasesEvent), aliases_special |-> R.aliases_special,
     notif |-> HCanNotifyRoom(EPL, UA.name), la |-> HForUser(EPL, UA.name), lb |-> HForUser(EPL, UB.name),
     a_ban |-> Allowed(MemberEvent("ban")), a_leave |-> Allowed(MemberEvent("leave")),
     a_invite |-> Allowed(MemberEvent("invite")), a_msg |-> Allowed(MsgEvent), a_topic |-> Allowed(TopicEvent) ])>>)
=============================================================================

INIT Init
NEXT Next
CONSTANT VersionSet <- AllVersions
INVARIANT Equiv
INVARIANT Emit
CHECK_DEADLOCK FALSE

INIT Init
NEXT Next
CONSTANT VersionSet <- QuickVersions
INVARIANT Equiv
INVARIANT Emit
CHECK_DEADLOCK FALSE

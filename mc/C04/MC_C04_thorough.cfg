INIT Init
NEXT Next
CONSTANT Thorough = TRUE
INVARIANT ThmIdempotent
INVARIANT ThmOnlyRemoves
INVARIANT Emit
CHECK_DEADLOCK FALSE

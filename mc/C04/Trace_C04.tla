------------------------------ MODULE Trace_C04 ------------------------------
(* impl -> spec: every recorded redaction of the real code must be the one    *)
(* Redaction!Redact prescribes.  Records are independent, so each index is an  *)
(* initial state and all of them are checked (no early stop).                  *)
EXTENDS Redaction, Json, IOUtils, TLC

Rec == ndJsonDeserialize(IOEnv.TRACE)
VARIABLE i
Init == i \in 1..Len(Rec)
Next == UNCHANGED i

ToSet(s) == {s[j] : j \in 1..Len(s)}
Ev(r) == [ type |-> r.type, top |-> [k \in ToSet(r.top) |-> k], hascontent |-> r.hascontent,
           content |-> [k \in ToSet(r.content) |-> k], tpikind |-> r.tpikind, tpi |-> [k \in ToSet(r.tpi) |-> k] ]

Agrees(r) ==
  LET e == Ev(r)  x == Redact(e, r.v) IN
  /\ ~r.panic
  /\ Specified(e, r.v) =>
       /\ r.ok
       /\ ToSet(r.otop) \ {"type"} = DOMAIN x.top
       /\ r.ohascontent = x.hascontent
       /\ ToSet(r.ocontent) = DOMAIN x.content
       /\ r.otpikind = x.tpikind
       /\ ToSet(r.otpi) = DOMAIN x.tpi
       /\ r.untouched /\ r.nadded = 0 /\ r.idempotent /\ r.agree /\ r.because_ok

Check == Agrees(Rec[i]) \/ PrintT(<<"MISMATCH", i>>)
=============================================================================

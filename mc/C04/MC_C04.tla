------------------------------- MODULE MC_C04 -------------------------------
(* Exhaustive enumeration of redaction cells: every room version x event type *)
(* x top-level key choice x content key choice x third_party_invite shape.    *)
(* Two-level enumeration (coarse Init, expansion in Next) so all workers run. *)
EXTENDS Redaction, Json, TLC

CONSTANT Thorough

Types == SpecialTypes \cup {"m.room.message", "org.example.custom", "m.room.topic", "m.room.server_acl"}

TopUnspec == {"unsigned", "age_ts", "x.unspec"}
TopKeys == (TopAlways \ {"content", "type"}) \cup TopOld \cup TopUnspec
ContentSpec == {"membership", "join_authorised_via_users_server", "third_party_invite", "creator", "join_rule",
                "allow", "invite", "history_visibility", "redacts", "aliases"} \cup PLKeys
ContentUnspec == {"body", "x.unspec", "room_version", "reason", "notifications", "displayname"}
ContentKeys == ContentSpec \cup ContentUnspec

TopChoices == {TopKeys} \cup {{k} : k \in TopKeys} \cup {{}}
             \cup (IF Thorough THEN {TopKeys \ {k} : k \in TopKeys} ELSE {})
ContentChoices == {ContentKeys} \cup {{k} : k \in ContentKeys} \cup {{}}
             \cup (IF Thorough THEN {ContentKeys \ {k} : k \in ContentKeys} \cup
                                     {{k1, k2} : k1 \in ContentSpec, k2 \in ContentUnspec} ELSE {})
TpiKeys == {"signed", "display_name"}
TpiChoices == {[kind |-> "atom", keys |-> {}]} \cup {[kind |-> "obj", keys |-> s] : s \in SUBSET TpiKeys}

VARIABLES phase, v, type, top, hascontent, content, tpi
vars == <<phase, v, type, top, hascontent, content, tpi>>

Init == /\ phase = 0 /\ v \in Versions /\ type \in Types
        /\ top = {} /\ hascontent = FALSE /\ content = {} /\ tpi = [kind |-> "none", keys |-> {}]

Next == /\ phase = 0 /\ phase' = 1
        /\ UNCHANGED <<v, type>>
        /\ top' \in TopChoices
        /\ \/ hascontent' = FALSE /\ content' = {} /\ tpi' = [kind |-> "none", keys |-> {}]
           \/ /\ hascontent' = TRUE /\ content' \in ContentChoices
              /\ IF "third_party_invite" \in content' THEN tpi' \in TpiChoices
                 ELSE tpi' = [kind |-> "none", keys |-> {}]

Ev == [ type |-> type, top |-> [k \in top |-> k], hascontent |-> hascontent,
        content |-> [k \in content |-> k], tpikind |-> tpi.kind, tpi |-> [k \in tpi.keys |-> k] ]

ThmIdempotent == phase = 1 => Idempotent(Ev, v)
ThmOnlyRemoves == phase = 1 => OnlyRemoves(Ev, v)

Emit == phase = 1 =>
  LET r == Redact(Ev, v) IN
  PrintT(<<"CASE", ToJson([ v |-> v, type |-> type, top |-> top, hascontent |-> hascontent, content |-> content,
                             tpikind |-> tpi.kind, tpi |-> tpi.keys,
                             spec |-> Specified(Ev, v),
                             xtop |-> DOMAIN r.top, xcontent |-> DOMAIN r.content,
                             xtpikind |-> r.tpikind, xtpi |-> DOMAIN r.tpi ])>>)
=============================================================================

INIT Init
NEXT Next
CONSTANT Thorough = FALSE
INVARIANT ThmIdempotent
INVARIANT ThmOnlyRemoves
INVARIANT Emit
CHECK_DEADLOCK FALSE

INIT MCInit
NEXT FedNext
CONSTANT V = 11
CONSTANT MaxNew = 1
CONSTANT MaxDeliver = 2
CONSTANT TsPool = {1}
CONSTANT Byzantine = {"s2"}
CONSTANT Tampers = {"none", "unsigned", "unprotected", "protected", "nosig"}
CONSTANT Servers <- ServersImpl
CONSTANT NewIds <- NewIdsImpl
CONSTANT IdLess <- IdLessImpl
CONSTANT BaseNames = {"public", "invite", "restricted"}
INVARIANT ViewsClosed RedactTypedOk TamperEffect SameViewSameState HonestNeverRejected
INVARIANT Emit
CHECK_DEADLOCK FALSE

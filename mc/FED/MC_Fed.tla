------------------------------- MODULE MC_Fed -------------------------------
(* Bounded exploration of Federation.tla: from a base room every behaviour of  *)
(* MaxNew created events and MaxDeliver deliveries (any server, any allowed     *)
(* action, any deliverable event, any alteration in flight).  Every receipt is  *)
(* emitted with the receiving server's view and the verdict of each check, for  *)
(* replay through the real signing, redaction, authorization code.              *)
EXTENDS Federation, Json, SequencesExt

IdRank == [x \in {"$A", "$B", "$C", "$D", "$E", "$F", "$G", "$H", "$a", "$b", "$c", "$d"} |->
             CASE x = "$A" -> 1 [] x = "$B" -> 2 [] x = "$C" -> 3 [] x = "$D" -> 4 [] x = "$E" -> 5 [] x = "$F" -> 6
               [] x = "$G" -> 7 [] x = "$H" -> 8 [] x = "$a" -> 11 [] x = "$b" -> 12 [] x = "$c" -> 13 [] x = "$d" -> 14]
IdLessImpl(x, y) == IdRank[x] < IdRank[y]
ServersImpl == {S1, S2}
NewIdsImpl == <<"$a", "$b", "$c", "$d">>

CONSTANT BaseNames

Base(name) ==
  CASE name = "public" ->
         <<<<S1, PCreate, "$A", 0>>, <<S1, PMember(UC, UC, "join"), "$B", 0>>,
           <<S1, PPowerLevels(UC, MkPL((UC.name :> 100) @@ (UA.name :> 50))), "$C", 0>>,
           <<S1, PJoinRules(UC, "public"), "$D", 0>>, <<S1, PMember(UA, UA, "join"), "$E", 0>>,
           <<S2, PMember(UB, UB, "join"), "$F", 0>>>>
    [] name = "invite" ->
         <<<<S1, PCreate, "$A", 0>>, <<S1, PMember(UC, UC, "join"), "$B", 0>>,
           <<S1, PPowerLevels(UC, [MkPL((UC.name :> 100) @@ (UA.name :> 50)) EXCEPT !.invite = IntV(50)]), "$C", 0>>,
           <<S1, PJoinRules(UC, "invite"), "$D", 0>>, <<S1, PMember(UC, UA, "invite"), "$E", 0>>,
           <<S1, PMember(UA, UA, "join"), "$F", 0>>, <<S1, PMember(UA, UB, "invite"), "$G", 0>>>>
    [] name = "restricted" ->
         <<<<S1, PCreate, "$A", 0>>, <<S1, PMember(UC, UC, "join"), "$B", 0>>,
           <<S1, PPowerLevels(UC, MkPL((UC.name :> 100) @@ (UA.name :> 50))), "$C", 0>>,
           <<S1, PJoinRules(UC, "restricted"), "$D", 0>>, <<S1, PMember(UC, UA, "invite"), "$E", 0>>,
           <<S1, PMember(UA, UA, "join"), "$F", 0>>>>
    [] name = "nopl" ->
         <<<<S1, PCreate, "$A", 0>>, <<S1, PMember(UC, UC, "join"), "$B", 0>>, <<S1, PJoinRules(UC, "public"), "$C", 0>>,
           <<S1, PMember(UA, UA, "join"), "$D", 0>>, <<S2, PMember(UB, UB, "join"), "$E", 0>>>>

MCInit == \E b \in BaseNames : FedInit(Build(EmptyWorld, Base(b)))

(* ---- emission of one receipt ---- *)
CV(t) == CASE t.k = "int" -> t.n [] t.k = "str" -> [s |-> t.n] [] OTHER -> [bad |-> TRUE]
CMap(m) == [x \in DOMAIN m |-> CV(m[x])]
CPL(p) == [f \in {g \in ScalarFields : p[g].k # "absent"} |-> CV(p[f])]
          @@ [users |-> CMap(p.users), events |-> CMap(p.events), notifications |-> CMap(p.notifications), userkeysvalid |-> p.userkeysvalid]
CContent(x) ==
  CASE x.type = "m.room.create" -> [hascreator |-> x.c.hascreator, creator |-> x.c.creator.name, federate |-> x.c.federate]
    [] x.type = "m.room.member" -> [membership |-> x.c.membership, jauth |-> x.c.jauth.name, tpi |-> [present |-> FALSE]]
    [] x.type = "m.room.join_rules" -> [join_rule |-> x.c.join_rule]
    [] x.type = "m.room.power_levels" -> [pl |-> CPL(x.c.pl)]
    [] OTHER -> [tag |-> x.c.tag]
CEv(x) == [id |-> x.id, type |-> x.type, sender |-> x.sender.name, haskey |-> x.haskey, key |-> x.key, prev |-> x.prev,
           auth |-> x.auth, roomserver |-> x.roomserver, idserver |-> x.idserver, ts |-> x.ts, c |-> CContent(x)]
StateList(st) == {<<k[1], k[2], st[k]>> : k \in DOMAIN st}

EmitReceipt(t, i, tamper) ==
  LET r == Receipt(t, i, tamper)
      q == SetToSeq(DOMAIN registry)
  IN PrintT(<<"CASE", ToJson([ v |-> V, to |-> t, id |-> i, tamper |-> tamper,
        events |-> [n \in 1..Len(q) |-> CEv(registry[q[n]])],
        view |-> [x \in DOMAIN view[t] |-> view[t][x]],
        result |-> r.result, form |-> r.form, byAuth |-> r.byAuth, byBefore |-> r.byBefore, byCur |-> r.byCur,
        before |-> StateList(r.before), current |-> StateList(r.current) ])>>)

\* every receipt possible in a reachable state (emitted from the state, so that receipts beyond the delivery bound are covered too)
Emit == \A t \in Servers : \A i \in DOMAIN registry : Deliverable(t, i) => \A tamper \in Tampers : EmitReceipt(t, i, tamper)
=============================================================================

INIT MCInit
NEXT FedNext
CONSTANT V = 10
CONSTANT MaxNew = 2
CONSTANT MaxDeliver = 2
CONSTANT TsPool = {1}
CONSTANT Byzantine = {}
CONSTANT Tampers = {"none", "unsigned", "protected", "nosig"}
CONSTANT Servers <- ServersImpl
CONSTANT NewIds <- NewIdsImpl
CONSTANT IdLess <- IdLessImpl
CONSTANT BaseNames = {"public", "invite"}
INVARIANT ViewsClosed RedactTypedOk TamperEffect SameViewSameState HonestNeverRejected
INVARIANT Emit
CHECK_DEADLOCK FALSE

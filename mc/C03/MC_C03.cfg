INIT Init
NEXT Next
INVARIANT Thm_SignedVerifiesAll
INVARIANT Thm_MissingSignerFails
INVARIANT Thm_UnsignedIrrelevant
INVARIANT Thm_RedactedCopy
INVARIANT Thm_RefHashStable
INVARIANT Thm_Mutation
INVARIANT Thm_DropRequired
INVARIANT Emit
CHECK_DEADLOCK FALSE

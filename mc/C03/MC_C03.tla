------------------------------- MODULE MC_C03 -------------------------------
(* C03 / C05: every room version x event shape x signer set x one step          *)
(* (nothing / redacted copy / mutation of one top-level, content or             *)
(* third_party_invite key).  Emits the expected verify_event result and the     *)
(* key sets of the content-hash and reference-hash pre-images.                  *)
EXTENDS EventSigning, Json, TLC

SA == "a.example"   \* sender's server
SB == "b.example:8448"   \* event-ID's server (room versions 1-2); it carries a port: the server is everything after the FIRST colon
SC == "c.example"   \* authorising user's server
Servers == {SA, SB, SC}

\* ---- shapes
TopBase == {"type", "room_id", "sender", "depth", "prev_events", "auth_events", "origin_server_ts", "origin", "unsigned",
            "membership", "prev_state", "x_extra"}
Shape(name) ==
  CASE name = "join" -> [type |-> "m.room.member", ms |-> "join", key |-> TRUE, c |-> {"membership", "displayname", "reason"}, tpi |-> "none", tk |-> {}]
    [] name = "invite" -> [type |-> "m.room.member", ms |-> "invite", key |-> TRUE, c |-> {"membership", "displayname"}, tpi |-> "none", tk |-> {}]
    [] name = "invite3p" -> [type |-> "m.room.member", ms |-> "invite", key |-> TRUE, c |-> {"membership", "third_party_invite", "displayname"}, tpi |-> "obj", tk |-> {"signed", "display_name"}]
    \* third_party_invite objects on member events that are NOT invites: the sender's server must still sign; in v11 the
    \* redacted form keeps only `signed` and drops the field when nothing is left
    [] name = "join3p" -> [type |-> "m.room.member", ms |-> "join", key |-> TRUE, c |-> {"membership", "third_party_invite", "displayname"}, tpi |-> "obj", tk |-> {"display_name"}]
    [] name = "leave3ps" -> [type |-> "m.room.member", ms |-> "leave", key |-> TRUE, c |-> {"membership", "third_party_invite"}, tpi |-> "obj", tk |-> {"signed", "display_name"}]
    [] name = "ban3pe" -> [type |-> "m.room.member", ms |-> "ban", key |-> TRUE, c |-> {"membership", "third_party_invite"}, tpi |-> "obj", tk |-> {}]
    [] name = "rjoin" -> [type |-> "m.room.member", ms |-> "join", key |-> TRUE, c |-> {"membership", "join_authorised_via_users_server", "displayname"}, tpi |-> "none", tk |-> {}]
    \* the authorising-user key on events that are not joins: no further signature is demanded
    [] name = "leavej" -> [type |-> "m.room.member", ms |-> "leave", key |-> TRUE, c |-> {"membership", "join_authorised_via_users_server", "reason"}, tpi |-> "none", tk |-> {}]
    [] name = "messagej" -> [type |-> "m.room.message", ms |-> "", key |-> FALSE, c |-> {"body", "msgtype", "join_authorised_via_users_server"}, tpi |-> "none", tk |-> {}]
    [] name = "create" -> [type |-> "m.room.create", ms |-> "", key |-> TRUE, c |-> {"creator", "room_version", "m.federate", "predecessor"}, tpi |-> "none", tk |-> {}]
    [] name = "pl" -> [type |-> "m.room.power_levels", ms |-> "", key |-> TRUE, c |-> {"ban", "events", "invite", "users", "notifications", "kick"}, tpi |-> "none", tk |-> {}]
    [] name = "jr" -> [type |-> "m.room.join_rules", ms |-> "", key |-> TRUE, c |-> {"join_rule", "allow", "x.unspec"}, tpi |-> "none", tk |-> {}]
    [] name = "aliases" -> [type |-> "m.room.aliases", ms |-> "", key |-> TRUE, c |-> {"aliases", "x.unspec"}, tpi |-> "none", tk |-> {}]
    [] name = "redaction" -> [type |-> "m.room.redaction", ms |-> "", key |-> FALSE, c |-> {"redacts", "reason"}, tpi |-> "none", tk |-> {}]
    [] name = "hv" -> [type |-> "m.room.history_visibility", ms |-> "", key |-> TRUE, c |-> {"history_visibility", "x.unspec"}, tpi |-> "none", tk |-> {}]
    [] name = "message" -> [type |-> "m.room.message", ms |-> "", key |-> FALSE, c |-> {"body", "msgtype"}, tpi |-> "none", tk |-> {}]
Shapes == {"join", "invite", "invite3p", "join3p", "leave3ps", "ban3pe", "rjoin", "leavej", "messagej", "create", "pl", "jr", "aliases", "redaction", "hv", "message"}

TopKeysOf(name, v) == TopBase \cup (IF Shape(name).key THEN {"state_key"} ELSE {})
                      \cup (IF v <= 2 THEN {"event_id"} ELSE {})
                      \cup (IF name = "redaction" THEN {"redacts"} ELSE {})
Event(name, v) ==
  LET sh == Shape(name) IN
  [ type |-> sh.type, top |-> [k \in TopKeysOf(name, v) |-> 0], hascontent |-> TRUE, content |-> [k \in sh.c |-> 0],
    tpikind |-> sh.tpi, tpi |-> [k \in sh.tk |-> 0],
    membership |-> sh.ms, senderServer |-> SA, idServer |-> SB, jauthServer |-> IF name \in {"rjoin", "leavej", "messagej"} THEN SC ELSE "" ]

\* keys whose mutation would change which servers must sign or which redaction table applies are left alone
Structural == {"type", "sender", "event_id", "membership:content", "join_authorised_via_users_server", "third_party_invite"}
Steps(name, v) ==
  {<<"none", "">>, <<"redact", "">>, <<"unsigned", "">>, <<"prehash", "">>}   \* prehash: the event carried a stale `hashes` before it was signed
  \cup {<<"top", k>> : k \in (TopKeysOf(name, v) \ {"type", "sender", "event_id", "unsigned"}) \cup {"hashes"}}
  \cup {<<"content", k>> : k \in Shape(name).c \ {"membership", "join_authorised_via_users_server", "third_party_invite"}}
  \cup {<<"tpi", k>> : k \in Shape(name).tk}
  \cup {<<"dropsig", s>> : s \in Servers}

VARIABLES phase, v, name, signers, step
vars == <<phase, v, name, signers, step>>
Init == phase = 0 /\ v \in Versions /\ name \in Shapes /\ signers = {} /\ step = <<"none", "">>
Next == /\ phase = 0 /\ phase' = 1 /\ UNCHANGED <<v, name>>
        /\ signers' \in SUBSET Servers /\ step' \in Steps(name, v)

\* ---- the behaviour: sign by every signer, then the step, then verify
RECURSIVE SignAll(_, _, _)
SignAll(e, sigs, S) == IF S = {} THEN [e |-> e, sigs |-> sigs]
                       ELSE LET s == CHOOSE s \in S : TRUE  r == HashAndSign(e, sigs, s, v) IN SignAll(r.e, r.sigs, S \ {s})
Unsigned0 == IF step[1] = "prehash" THEN [Event(name, v) EXCEPT !.top = @ @@ [k \in {"hashes"} |-> [stale |-> 1]]] ELSE Event(name, v)
Signed == SignAll(Unsigned0, [s \in Servers |-> NoSig], signers)
After ==
  LET e == Signed.e  sg == Signed.sigs IN
  CASE step[1] \in {"none", "prehash"} -> [e |-> e, sigs |-> sg]
    [] step[1] = "redact" -> [e |-> RedactedCopy(e, v), sigs |-> sg]
    [] step[1] = "unsigned" -> [e |-> [e EXCEPT !.top["unsigned"] = 1], sigs |-> sg]
    [] step[1] = "top" -> [e |-> [e EXCEPT !.top[step[2]] = IF step[2] = "hashes" THEN [junk |-> 1] ELSE 1], sigs |-> sg]
    [] step[1] = "content" -> [e |-> [e EXCEPT !.content[step[2]] = 1], sigs |-> sg]
    [] step[1] = "tpi" -> [e |-> [e EXCEPT !.tpi[step[2]] = 1], sigs |-> sg]
    [] step[1] = "dropsig" -> [e |-> e, sigs |-> [sg EXCEPT ![step[2]] = NoSig]]

Required == ServersToCheck(Event(name, v), v)
Expected == IF signers = {} THEN "err" ELSE Verify(After.e, After.sigs, v)     \* never hashed: no `hashes`
ExpectedAnyEvent == IF signers = {} THEN "err" ELSE VerifyAnyEvent(After.e, After.sigs, v)

\* ---- the sentences of C03 as theorems of the model
Covered == Required \subseteq signers
Thm_SignedVerifiesAll == (phase = 1 /\ step[1] \in {"none", "prehash"} /\ signers # {} /\ Covered) => Expected = "all"
Thm_MissingSignerFails == (phase = 1 /\ step[1] = "none" /\ ~Covered) => Expected = "err"
Thm_UnsignedIrrelevant == (phase = 1 /\ step[1] = "unsigned" /\ signers # {}) => Expected = Verify(Signed.e, Signed.sigs, v)
\* a redacted copy verifies when the signer set covers the servers required for the redacted form
Thm_RedactedCopy == (phase = 1 /\ step[1] = "redact" /\ signers # {} /\ ServersToCheck(After.e, v) \subseteq signers)
                        => Expected \in {"all", "signatures"}
Thm_RefHashStable == (phase = 1 /\ signers # {}) => RefHashPre(RedactedCopy(Signed.e, v), v) = RefHashPre(Signed.e, v)
\* mutation of a key: kept by redaction => signatures break; stripped but hashed => signatures-only
MutKept == CASE step[1] = "top" -> step[2] \in KeptTop(v)
             [] step[1] = "content" -> step[2] \in KeptContent(Shape(name).type, v, Shape(name).c)
             [] step[1] = "tpi" -> Shape(name).type = "m.room.member" /\ RV(v).keep_tpi_signed /\ step[2] = "signed"
             [] OTHER -> FALSE
Thm_Mutation == (phase = 1 /\ step[1] \in {"top", "content", "tpi"} /\ signers # {} /\ Covered /\ Required # {}) =>
                   Expected = IF MutKept THEN "err" ELSE "signatures"
Thm_DropRequired == (phase = 1 /\ step[1] = "dropsig" /\ signers # {} /\ Covered) =>
                   Expected = IF step[2] \in Required THEN "err" ELSE "all"

Emit == phase = 1 =>
  LET e0 == Event(name, v)  se == Signed.e IN
  PrintT(<<"CASE", ToJson([ v |-> v, shape |-> name, top |-> DOMAIN e0.top, content |-> DOMAIN e0.content, tpi |-> DOMAIN e0.tpi,
      signers |-> signers, step |-> step, required |-> Required, expected |-> Expected, expected_any_event |-> ExpectedAnyEvent,
      \* C05: pre-image key sets of the signed, unmutated event
      chtop |-> DOMAIN ContentHashPre(se).top,
      rhtop |-> DOMAIN RefHashPre(se, v).top, rhcontent |-> DOMAIN RefHashPre(se, v).content,
      rhtpi |-> DOMAIN RefHashPre(se, v).tpi, rhtpikind |-> RefHashPre(se, v).tpikind,
      alphabet |-> RefHashAlphabet(v) ])>>)
=============================================================================

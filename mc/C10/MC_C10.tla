------------------------------- MODULE MC_C10 -------------------------------
(* C10: identifier strings enumerated from the grammar's boundary cases:       *)
(* hosts x ports, sigil x localpart x server name, byte lengths around 255/256 *)
(* (incl. multiples of 256 for the index arithmetic of key ids and MXC URIs),  *)
(* every kind parsed as every other kind's sigil.  Verdicts are three-valued.  *)
EXTENDS Identifiers, Json

Rep(c, n) == [i \in 1..n |-> c]
HostsPlain == {<<97,46,98>>, <<65,45,49,46,98>>, <<49,46,50,46,51,46,52>>, <<91,58,58,49,93>>, <<91,49,50,51,52,58,53,54,55,56,58,58,97,98,99,100,93>>, <<91,58,58,49>>, <<91,93>>, <<91,103,58,58,49,93>>, <<91,58,58,49,93,120>>, <<101,120,97,95,109,112,108,101>>, <<101,120,32,97,109,112,108,101>>, <<233,46,99,111,109>>, <<97,0,98>>, <<45>>, <<46>>, <<115,46,99,111>>}
Ports == {<<>>, <<58,56,52,52,56>>, <<58,43,56,48>>, <<58,48,48,48,48,56,48>>, <<58>>, <<58,57,57,57,57,57>>, <<58,54,53,53,51,54>>, <<58,54,53,53,51,53>>, <<58,48>>, <<58,120>>, <<58,45,49>>, <<58,56,48,58,49>>, <<58,65304>>, <<58,32,56,48>>}
Localparts == {<<>>, <<97>>, <<65>>, <<233>>, <<47>>, <<32>>, <<0>>, <<97,0>>, <<97,46,98,61,95,45,47,43>>, <<128512>>}
ServerNames == {<<115,46,99,111>>, <<115,46,99,111,58,56,48>>, <<91,58,58,49,93>>, <<91,58,58,49,93,58,56,48>>, <<58,56,48>>, <<115,46,99,111,58,43,49>>, <<>>, <<115,95,99,111>>, <<83,46,67,79>>}
KeyAlgs == {<<101,100,50,53,53,49,57>>, <<>>, <<99,117,114,118,101,50,53,53,49,57>>, <<115,105,103,110,101,100,95,99,117,114,118,101,50,53,53,49,57>>, <<120>>}
KeyNames == {<<49>>, <<>>, <<97,95,98>>, <<97,32,98>>, <<233>>, <<65,65,65,65>>, <<97,58,98>>}
MediaIds == {<<97,98,99>>, <<>>, <<97,47,98>>, <<97,32,98>>, <<233>>, <<65,45,90,95,48,57>>}
Versions == {<<49>>, <<49,49>>, <<>>, <<111,114,103,46,109,97,116,114,105,120,46,109,115,99>>, <<97,32,98>>, <<86,45,49,46,120>>, <<233>>}
EventsNoColon == {<<36,97,99,82,49,88,98,74,70,69,69,119,114,106,72,75,87,103,120,71,82,114,115,109,66,79,116,78,113,115,67,100,120,90,120,51,73,52,65,88,78,100,75,119>>, <<36>>, <<36,97,99,82,49,88,98,74,70,69,69,119,114,106,72,75,87,103,120,71,82,114,115,109,66,79,116,78,113,115,67,100,120,90,120,51,73,52,65,88,78,100,75>>, <<36,97,99,82,49,88,98,74,70,69,69,119,114,106,72,75,87,103,120,71,82,114,115,109,66,79,116,78,113,115,67,100,120,90,120,51,73,52,65,88,78,100,75,119,65>>, <<36,45,99,82,49,88,98,74,70,69,69,119,114,106,72,75,87,103,120,71,82,114,115,109,66,79,116,78,113,115,67,100,120,90,120,51,73,52,65,88,78,100,75,119>>, <<36,97,99,82,49,88,98,74,70,69,69,119,114,106,72,75,87,103,120,71,82,114,115,109,66,79,116,78,113,115,67,100,120,90,120,51,73,52,65,88,78,100,75,32>>, <<97,99,82,49,88,98,74,70,69,69,119,114,106,72,75,87,103,120,71,82,114,115,109,66,79,116,78,113,115,67,100,120,90,120,51,73,52,65,88,78,100,75,119>>, <<33,97,99,82,49,88,98,74,70,69,69,119,114,106,72,75,87,103,120,71,82,114,115,109,66,79,116,78,113,115,67,100,120,90,120,51,73,52,65,88,78,100,75,119>>}
MXCPREFIX == <<109,120,99,58,47,47>>
MxcBroken == {<<109,120,99,58,47,115,46,99,111,47,97,98,99>>, <<104,116,116,112,58,47,47,115,46,99,111,47,97,98,99>>, <<109,120,99,58,47,47,115,46,99,111>>, <<109,120,99,58,47,47>>, <<109,120,99,58,47,47,47,97,98,99>>, <<77,88,67,58,47,47,115,46,99,111,47,97,98,99>>, <<109,120,99,58,47,47,115,46,99,111,47,97,98,99,47,100,101,102>>, <<>>}

BoundaryLens == {0, 1, 2, 3, 63, 64} \cup 243..259 \cup {510, 511, 512, 513}
DnsHosts == {Rep(97, n) : n \in BoundaryLens}
Hosts == HostsPlain \cup DnsHosts
ServerCands == {h \o p : h \in Hosts, p \in Ports}

\* sigil, localpart, server name; plus localparts padded so that the whole id has 253..258 bytes
Sigils == {64, 35, 33, 36}       \* @ # ! $
PadLens(sn) == {n \in 0..260 : 1 + n + 1 + Len(sn) \in 253..258}
SigiledCands ==
  {<<sg>> \o lp \o <<58>> \o sn : sg \in Sigils, lp \in Localparts, sn \in ServerNames}
  \cup {<<sg>> \o lp \o sn : sg \in Sigils, lp \in {<<97>>, <<>>}, sn \in {<<115,46,99,111>>}}          \* no colon
  \cup {<<sg>> \o Rep(97, n) \o <<58, 115, 46, 99, 111>> : sg \in Sigils, n \in PadLens(<<115,46,99,111>>)}
  \cup {<<sg>> \o Rep(233, n) \o <<58, 115, 46, 99, 111>> : sg \in Sigils, n \in 122..127}             \* 2-byte chars: 250..260 bytes
  \cup {<<sg>> \o <<97, 58>> \o Rep(97, n) : sg \in Sigils, n \in 249..254}                              \* long server part
  \cup {lp \o <<58>> \o sn : lp \in {<<97>>}, sn \in {<<115,46,99,111>>}}                               \* no sigil
  \cup {<<>>, <<64>>, <<58>>, <<64, 58>>}
EventCands == SigiledCands \cup EventsNoColon \cup {<<36>> \o Rep(97, n) : n \in {43, 253, 254, 255, 256, 300}}

KeyCands == {a \o <<58>> \o k : a \in KeyAlgs, k \in KeyNames} \cup {a : a \in KeyAlgs}
            \cup {Rep(97, n) \o <<58, 120>> : n \in 253..258 \cup {511, 512, 513}}
            \cup {Rep(233, n) \o <<58, 120>> : n \in 126..130 \cup {255, 256, 257}}

MxcCands == {MXCPREFIX \o sn \o <<47>> \o m : sn \in ServerNames \cup {Rep(97, n) : n \in 243..258 \cup {504, 505, 506, 507}}, m \in MediaIds}
            \cup MxcBroken

VersionCands == Versions \cup {Rep(97, n) : n \in {31, 32, 33}} \cup {Rep(233, n) : n \in {31, 32, 33}}
                \cup {Rep(128512, n) : n \in {16, 32, 33}}

\* a . = _ - / space, e-acute, an Arabic-Indic digit, a CJK letter (alphanumeric in Unicode, not in the grammar)
TokenCands == {<<97>>, <<>>, <<65,48,46,61,95,45>>, <<97,47,98>>, <<97,32,98>>, <<233>>, <<1635>>, <<31192,23494>>, <<97,0>>, <<43>>}
              \cup {Rep(97, n) : n \in {254, 255, 256, 300}} \cup {Rep(233, n) : n \in {127, 128}}
B64Cands == {<<65,65,65,65>>, <<>>, <<97,43,98,47,48>>, <<61,61,61,61>>, <<61,97,61,98>>, <<65,65,61,61>>, <<97,45,98,95>>, <<1082,1083,1102,1095>>,
             <<97,32,98>>, <<233>>, <<1635>>, <<97,58,98>>}
Kinds == {"server", "user", "alias", "room", "roomoralias", "event", "serverkey", "devicekey", "mxc", "version", "clientsecret", "sessionid", "b64key"}
Cands(kind) ==
  CASE kind = "server" -> ServerCands
    [] kind \in {"user", "alias", "room", "roomoralias"} -> SigiledCands
    [] kind = "event" -> EventCands
    [] kind \in {"serverkey", "devicekey"} -> KeyCands
    [] kind = "mxc" -> MxcCands
    [] kind = "version" -> VersionCands
    [] kind \in {"clientsecret", "sessionid"} -> TokenCands
    [] kind = "b64key" -> B64Cands

VARIABLES phase, kind, s
Init == phase = 0 /\ kind \in Kinds /\ s = <<>>
Next == phase = 0 /\ phase' = 1 /\ UNCHANGED kind /\ s' \in Cands(kind)

\* run-length encoding for transport
RECURSIVE Runs(_)
Runs(q) == IF q = <<>> THEN <<>>
           ELSE LET n == CHOOSE n \in 1..Len(q) : (\A i \in 1..n : q[i] = q[1]) /\ (n = Len(q) \/ q[n + 1] # q[1])
                IN <<<<q[1], n>>>> \o Runs(SubSeq(q, n + 1, Len(q)))

\* model lemma: a "must" sigiled id decomposes and recomposes
ThmRecompose == (phase = 1 /\ kind \in {"user", "alias"} /\ Verdict(kind, s) = "must") =>
   LET c == ColonPos(s) IN <<s[1]>> \o SubSeq(s, 2, c - 1) \o <<58>> \o SubSeq(s, c + 1, Len(s)) = s

Emit == phase = 1 =>
  PrintT(<<"CASE", ToJson([kind |-> kind, runs |-> Runs(s), bytes |-> Bytes(s), verdict |-> Verdict(kind, s),
                           \* the component in front of the FIRST colon (localpart / algorithm): what the accessors must return
                           hascolon |-> ColonPos(s) > 1,
                           head |-> IF ColonPos(s) <= 1 THEN <<>>
                                    ELSE Runs(SubSeq(s, IF kind \in {"serverkey", "devicekey"} THEN 1 ELSE 2, ColonPos(s) - 1))])>>)
=============================================================================

------------------------------ MODULE Trace_C10 ------------------------------
(* impl -> spec: recorded parses of mutated identifiers, judged by Identifiers. *)
EXTENDS Identifiers, Json, IOUtils

Rec == ndJsonDeserialize(IOEnv.TRACE)
VARIABLE i
Init == i \in 1..Len(Rec)
Next == UNCHANGED i

RECURSIVE Expand(_)
Expand(runs) == IF runs = <<>> THEN <<>> ELSE [k \in 1..runs[1][2] |-> runs[1][1]] \o Expand(Tail(runs))

Agrees(r) ==
  LET s == Expand(r.runs)  v == Verdict(r.kind, s) IN
  /\ ~r.panic /\ r.agree /\ r.stored /\ r.recompose
  /\ (v = "must" => r.accepted)
  /\ (v = "mustnot" => ~r.accepted)
Check == Agrees(Rec[i]) \/ PrintT(<<"MISMATCH", i>>)
=============================================================================

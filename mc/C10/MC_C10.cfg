INIT Init
NEXT Next
INVARIANT ThmRecompose
INVARIANT Emit
CHECK_DEADLOCK FALSE

------------------------------- MODULE MC_C12 -------------------------------
(* C12 push evaluation: exhaustive small scopes of                              *)
(*  glob : every pattern x text over a small alphabet (whole-value and word     *)
(*         matching),                                                           *)
(*  prio : every ruleset of <= 3 rules over kinds x enabled x matches,          *)
(*  flat : nested events with keys containing '.' and '\' (paths, leaves,       *)
(*         event_match / event_property_is / event_property_contains),          *)
(*  count: room_member_count comparisons.                                       *)
EXTENDS PushEval, Json, TLC

CONSTANTS MaxP, MaxT

Seqs(A, n) == UNION {[1..k -> A] : k \in 0..n}
PatAlpha == {97, 98, 45, 65, Star, Quest}            \* a b - A * ?
TextAlpha == {97, 98, 95, 45, 32, 10, 233, 65, Star}  \* a b _ - space newline e-acute A *

\* ---- tagged JSON values, one shape
JStr(s) == [t |-> "str", mem |-> <<>>, s |-> s, n |-> 0, b |-> FALSE, items |-> <<>>]
JInt(n) == [t |-> "int", mem |-> <<>>, s |-> <<>>, n |-> n, b |-> FALSE, items |-> <<>>]
JBool(b) == [t |-> "bool", mem |-> <<>>, s |-> <<>>, n |-> 0, b |-> b, items |-> <<>>]
JNull == [t |-> "null", mem |-> <<>>, s |-> <<>>, n |-> 0, b |-> FALSE, items |-> <<>>]
JArr(items) == [t |-> "arr", mem |-> <<>>, s |-> <<>>, n |-> 0, b |-> FALSE, items |-> items]
JObj(mem) == [t |-> "obj", mem |-> mem, s |-> <<>>, n |-> 0, b |-> FALSE, items |-> <<>>]
\* a JSON number that is not an integer of the Matrix range (1: 1.5, 2: 2^53 + 1): equal to no scalar
JFloat(n) == [t |-> "float", mem |-> <<>>, s |-> <<>>, n |-> n, b |-> FALSE, items |-> <<>>]

X == <<120>>
Keys == {<<97>>, <<97, 46, 98>>, <<97, 92, 98>>, <<98>>, <<46>>, <<>>}     \* a  a.b  a\b  b  .  and the empty name
Leaves == {JStr(X), JStr(<<>>), JInt(1), JBool(TRUE), JNull, JArr(<<JStr(X), JInt(1)>>), JArr(<<>>), JObj(<<>>),
           \* arrays holding elements that are not scalars next to the scalars searched for
           JArr(<<JStr(X), JObj(<<>>)>>), JArr(<<JObj(<<[k |-> <<98>>, v |-> JStr(X)]>>), JInt(1), JNull>>),
           JArr(<<JArr(<<JStr(X)>>), JBool(TRUE)>>), JArr(<<JFloat(1), JStr(X)>>), JArr(<<JInt(1), JFloat(2)>>), JArr(<<JArr(<<>>)>>),
           JFloat(1),
           \* integers other than small positive ones: zero, negative, and inside arrays
           JInt(0), JInt(-1), JArr(<<JInt(-1), JInt(0)>>)}
Obj1 == {JObj(<<[k |-> k1, v |-> l]>>) : k1 \in Keys, l \in Leaves}
        \cup {JObj(<<[k |-> kk[1], v |-> l1], [k |-> kk[2], v |-> l2]>>) :
                 kk \in {q \in Keys \X Keys : q[1] # q[2]}, l1 \in {JStr(X), JInt(1)}, l2 \in {JStr(X), JObj(<<>>)}}

Parts == {"glob", "prio", "flat", "count"}
VARIABLES phase, part, a, b
vars == <<phase, part, a, b>>

\* rule descriptor for the priority part
Kinds5 == {"override", "content", "room", "sender", "underride"}
RuleDescs == [kind : Kinds5, enabled : BOOLEAN, matches : BOOLEAN]

Init == /\ phase = 0
        /\ \/ part = "glob" /\ a \in Seqs(PatAlpha, MaxP) /\ b = <<>>
           \/ part = "lit" /\ a \in Seqs({97, 98, 32}, 3) \ {<<>>} /\ b = <<>>      \* literal patterns, longer bodies:
                                                                                \* repeated partial matches, restarts
           \/ part = "prio" /\ a \in BOOLEAN /\ b = <<>>            \* a = event sent by the user themselves
           \/ part = "flat" /\ a \in Keys /\ b = <<>>
           \/ part = "count" /\ a \in {"", "==", "<", ">", "<=", ">="} /\ b = <<>>

AtMostOneMatch(s, kind) == Cardinality({i \in 1..Len(s) : s[i].kind = kind /\ s[i].matches}) <= 1

Next == /\ phase = 0 /\ phase' = 1 /\ UNCHANGED <<part, a>>
        /\ \/ part = "glob" /\ b' \in Seqs(TextAlpha, MaxT)
           \/ part = "lit" /\ b' \in Seqs({97, 98, 32}, MaxT + 3)
           \/ part = "prio" /\ b' \in Seqs(RuleDescs, 3) /\ AtMostOneMatch(b', "room") /\ AtMostOneMatch(b', "sender")
           \/ part = "flat" /\ b' \in {JObj(<<[k |-> a, v |-> o]>>) : o \in Obj1 \cup Leaves}
                                   \cup {JObj(<<[k |-> a, v |-> o], [k |-> <<99>>, v |-> JStr(X)]>>) : o \in Obj1}
           \/ part = "count" /\ b' \in {1, 2, 3} \X {1, 2, 3}

\* ---- model theorems
ThmPathsUnique == (phase = 1 /\ part = "flat") => PathsUnique(b)
\* a literal pattern matches as a word whenever it matches the whole value
ThmWholeImpliesWord == (phase = 1 /\ part = "glob" /\ a # <<>> /\ Glob(a, b)) => WordStrict(a, b)
\* a name without wildcard characters is found exactly where the same literal pattern is found
ThmNameIsLiteralPattern == (phase = 1 /\ part \in {"glob", "lit"} /\ ~HasWildcard(a)) => DisplayNameVerdict(a, b) = WordVerdict(a, b)
\* strict reading implies liberal reading (the three-valued verdict is well defined)
ThmStrictLiberal == (phase = 1 /\ part \in {"glob", "lit"}) => (WordStrict(a, b) => WordLiberal(a, b))
\* a disabled or non-matching rule is never selected; own events match nothing
PrioRules == [k \in Kinds5 |-> LET idx == {i \in 1..Len(b) : b[i].kind = k} IN
                 [j \in 1..Cardinality(idx) |->
                    LET i == CHOOSE i \in idx : Cardinality({x \in idx : x < i}) = j - 1 IN
                    [id |-> i, enabled |-> b[i].enabled, matches |-> b[i].matches]]]
PrioExpected == GetMatch(PrioRules, a)
ThmPrio == (phase = 1 /\ part = "prio") =>
             (PrioExpected # 0 => b[PrioExpected].enabled /\ b[PrioExpected].matches /\ ~a)

\* ---- emission
RECURSIVE CJ(_)
CJ(v) == CASE v.t = "obj" -> [o |-> [i \in 1..Len(v.mem) |-> [k |-> v.mem[i].k, v |-> CJ(v.mem[i].v)]]]
           [] v.t = "str" -> [s |-> v.s]
           [] v.t = "int" -> [i |-> v.n]
           [] v.t = "bool" -> [b |-> v.b]
           [] v.t = "null" -> [z |-> 0]
           [] v.t = "float" -> [f |-> v.n]
           [] v.t = "arr" -> [a |-> [i \in 1..Len(v.items) |-> CJ(v.items[i])]]
           [] OTHER -> [absent |-> 1]

Probe == {JStr(X), JInt(1), JBool(TRUE), JNull, JInt(0), JInt(-1)}
FlatCase ==
  LET ps == Paths(b) IN
  [part |-> "flat", ev |-> CJ(b), probes |-> {CJ(q) : q \in Probe},
   leaves |-> {[path |-> p, leaf |-> CJ(Lookup(b, p)),
                star |-> EventMatch(b, p, <<Star>>, FALSE), lit |-> EventMatch(b, p, X, FALSE),
                is |-> {CJ(q) : q \in {q \in Probe : PropertyIs(b, p, q)}},
                contains |-> {CJ(q) : q \in {q \in Probe : PropertyContains(b, p, q)}}] : p \in ps},
   \* unescaped spellings must not resolve to nested leaves
   absent |-> {p \in {<<97, 46, 98>>, <<97>>, <<98>>, <<97, 92, 98>>, <<97, 46, 98, 46, 98>>, <<46>>} : p \notin ps}]

Emit == phase = 1 =>
  PrintT(<<"CASE", ToJson(
     CASE part \in {"glob", "lit"} -> [part |-> "glob", p |-> a, t |-> b, whole |-> Glob(a, b), word |-> WordVerdict(a, b),
                            lit |-> ~HasWildcard(a), dn |-> DisplayNameVerdict(a, b)]
       [] part = "prio" -> [part |-> "prio", own |-> a, rules |-> b, exp |-> PrioExpected]
       [] part = "flat" -> FlatCase
       [] part = "count" -> [part |-> "count", op |-> a, n |-> b[1], count |-> b[2], exp |-> CountIs(a, b[1], b[2])])>>)
=============================================================================

INIT Init
NEXT Next
CONSTANT MaxP = 3
CONSTANT MaxT = 4
INVARIANT ThmPathsUnique
INVARIANT ThmWholeImpliesWord
INVARIANT ThmStrictLiberal
INVARIANT ThmNameIsLiteralPattern
INVARIANT ThmPrio
INVARIANT Emit
CHECK_DEADLOCK FALSE

------------------------------ MODULE Trace_C12 ------------------------------
(* impl -> spec: recorded event_match / contains_display_name evaluations of   *)
(* the real code on random longer patterns and bodies, judged by PushGlob.     *)
EXTENDS PushGlob, Json, IOUtils, TLC

Rec == ndJsonDeserialize(IOEnv.TRACE)
VARIABLE i
Init == i \in 1..Len(Rec)
Next == UNCHANGED i

OkWord(verdict, got) == (verdict = "must" => got) /\ (verdict = "mustnot" => ~got)
Agrees(r) ==
  /\ ~r.panic
  /\ r.whole = Glob(r.p, r.t)
  /\ OkWord(WordVerdict(r.p, r.t), r.word)
  /\ (r.hasdn => OkWord(DisplayNameVerdict(r.p, r.t), r.dn))
Check == Agrees(Rec[i]) \/ PrintT(<<"MISMATCH", i>>)
=============================================================================

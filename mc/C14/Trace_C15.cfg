INIT Init
NEXT Next
INVARIANT Check15
CHECK_DEADLOCK FALSE

---------------------------- MODULE HtmlConfigs ----------------------------
(* Named sanitizer configurations reachable through the public builder; the   *)
(* harness builds the same configuration from the same name.                  *)
EXTENDS HtmlSanitizer

Unset == [kind |-> "unset", s |-> {}, m |-> <<>>]
Base(mode, noreply) ==
  [mode |-> mode, noreply |-> noreply, remove_el |-> {}, ignore_el |-> {}, allow_el |-> Unset, replace_el |-> Unset,
   allow_at |-> Unset, remove_at |-> <<>>, replace_at |-> Unset, allow_sc |-> Unset, deny_sc |-> <<>>,
   allow_cl |-> Unset, remove_cl |-> <<>>, max_depth |-> -1]
L(kind, s) == [kind |-> kind, s |-> s, m |-> <<>>]
Mp(kind, m) == [kind |-> kind, s |-> {}, m |-> m]
TEL == <<116,101,108>>
EVIL == <<108,97,110,103,117,97,103,101,45,101,118,105,108>>     \* "language-evil"
X == <<120>>

StandardNames == {"strict", "compat", "strict+noreply", "compat+noreply"}
ConfigNames == StandardNames \cup {"none+noreply", "none", "strict.remove(b)", "strict.ignore(a,i)", "strict.allow+(x-foo)",
  "strict.allow=(b,a)", "compat.noreply.remove(hr)", "compat.remove(hr).noreply", "strict.attrs+(a:data-x)", "strict.attrs=(a:href)",
  "strict.rmattrs(a:target)", "strict.schemes+(a.href:tel)", "strict.schemes=(a.href:tel)", "strict.deny(a.href:http)",
  "strict.classes+(code:x*)", "strict.rmclasses(code:language-evil*)", "strict.depth2", "none.depth3", "strict.replace(b->strong)",
  "none.allow=(b,a).attrs=(a:href).schemes=(a.href:https)", "strict.replaceattrs(a:title->data-x)",
  \* the list options on top of the compat mode (whose extra entries an override list must replace as well)
  "compat.schemes=(a.href:tel)", "compat.schemes+(a.href:tel)", "compat.deny(a.href:matrix)", "compat.attrs=(a:href)", "compat.allow=(b,a)",
  "compat.classes=(code:x*)"}

Config(name) ==
  CASE name = "strict" -> Base("strict", FALSE)
    [] name = "compat" -> Base("compat", FALSE)
    [] name = "strict+noreply" -> Base("strict", TRUE)
    [] name = "compat+noreply" -> Base("compat", TRUE)
    [] name = "none+noreply" -> Base("none", TRUE)
    [] name = "none" -> Base("none", FALSE)
    [] name = "strict.remove(b)" -> [Base("strict", FALSE) EXCEPT !.remove_el = {"b"}]
    [] name = "strict.ignore(a,i)" -> [Base("strict", FALSE) EXCEPT !.ignore_el = {"a", "i"}]
    [] name = "strict.allow+(x-foo)" -> [Base("strict", FALSE) EXCEPT !.allow_el = L("add", {"x-foo"})]
    [] name = "strict.allow=(b,a)" -> [Base("strict", FALSE) EXCEPT !.allow_el = L("override", {"b", "a"})]
    [] name = "compat.noreply.remove(hr)" -> [Base("compat", TRUE) EXCEPT !.remove_el = {"hr"}]
    [] name = "compat.remove(hr).noreply" -> [Base("compat", TRUE) EXCEPT !.remove_el = {"hr"}]
    [] name = "strict.attrs+(a:data-x)" -> [Base("strict", FALSE) EXCEPT !.allow_at = Mp("add", ("a" :> {"data-x"}))]
    [] name = "strict.attrs=(a:href)" -> [Base("strict", FALSE) EXCEPT !.allow_at = Mp("override", ("a" :> {"href"}))]
    [] name = "strict.rmattrs(a:target)" -> [Base("strict", FALSE) EXCEPT !.remove_at = ("a" :> {"target"})]
    [] name = "strict.schemes+(a.href:tel)" -> [Base("strict", FALSE) EXCEPT !.allow_sc = Mp("add", ("a" :> ("href" :> {TEL})))]
    [] name = "strict.schemes=(a.href:tel)" -> [Base("strict", FALSE) EXCEPT !.allow_sc = Mp("override", ("a" :> ("href" :> {TEL})))]
    [] name = "strict.deny(a.href:http)" -> [Base("strict", FALSE) EXCEPT !.deny_sc = ("a" :> ("href" :> {HTTP}))]
    [] name = "strict.classes+(code:x*)" -> [Base("strict", FALSE) EXCEPT !.allow_cl = Mp("add", ("code" :> {[prefix |-> X, star |-> TRUE]}))]
    [] name = "strict.rmclasses(code:language-evil*)" -> [Base("strict", FALSE) EXCEPT !.remove_cl = ("code" :> {[prefix |-> EVIL, star |-> TRUE]})]
    [] name = "strict.depth2" -> [Base("strict", FALSE) EXCEPT !.max_depth = 2]
    [] name = "none.depth3" -> [Base("none", FALSE) EXCEPT !.max_depth = 3]
    [] name = "strict.replace(b->strong)" -> [Base("strict", FALSE) EXCEPT !.replace_el = Mp("add", ("b" :> "strong"))]
    [] name = "none.allow=(b,a).attrs=(a:href).schemes=(a.href:https)" ->
         [Base("none", FALSE) EXCEPT !.allow_el = L("override", {"b", "a"}), !.allow_at = Mp("override", ("a" :> {"href"})),
                                      !.allow_sc = Mp("override", ("a" :> ("href" :> {HTTPS})))]
    [] name = "strict.replaceattrs(a:title->data-x)" -> [Base("strict", FALSE) EXCEPT !.replace_at = Mp("add", ("a" :> ("title" :> "data-x")))]
    [] name = "compat.schemes=(a.href:tel)" -> [Base("compat", FALSE) EXCEPT !.allow_sc = Mp("override", ("a" :> ("href" :> {TEL})))]
    [] name = "compat.schemes+(a.href:tel)" -> [Base("compat", FALSE) EXCEPT !.allow_sc = Mp("add", ("a" :> ("href" :> {TEL})))]
    [] name = "compat.deny(a.href:matrix)" -> [Base("compat", FALSE) EXCEPT !.deny_sc = ("a" :> ("href" :> {MATRIX}))]
    [] name = "compat.attrs=(a:href)" -> [Base("compat", FALSE) EXCEPT !.allow_at = Mp("override", ("a" :> {"href"}))]
    [] name = "compat.allow=(b,a)" -> [Base("compat", FALSE) EXCEPT !.allow_el = L("override", {"b", "a"})]
    [] name = "compat.classes=(code:x*)" -> [Base("compat", FALSE) EXCEPT !.allow_cl = Mp("override", ("code" :> {[prefix |-> X, star |-> TRUE]}))]
=============================================================================

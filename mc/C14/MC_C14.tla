------------------------------- MODULE MC_C14 -------------------------------
(* Model theorems of the sanitiser over small trees x every named config:     *)
(*   Safe(Clean(t, c), c)           (C14)                                     *)
(*   text of kept / ignored subtrees stays in document order                  *)
(*   Clean(Clean(t)) = Clean(t), and Safe /\ NoDeprecated => Clean(t) = t     *)
(*   for the standard configurations (C15)                                    *)
EXTENDS HtmlConfigs

T(s) == [k |-> "text", name |-> "", attrs |-> {}, kids |-> <<>>, text |-> s, foreign |-> FALSE]
O == [k |-> "other", name |-> "", attrs |-> {}, kids |-> <<>>, text |-> <<>>]
E(name, attrs, kids) == [k |-> "el", name |-> name, attrs |-> attrs, kids |-> kids, text |-> <<>>, foreign |-> FALSE]
A(n, v) == [n |-> n, v |-> v, ns |-> FALSE]
JS == <<106,97,118,97,115,99,114,105,112,116,58,120>>          \* javascript:x
HTTPU == <<104,116,116,112,58,47,47,120>>                      \* http://x
HTTPSU == <<104,116,116,112,115,58,47,47,120>>                 \* https://x
MXCU == <<109,120,99,58,47,47,120>>                            \* mxc://x
MATRIXU == <<109,97,116,114,105,120,58,117>>                   \* matrix:u
TELU == <<116,101,108,58,49>>                                  \* tel:1
REL == <<47,120>>                                              \* /x
UP == <<72,84,84,80,58,47,47,120>>                             \* HTTP://x
CLS == <<108,97,110,103,117,97,103,101,45,114,32,101,118,105,108,32,120,121>>   \* "language-r evil xy"
CLS2 == <<108,97,110,103,117,97,103,101,45,101,118,105,108,49>>                  \* "language-evil1"
Names == {"b", "a", "img", "code", "span", "font", "strike", "script", "x-foo", "mx-reply", "div", "i", "hr"}
AttrPool == {A("class", CLS), A("class", CLS2), A("data-x", X), A("href", HTTPU), A("href", JS), A("href", MATRIXU), A("href", TELU), A("href", REL),
             A("href", UP), A("href", HTTPSU), A("src", MXCU), A("src", HTTPU), A("target", X), A("title", X), A("color", X), A("alt", X)}
AttrSets == {S \in SUBSET AttrPool : Cardinality(S) <= 2 /\ \A p, q \in S : p.n = q.n => p = q}
TX == T(<<116>>)
KidForests == { <<>>, <<TX>>, <<E("b", {}, <<TX>>)>>, <<E("script", {}, <<TX>>), T(<<117>>)>>,
                <<E("mx-reply", {}, <<E("a", {A("href", JS)}, <<TX>>)>>)>>,
                <<E("font", {A("color", X)}, <<E("x-foo", {}, <<E("img", {A("src", HTTPU), A("alt", X)}, <<>>)>>)>>)>>,
                <<O, E("i", {}, <<E("b", {}, <<E("hr", {}, <<>>), T(<<118>>)>>)>>)>> }

VARIABLES phase, cname, tree
Init == phase = 0 /\ cname \in ConfigNames /\ \E n \in Names : tree = <<E(n, {}, <<>>)>>
Next == /\ phase = 0 /\ phase' = 1 /\ UNCHANGED cname
        /\ \E at \in AttrSets, kids \in KidForests, sib \in {<<>>, <<T(<<119>>)>>, <<E("strike", {}, <<TX>>)>>} :
             tree' = <<E(tree[1].name, at, kids)>> \o sib

cfg == Config(cname)
Out == Clean(tree, cfg)
ThmSafe == phase = 1 => Safe(Out, cfg)
\* nothing is invented: the text of the output is a subsequence-by-deletion of whole text nodes of the input
RECURSIVE IsSubseq(_, _)
IsSubseq(a, b) == IF a = <<>> THEN TRUE ELSE IF b = <<>> THEN FALSE
                  ELSE IF Head(a) = Head(b) THEN IsSubseq(Tail(a), Tail(b)) ELSE IsSubseq(a, Tail(b))
ThmTextOrder == phase = 1 => IsSubseq(TextOfSeq(Out), TextOfSeq(tree))
\* in strict / compat mode without removal lists, all text outside removed (mx-reply, too deep) subtrees survives
ThmTextKept == (phase = 1 /\ cname \in {"strict", "compat"}) => TextOfSeq(Out) = TextOfSeq(tree)
ThmIdempotent == (phase = 1 /\ cname \in StandardNames) => Clean(Out, cfg) = Out
ThmFixpoint == (phase = 1 /\ cname \in StandardNames /\ Safe(tree, cfg) /\ NoDeprecated(tree)) => Out = tree
\* the two builder orders denote the same configuration
ThmBuilderOrder == Config("compat.noreply.remove(hr)") = Config("compat.remove(hr).noreply")
=============================================================================

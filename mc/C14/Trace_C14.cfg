INIT Init
NEXT Next
INVARIANT Check14
CHECK_DEADLOCK FALSE

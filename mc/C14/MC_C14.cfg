INIT Init
NEXT Next
INVARIANT ThmSafe
INVARIANT ThmTextOrder
INVARIANT ThmTextKept
INVARIANT ThmIdempotent
INVARIANT ThmFixpoint
INVARIANT ThmBuilderOrder
CHECK_DEADLOCK FALSE

------------------------------ MODULE Trace_C14 ------------------------------
(* impl -> spec for C14 and C15: for every recorded sanitisation of a grammar-  *)
(* generated document the tree after must be Clean(before), the re-parsed       *)
(* output must be Safe, and the idempotence / fixpoint facts must hold.         *)
EXTENDS HtmlConfigs, Json, IOUtils

Rec == ndJsonDeserialize(IOEnv.TRACE)
VARIABLE i
Init == i \in 1..Len(Rec)
Next == UNCHANGED i

RECURSIVE ToNode(_)
ToNode(x) == [k |-> x.k, name |-> x.name, attrs |-> {[n |-> x.attrs[j].n, v |-> x.attrs[j].v, ns |-> x.attrs[j].ns] : j \in 1..Len(x.attrs)},
              kids |-> [j \in 1..Len(x.kids) |-> ToNode(x.kids[j])], text |-> x.text, foreign |-> x.foreign]
Forest(f) == [j \in 1..Len(f) |-> ToNode(f[j])]

C14(r) == LET cfg == Config(r.cfg) IN
  /\ ~r.panic
  /\ Forest(r.after) = Clean(Forest(r.before), cfg)
  /\ Safe(Forest(r.reparsed), cfg)
  /\ r.helper_eq                                  \* sanitize_html / remove_html_reply_fallback / Html::sanitize = that configuration
C15(r) == LET cfg == Config(r.cfg)  re == Forest(r.reparsed) IN
  /\ ~r.panic
  /\ r.twice_eq                                   \* sanitising the same document object twice = once
  /\ r.sanre_eq /\ r.sanre_text_eq                \* sanitising sanitised output = parse-and-reserialise
  /\ r.helper_eq
  /\ (r.cfg \in StandardNames => Clean(re, cfg) = re)
  /\ ((r.cfg \in StandardNames /\ Safe(Forest(r.before), cfg) /\ NoDeprecated(Forest(r.before))) => Forest(r.after) = Forest(r.before))
\* "text ... kept in order", as seen by an HTML parser: writing the sanitised tree and parsing it again keeps the text where it is
RECURSIVE TextOfNode(_)
RECURSIVE TextOfForest(_)
TextOfForest(f) == IF f = <<>> THEN <<>> ELSE TextOfNode(f[1]) \o TextOfForest(Tail(f))
TextOfNode(n) == IF n.k = "text" THEN n.text ELSE TextOfForest(n.kids)
OrderKept(r) == r.panic \/ TextOfForest(Forest(r.reparsed)) = TextOfForest(Forest(r.after))
Check14 == (C14(Rec[i]) \/ PrintT(<<"MISMATCH", i>>)) /\ (OrderKept(Rec[i]) \/ PrintT(<<"ORDER", i>>))
Check15 == (Rec[i].cfg \notin StandardNames) \/ C15(Rec[i]) \/ PrintT(<<"MISMATCH", i>>)
=============================================================================

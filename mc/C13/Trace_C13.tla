------------------------------ MODULE Trace_C13 ------------------------------
(* impl -> spec: long operation sequences recorded from a real Ruleset must be *)
(* behaviours of PushRuleset.  Every record carries the full projected list of *)
(* the kind it addressed, so validation is linear; a call the specification    *)
(* does not permit is reported and the logged state adopted, so that the rest  *)
(* of the trace is still checked.                                              *)
EXTENDS PushRuleset, Json, IOUtils, TLC

Rec == ndJsonDeserialize(IOEnv.TRACE)
Kinds == {"override", "underride", "content", "room", "sender"}
VARIABLES rules, l
vars == <<rules, l>>

Init == l = 1 /\ rules = [k \in Kinds |-> <<>>]

\* simple (room / sender) rules have no payload: it is projected to 0
Norm(simple, q) == IF simple THEN [i \in 1..Len(q) |-> [q[i] EXCEPT !.payload = 0]] ELSE q

Explained(r, s) ==
  LET op == [op |-> r.op, id |-> r.id, p |-> r.p, after |-> r.after, before |-> r.before, en |-> r.en]
      o == Outcome(s, r.ovr, op)
      posts == {Norm(r.simple, q) : q \in o.posts}
  IN CASE o.err = "ok" -> r.res = "ok" /\ r.post \in posts
       [] o.err = "any" -> (r.res = "err" /\ r.post = s) \/ (r.res = "ok" /\ r.post \in posts)
       [] OTHER -> r.res = "err" /\ r.post = s

StepReset == /\ l <= Len(Rec) /\ Rec[l].ev = "reset"
             /\ rules' = [k \in Kinds |-> Rec[l][k]]
             /\ l' = l + 1

StepCall == /\ l <= Len(Rec) /\ Rec[l].ev = "call"
            /\ LET r == Rec[l] IN
               /\ IF Explained(r, rules[r.kind]) THEN TRUE ELSE PrintT(<<"MISMATCH", l>>)
               /\ rules' = [rules EXCEPT ![r.kind] = r.post]
            /\ l' = l + 1

Next == StepReset \/ StepCall

\* design invariants evaluated on every observed state of the implementation
ObsUnique == \A k \in Kinds : IF Unique(rules[k]) THEN TRUE ELSE PrintT(<<"MISMATCH", l - 1>>)
=============================================================================

------------------------------ MODULE Trace_C13 ------------------------------
(* impl -> spec: long operation sequences recorded from a real Ruleset must be *)
(* behaviours of PushRuleset.  Every record carries the full projected list of *)
(* the kind it addressed, so validation is linear; a call the specification    *)
(* does not permit is reported and the logged state adopted, so that the rest  *)
(* of the trace is still checked.                                              *)
EXTENDS PushRuleset, Json, IOUtils, TLC

Rec == ndJsonDeserialize(IOEnv.TRACE)
Kinds == {"override", "underride", "content", "room", "sender"}
VARIABLES rules, l, plain
vars == <<rules, l, plain>>

Init == l = 1 /\ rules = [k \in Kinds |-> <<>>] /\ plain = FALSE

\* ---- evaluation after edits (C12 on top of C13): the rule selected for a fixed probe event is the first enabled matching rule
\* in the order override, content, room, sender, underride of the lists as they are now.  The probe is built so that a rule
\* matches iff its payload is 1 (conditional and content rules) or its id is the probe's room / sender (simple rules); only
\* walks that started from the empty ruleset are judged (no server-default rules, whose conditions are not modelled here).
ProbeRoom == <<33, 97, 58, 115, 46, 99, 111>>       \* !a:s.co
ProbeSender == <<64, 97, 58, 115, 46, 99, 111>>     \* @a:s.co
MatchesProbe(k, r) == CASE k = "room" -> r.id = ProbeRoom [] k = "sender" -> r.id = ProbeSender [] OTHER -> r.payload = 1
EvalOrder == <<"override", "content", "room", "sender", "underride">>
RECURSIVE FirstIn(_, _, _)
FirstIn(k, s, i) == IF i > Len(s) THEN <<>> ELSE IF s[i].enabled /\ MatchesProbe(k, s[i]) THEN s[i].id ELSE FirstIn(k, s, i + 1)
RECURSIVE FirstMatch(_, _)
FirstMatch(rs, j) == IF j > Len(EvalOrder) THEN [kind |-> "none", id |-> <<0>>]
                     ELSE LET k == EvalOrder[j]  hit == FirstIn(k, rs[k], 1) IN
                          IF hit # <<>> \/ (\E i \in 1..Len(rs[k]) : rs[k][i].enabled /\ MatchesProbe(k, rs[k][i]) /\ rs[k][i].id = <<>>)
                          THEN [kind |-> k, id |-> hit] ELSE FirstMatch(rs, j + 1)
MatchOk(r, rs, pl) == (~pl) \/ (r.match.kind = FirstMatch(rs, 1).kind /\ r.match.id = FirstMatch(rs, 1).id)

\* simple (room / sender) rules have no payload: it is projected to 0
Norm(simple, q) == IF simple THEN [i \in 1..Len(q) |-> [q[i] EXCEPT !.payload = 0]] ELSE q

Explained(r, s) ==
  LET op == [op |-> r.op, id |-> r.id, p |-> r.p, after |-> r.after, before |-> r.before, en |-> r.en]
      o == Outcome(s, r.ovr, op)
      posts == {Norm(r.simple, q) : q \in o.posts}
  IN CASE o.err = "ok" -> r.res = "ok" /\ r.post \in posts
       [] o.err = "any" -> (r.res = "err" /\ r.post = s) \/ (r.res = "ok" /\ r.post \in posts)
       [] OTHER -> r.res = "err" /\ r.post = s

StepReset == /\ l <= Len(Rec) /\ Rec[l].ev = "reset"
             /\ rules' = [k \in Kinds |-> Rec[l][k]]
             /\ plain' = Rec[l].plain
             /\ (IF MatchOk(Rec[l], [k \in Kinds |-> Rec[l][k]], Rec[l].plain) THEN TRUE ELSE PrintT(<<"MISMATCH", l>>))
             /\ l' = l + 1

StepCall == /\ l <= Len(Rec) /\ Rec[l].ev = "call"
            /\ LET r == Rec[l] IN
               /\ IF Explained(r, rules[r.kind]) /\ MatchOk(r, [rules EXCEPT ![r.kind] = r.post], plain) THEN TRUE ELSE PrintT(<<"MISMATCH", l>>)
               /\ rules' = [rules EXCEPT ![r.kind] = r.post]
               /\ plain' = plain
            /\ l' = l + 1

Next == StepReset \/ StepCall

\* design invariants evaluated on every observed state of the implementation
ObsUnique == \A k \in Kinds : IF Unique(rules[k]) THEN TRUE ELSE PrintT(<<"MISMATCH", l - 1>>)
=============================================================================

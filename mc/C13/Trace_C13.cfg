INIT Init
NEXT Next
INVARIANT ObsUnique
CHECK_DEADLOCK FALSE

INIT Init
NEXT Next
CONSTANT Ovr = FALSE
CONSTANT NIds = 2
CONSTANT NPay = 2
INVARIANT InvUnique
INVARIANT InvDefaults
INVARIANT InvMaster
INVARIANT Emit
CHECK_DEADLOCK FALSE

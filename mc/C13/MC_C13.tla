------------------------------- MODULE MC_C13 -------------------------------
(* All behaviours of one rule kind (override-like or plain) over a small id   *)
(* alphabet, from the empty and the server-default initial list; every        *)
(* (state, operation) pair is emitted with the set of permitted outcomes.     *)
EXTENDS PushRuleset, Json, TLC

CONSTANTS Ovr, NIds, NPay

A == <<97>>  B == <<98>>  C == <<99>>
Slash == <<97,47,98>>      \* "a/b"
Back == <<97,92>>          \* "a\"
DotD == <<46,100>>         \* ".d"
UserIds == IF NIds = 2 THEN {A, B} ELSE {A, B, C}
BadIds == {Slash, Back}
AllIds == UserIds \cup BadIds \cup {Master, DotD}
Anchors == UserIds \cup {Slash, DotD, None}
Pays == 1..NPay

VARIABLES s
D(id) == [id |-> id, default |-> TRUE, enabled |-> TRUE, payload |-> 0, act |-> 0]
Init == s \in {<<>>, IF Ovr THEN <<D(Master), D(DotD)>> ELSE <<D(DotD)>>}

Ops == [op : {"insert"}, id : AllIds, p : Pays, after : Anchors, before : Anchors, en : {TRUE}]
       \cup [op : {"remove"}, id : AllIds, p : {0}, after : {None}, before : {None}, en : {TRUE}]
       \cup [op : {"enable"}, id : AllIds, p : {0}, after : {None}, before : {None}, en : BOOLEAN]
       \cup [op : {"actions"}, id : AllIds, p : {NPay + 1}, after : {None}, before : {None}, en : {TRUE}]

\* flags of the server-default rules are not explored further (the calls on them are still emitted)
Next == \E op \in Ops : /\ (op.op \in {"enable", "actions"} => op.id \in UserIds)
                         /\ (op.op = "actions" => NPay > 1)
                         /\ s' \in Outcome(s, Ovr, op).posts

InvUnique == Unique(s)
InvDefaults == DefaultsStable(s)
InvMaster == (Ovr /\ Len(s) > 0) => MasterFirst(s)

\* compact projection of a list: one tuple per rule
Proj(q) == [i \in 1..Len(q) |-> <<q[i].id, q[i].default, q[i].enabled, q[i].payload, q[i].act>>]
EmitOp(op) == LET o == Outcome(s, Ovr, op) IN
  PrintT(<<"CASE", ToJson([ ovr |-> Ovr, pre |-> Proj(s), op |-> op.op, id |-> op.id, p |-> op.p, after |-> op.after,
                             before |-> op.before, en |-> op.en, err |-> o.err,
                             posts |-> {Proj(q) : q \in o.posts} ])>>)
Emit == \A op \in Ops : EmitOp(op)
=============================================================================

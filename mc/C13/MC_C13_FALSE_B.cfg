INIT Init
NEXT Next
CONSTANT Ovr = FALSE
CONSTANT NIds = 3
CONSTANT NPay = 1
INVARIANT InvUnique
INVARIANT InvDefaults
INVARIANT InvMaster
INVARIANT Emit
CHECK_DEADLOCK FALSE

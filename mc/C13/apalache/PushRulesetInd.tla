-------------------------- MODULE PushRulesetInd --------------------------
(* The design invariants of the push ruleset edit machine as an inductive     *)
(* invariant, for rule lists of any content up to length MaxLen and ANY ids    *)
(* (Apalache decides it symbolically; TLC only ever sees ids {a, b, c}).       *)
(* Ids are integers; which ids start with '.', which contain '/' or '\' and    *)
(* which id is ".m.rule.master" are arbitrary (constants constrained only by   *)
(* Master \in Dot).  The placement rules are those of PushRuleset.tla,         *)
(* restated on integer ids; self-anchored inserts are excluded (unspecified).  *)
EXTENDS Integers, Sequences

CONSTANTS
  \* @type: Set(Int);
  Dot,
  \* @type: Set(Int);
  Bad,
  \* @type: Int;
  Master,
  \* @type: Bool;
  Ovr

VARIABLES
  \* @type: Seq({id: Int, default: Bool, enabled: Bool, payload: Int});
  s

MaxLen == 5
None == -1

ConstInit == /\ Dot \in SUBSET (0..7) /\ Bad \in SUBSET (0..7) /\ Master \in Dot /\ Ovr \in BOOLEAN

\* @type: (Seq({id: Int, default: Bool, enabled: Bool, payload: Int}), Int) => Bool;
Has(q, id) == \E i \in DOMAIN q : q[i].id = id
\* @type: (Seq({id: Int, default: Bool, enabled: Bool, payload: Int}), Int) => Int;
IdxOf(q, id) == CHOOSE i \in DOMAIN q : q[i].id = id

\* @type: (Seq({id: Int, default: Bool, enabled: Bool, payload: Int})) => Bool;
Unique(q) == \A i, j \in DOMAIN q : q[i].id = q[j].id => i = j
\* @type: (Seq({id: Int, default: Bool, enabled: Bool, payload: Int})) => Bool;
DefaultsStable(q) == \A i \in DOMAIN q : q[i].default <=> (q[i].id \in Dot)
\* @type: (Seq({id: Int, default: Bool, enabled: Bool, payload: Int})) => Bool;
MasterFirst(q) == Has(q, Master) => q[1].id = Master
\* @type: (Seq({id: Int, default: Bool, enabled: Bool, payload: Int})) => Bool;
IdsInRange(q) == \A i \in DOMAIN q : q[i].id \in 0..7 /\ q[i].payload \in 0..1

Inv == Unique(s) /\ DefaultsStable(s) /\ (Ovr => MasterFirst(s))
IndInv == Len(s) <= MaxLen /\ IdsInRange(s) /\ Inv

\* r lands at index i of q
\* @type: (Seq({id: Int, default: Bool, enabled: Bool, payload: Int}), Int, {id: Int, default: Bool, enabled: Bool, payload: Int}) => Seq({id: Int, default: Bool, enabled: Bool, payload: Int});
InsAt(q, i, r) == SubSeq(q, 1, i - 1) \o <<r>> \o SubSeq(q, i, Len(q))
\* @type: (Seq({id: Int, default: Bool, enabled: Bool, payload: Int}), Int) => Seq({id: Int, default: Bool, enabled: Bool, payload: Int});
Without(q, id) == IF Has(q, id) THEN SubSeq(q, 1, IdxOf(q, id) - 1) \o SubSeq(q, IdxOf(q, id) + 1, Len(q)) ELSE q

InsertOk(id, after, before) ==
  /\ id \notin Dot /\ id \notin Bad
  /\ (after # None => after \notin Dot /\ Has(s, after))
  /\ (before # None => before \notin Dot /\ Has(s, before))
  /\ (after # None /\ before # None => IdxOf(s, before) >= IdxOf(s, after) + 1)
  /\ after # id /\ before # id

\* the permitted successor lists of a successful insert
\* @type: (Seq({id: Int, default: Bool, enabled: Bool, payload: Int}), Int, Int, Int, Int) => Set(Seq({id: Int, default: Bool, enabled: Bool, payload: Int}));
InsertPosts(q, id, p, after, before) ==
  LET old == Has(q, id)
      r == IF old THEN [q[IdxOf(q, id)] EXCEPT !.payload = p, !.default = FALSE]
           ELSE [id |-> id, default |-> FALSE, enabled |-> TRUE, payload |-> p]
      base == Without(q, id)
  IN IF before # None THEN {InsAt(base, IdxOf(base, before), r)}
     ELSE IF after # None THEN {InsAt(base, IdxOf(base, after) + 1, r)}
     ELSE IF old THEN {[q EXCEPT ![IdxOf(q, id)] = r]}
     ELSE IF Ovr /\ Len(q) >= 1 /\ q[1].id = Master THEN {InsAt(q, 2, r)}
     ELSE {InsAt(q, 1, r)}

Insert(id, p, after, before) == InsertOk(id, after, before) /\ s' \in InsertPosts(s, id, p, after, before)

Remove(id) == /\ Has(s, id) /\ ~s[IdxOf(s, id)].default /\ s' = Without(s, id)
Enable(id, en) == /\ Has(s, id) /\ s' = [s EXCEPT ![IdxOf(s, id)].enabled = en]
Failed == UNCHANGED s

Next ==
  \/ \E id \in 0..7, p \in 0..1, after \in -1..7, before \in -1..7 : Len(s) < MaxLen /\ Insert(id, p, after, before)
  \/ \E id \in 0..7 : Remove(id)
  \/ \E id \in 0..7, en \in BOOLEAN : Enable(id, en)
  \/ Failed

\* the server-default list is some list satisfying the invariant (the real one is checked by TLC); Init for the inductive step
Init == s = <<>>
=============================================================================

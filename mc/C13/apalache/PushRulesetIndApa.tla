------------------------- MODULE PushRulesetIndApa -------------------------
(* Apalache entry points for PushRulesetInd: the inductive step starts from an *)
(* arbitrary list of length <= MaxLen that satisfies the invariant.            *)
EXTENDS PushRulesetInd, Apalache
IndInit == s = Gen(MaxLen) /\ IndInv
=============================================================================

INIT Init
NEXT Next
INVARIANT InsertAgrees RemoveAgrees EnableAgrees InvariantsAgree
CHECK_DEADLOCK FALSE

------------------------------ MODULE EqCheck ------------------------------
(* Ties PushRulesetInd (integer ids, proved inductive by Apalache) to          *)
(* PushRuleset (the specification the implementation is bound to): on every    *)
(* rule list over a small id set and every operation, both give the same error *)
(* verdict and the same set of permitted successor lists.  Checked by TLC.     *)
EXTENDS Integers, Sequences, FiniteSets, TLC

VARIABLES q, ovr
P == INSTANCE PushRuleset
I1 == INSTANCE PushRulesetInd WITH Dot <- {6, 7}, Bad <- {5}, Master <- 6, Ovr <- TRUE, s <- q
I0 == INSTANCE PushRulesetInd WITH Dot <- {6, 7}, Bad <- {5}, Master <- 6, Ovr <- FALSE, s <- q
InsOk(id, a, b) == IF ovr THEN I1!InsertOk(id, a, b) ELSE I0!InsertOk(id, a, b)
InsPosts(id, p, a, b) == IF ovr THEN I1!InsertPosts(q, id, p, a, b) ELSE I0!InsertPosts(q, id, p, a, b)

Ids == {1, 2, 5, 6, 7}
ToSeq(i) == IF i = -1 THEN P!None ELSE IF i = 6 THEN P!Master ELSE IF i = 7 THEN <<46, 120>> ELSE IF i = 5 THEN <<97, 47>> ELSE <<97 + i>>
MapRule(r) == [id |-> ToSeq(r.id), default |-> r.default, enabled |-> r.enabled, payload |-> r.payload, act |-> r.payload]
MapList(l) == [k \in 1..Len(l) |-> MapRule(l[k])]

Rules == {[id |-> i, default |-> (i \in {6, 7}), enabled |-> e, payload |-> 0] : i \in {1, 2, 6, 7}, e \in BOOLEAN}
Lists == UNION {[1..n -> Rules] : n \in 0..3}

Init == ovr \in BOOLEAN /\ q \in {l \in Lists : I1!Unique(l) /\ (ovr => I1!MasterFirst(l))}
Next == UNCHANGED <<q, ovr>>

InsertAgrees ==
  \A id \in Ids, after \in {-1} \cup Ids, before \in {-1} \cup Ids :
    (after # id /\ before # id) =>
      LET o == P!InsertOutcome(MapList(q), ovr, ToSeq(id), 1, ToSeq(after), ToSeq(before)) IN
      /\ (o.err = "ok") <=> InsOk(id, after, before)
      /\ (o.err = "ok" => o.posts = {MapList(x) : x \in InsPosts(id, 1, after, before)})
      /\ (o.err # "ok" => o.posts = {MapList(q)})
RemoveAgrees ==
  \A id \in Ids : LET o == P!RemoveOutcome(MapList(q), ToSeq(id)) IN
    /\ (o.err = "ok") <=> (I1!Has(q, id) /\ ~q[I1!IdxOf(q, id)].default)
    /\ (o.err = "ok" => o.posts = {MapList(I1!Without(q, id))})
EnableAgrees ==
  \A id \in Ids, en \in BOOLEAN : LET o == P!EnableOutcome(MapList(q), ToSeq(id), en) IN
    /\ (o.err = "ok") <=> I1!Has(q, id)
    /\ (o.err = "ok" => o.posts = {MapList([q EXCEPT ![I1!IdxOf(q, id)].enabled = en])})
InvariantsAgree == /\ I1!Unique(q) <=> P!Unique(MapList(q))
                   /\ I1!DefaultsStable(q) <=> P!DefaultsStable(MapList(q))
                   /\ I1!MasterFirst(q) <=> P!MasterFirst(MapList(q))
=============================================================================

------------------------------ MODULE Trace_C18 ------------------------------
EXTENDS Events, Json, IOUtils, TLC, Sequences
Rec == ndJsonDeserialize(IOEnv.TRACE)
VARIABLE i
Init == i \in 1..Len(Rec)
Next == UNCHANGED i
Check == Agrees(Rec[i]) \/ PrintT(<<"MISMATCH", i>>)
=============================================================================

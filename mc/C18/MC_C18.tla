------------------------------- MODULE MC_C18 -------------------------------
(* the dispatch table as cases: every kind x known / unknown type x format x redacted *)
EXTENDS Events, Json, TLC
Unknown == {"org.example.unknown", "m.room.unknown", "M.ROOM.MEMBER"}
Formats(kind) == IF kind = "state" THEN {"sync", "full", "stripped"} ELSE IF kind = "message_like" THEN {"sync", "full"} ELSE {"plain"}
VARIABLES kind, type, format, redacted
Init == /\ kind \in Kinds /\ type \in KnownTypes[kind] \cup Unknown /\ format \in Formats(kind)
        /\ redacted \in (IF Redactable(kind) /\ format # "stripped" THEN BOOLEAN ELSE {FALSE})
Next == UNCHANGED <<kind, type, format, redacted>>
Thm == TablesDisjoint /\ Targets(kind, format) # {}
Emit == PrintT(<<"CASE", ToJson([kind |-> kind, type |-> type, format |-> format, redacted |-> redacted,
                                   known |-> IsKnown(kind, type, FALSE), targets |-> Targets(kind, format)])>>)
=============================================================================

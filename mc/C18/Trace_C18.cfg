INIT Init
NEXT Next
INVARIANT Check
CHECK_DEADLOCK FALSE

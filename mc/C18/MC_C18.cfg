INIT Init
NEXT Next
INVARIANT Thm
INVARIANT Emit
CHECK_DEADLOCK FALSE

------------------------------- MODULE MC_C16 -------------------------------
(* Path selection: every well-formed history shape x every (min, max) pair of   *)
(* supported versions; lemma: the decision only depends on min and max (checked  *)
(* over ALL subsets between them); and the authorization-header table.           *)
EXTENDS Endpoint, Json, TLC
Versions == 0..14
Histories == {h \in [stable : {s \in SUBSET {0, 1, 3, 6, 11, 14} : Cardinality(s) <= 3}, unstable : BOOLEAN,
                     dep : {-1, 0, 2, 4, 7, 12, 14}, rem : {-1, 1, 3, 5, 8, 13, 14}] : WellFormed(h)}
VARIABLES h, lo, hi
Init == h \in Histories /\ lo \in Versions /\ hi \in Versions /\ lo <= hi
Next == UNCHANGED <<h, lo, hi>>
Lemma == \A mid \in SUBSET {v \in Versions : lo < v /\ v < hi} : Select(h, {lo, hi} \cup mid) = Select(h, {lo, hi})
AuthSchemes == {"None", "AccessToken", "AccessTokenOptional", "AppserviceToken", "AppserviceTokenOptional", "ServerSignatures"}
Sends == {"None", "IfRequired", "Always", "Appservice"}
Emit == PrintT(<<"CASE", ToJson([stable |-> h.stable, unstable |-> h.unstable, dep |-> h.dep, rem |-> h.rem, lo |-> lo, hi |-> hi,
                                   sel |-> Select(h, {lo, hi})])>>)
EmitAuth == (lo = 0 /\ hi = 0 /\ h = CHOOSE x \in Histories : TRUE) =>
   PrintT(<<"AUTH", ToJson({[auth |-> a, send |-> s, exp |-> AuthHeader(a, s)] : a \in AuthSchemes, s \in Sends})>>)
=============================================================================

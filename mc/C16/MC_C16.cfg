INIT Init
NEXT Next
INVARIANT Lemma
INVARIANT Emit
INVARIANT EmitAuth
CHECK_DEADLOCK FALSE

------------------------------ MODULE Trace_C16 ------------------------------
(* impl -> spec: recorded path selections of real endpoints and recorded wire   *)
(* messages of synthetic and real endpoints.                                    *)
EXTENDS Endpoint, Json, IOUtils, TLC
Rec == ndJsonDeserialize(IOEnv.TRACE)
VARIABLE i
Init == i \in 1..Len(Rec)
Next == UNCHANGED i
ToSet(s) == {s[j] : j \in 1..Len(s)}
OkSelect(r) ==
  LET hh == [stable |-> ToSet(r.stable), unstable |-> r.unstable, dep |-> r.dep, rem |-> r.rem]
      sel == Select(hh, ToSet(r.versions)) IN
  sel.kind = r.kind /\ (sel.kind = "stable" => sel.ver = r.ver)
OkWire(r) ==
  /\ ~r.panic /\ r.equal /\ r.reencode_identical
  /\ PathDecodesTo(r.path, r.template, r.args)
  /\ QueryDecodesTo(r.query, r.pairs)
  /\ r.auth_header = AuthHeader(r.auth, r.send)
OkAuth(r) == r.auth_header = AuthHeader(r.auth, r.send)
Ok(r) == IF r.kind0 = "select" THEN OkSelect(r) ELSE IF r.kind0 = "authtable" THEN OkAuth(r) ELSE OkWire(r)
Check == Ok(Rec[i]) \/ PrintT(<<"MISMATCH", i>>)
=============================================================================

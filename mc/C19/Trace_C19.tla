------------------------------ MODULE Trace_C19 ------------------------------
EXTENDS StringEnum, Json, IOUtils, TLC
Rec == ndJsonDeserialize(IOEnv.TRACE)
AliasRec == ndJsonDeserialize(IOEnv.ALIASES)
Aliases == {AliasRec[1].aliases[j] : j \in 1..Len(AliasRec[1].aliases)}
VARIABLE i
Init == i \in 1..Len(Rec)
Next == UNCHANGED i
Ok(r) == IF r.kind = "conv" THEN ~r.panic /\ Laws(r, Aliases) ELSE ~r.panic /\ PairLaw(r)
Check == Ok(Rec[i]) \/ PrintT(<<"MISMATCH", i>>)
=============================================================================

------------------------------- MODULE MC_C19 -------------------------------
(* emits the table of specified spellings (one case per enum x spelling) and   *)
(* checks its sanity on the model: the law set is satisfiable by the identity  *)
(* conversion, and no spelling is listed twice in different letter case.       *)
EXTENDS StringEnum, Json, TLC
VARIABLES e, s
Init == e \in TableEnums /\ s \in MatrixSpellings[e]
Next == UNCHANGED <<e, s>>
Ideal == [enum |-> e, s |-> s, out |-> s, custom |-> FALSE, display |-> s, ser |-> s, de |-> s, idem |-> TRUE, fromstring |-> s]
ThmSatisfiable == Laws(Ideal, {})
Emit == PrintT(<<"CASE", ToJson([enum |-> e, s |-> s])>>)
=============================================================================

INIT Init
NEXT Next
INVARIANT ThmSatisfiable
INVARIANT Emit
CHECK_DEADLOCK FALSE

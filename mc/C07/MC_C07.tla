------------------------------- MODULE MC_C07 -------------------------------
(* C06 / C07: all behaviours of MaxNew further events (any server, any allowed  *)
(* action, either id end, any timestamp, pulls at any time) from a set of base  *)
(* rooms.  In every reachable state every pending merge (the extremities of a   *)
(* server, and all leaves of the DAG) is emitted with the specification's       *)
(* intermediate results and resolved state.                                     *)
EXTENDS Room, Json, SequencesExt

IdNames == <<"$A", "$B", "$C", "$D", "$E", "$F", "$G", "$H", "$I", "$J", "$K", "$L", "$a", "$b", "$c", "$d", "$e", "$f">>
IdRank == [x \in {IdNames[i] : i \in 1..Len(IdNames)} |-> CHOOSE i \in 1..Len(IdNames) : IdNames[i] = x]
IdLessImpl(x, y) == IdRank[x] < IdRank[y]
ServersImpl == {S1, S2}
NewIdsImpl == <<"$a", "$b", "$c", "$d", "$e", "$f">>

CONSTANT BaseNames
CONSTANT AllSubsets    \* also resolve arbitrary collections of 2 or 3 states of the DAG (not only the pending merges)
CONSTANT Triples       \* with AllSubsets: triples too (pairs only otherwise)

\* ---- base rooms: <<server, proto, id, ts>>
Base(name) ==
  CASE name = "bare" ->          \* create + creator only: everything later has no power-levels ancestor
         <<<<S1, PCreate, "$A", 0>>, <<S1, PMember(UC, UC, "join"), "$B", 0>>, <<S1, PJoinRules(UC, "public"), "$C", 0>>>>
    [] name = "public" ->        \* power levels giving A 50, public room, A and B joined
         <<<<S1, PCreate, "$A", 0>>, <<S1, PMember(UC, UC, "join"), "$B", 0>>,
           <<S1, PPowerLevels(UC, MkPL((UC.name :> 100) @@ (UA.name :> 50))), "$C", 0>>,
           <<S1, PJoinRules(UC, "public"), "$D", 0>>, <<S1, PMember(UA, UA, "join"), "$E", 0>>,
           <<S2, PMember(UB, UB, "join"), "$F", 0>>>>
    [] name = "mainline" ->      \* power levels changed twice: a mainline of length 3, topic set under the first
         <<<<S1, PCreate, "$A", 0>>, <<S1, PMember(UC, UC, "join"), "$B", 0>>,
           <<S1, PPowerLevels(UC, MkPL((UC.name :> 100))), "$C", 0>>,
           <<S1, PJoinRules(UC, "public"), "$D", 0>>, <<S1, PMember(UA, UA, "join"), "$E", 0>>,
           <<S1, PPowerLevels(UC, MkPL((UC.name :> 100) @@ (UA.name :> 50))), "$F", 0>>,
           <<S2, PMember(UB, UB, "join"), "$G", 0>>,
           <<S1, PPowerLevels(UC, MkPL((UC.name :> 100) @@ (UA.name :> 50) @@ (UB.name :> 50))), "$H", 0>>>>
    [] name = "invite" ->        \* invite-only room, A joined with 50, B invited
         <<<<S1, PCreate, "$A", 0>>, <<S1, PMember(UC, UC, "join"), "$B", 0>>,
           <<S1, PPowerLevels(UC, MkPL((UC.name :> 100) @@ (UA.name :> 50))), "$C", 0>>,
           <<S1, PJoinRules(UC, "invite"), "$D", 0>>, <<S1, PMember(UC, UA, "invite"), "$E", 0>>,
           <<S1, PMember(UA, UA, "join"), "$F", 0>>, <<S1, PMember(UA, UB, "invite"), "$G", 0>>>>
    [] name = "prefork" ->       \* a fork made by the creator's server itself: a topic without power-level ancestor on
                                 \* one branch, the first power levels on the other
         <<<<S1, PCreate, "$A", 0>>, <<S1, PMember(UC, UC, "join"), "$B", 0>>, <<S1, PJoinRules(UC, "public"), "$C", 0>>,
           <<S1, PMember(UA, UA, "join"), "$D", 0>>,
           <<S1, PTopic(UC, 1), "$E", 5, {"$D"}>>,
           <<S1, PPowerLevels(UC, MkPL((UC.name :> 100) @@ (UA.name :> 50))), "$F", 0, {"$D"}>>>>
    [] name = "powerfork" ->     \* a fork in which one sender has different power levels on the two branches: A (50) changes the
                                 \* join rules on one branch, the creator raises A to 100 on the other
         <<<<S1, PCreate, "$A", 0>>, <<S1, PMember(UC, UC, "join"), "$B", 0>>,
           <<S1, PPowerLevels(UC, MkPL((UC.name :> 100) @@ (UA.name :> 50) @@ (UB.name :> 50))), "$C", 0>>,
           <<S1, PJoinRules(UC, "public"), "$D", 0>>, <<S1, PMember(UA, UA, "join"), "$E", 0>>,
           <<S2, PMember(UB, UB, "join"), "$F", 0>>,
           <<S1, PJoinRules(UA, "invite"), "$G", 1, {"$F"}>>,
           <<S1, PPowerLevels(UC, MkPL((UC.name :> 100) @@ (UA.name :> 100) @@ (UB.name :> 50))), "$H", 0, {"$F"}>>>>
    [] name = "twostep" ->       \* a merge of two branches that is merged again with a continuation of one of them: power levels
                                 \* X ($G) and Y ($I) on two branches, A's topic $H cites X, $J merges both branches (Y wins, the
                                 \* topic survives), B's topic $K continues the second branch without having seen X: between the
                                 \* states after $J and $K the power levels are unconflicted and X only occurs in the auth
                                 \* difference, where it decides the mainline
         <<<<S1, PCreate, "$A", 0>>, <<S1, PMember(UC, UC, "join"), "$B", 0>>,
           <<S1, PPowerLevels(UC, MkPL((UC.name :> 100))), "$C", 0>>,
           <<S1, PJoinRules(UC, "public"), "$D", 0>>, <<S1, PMember(UA, UA, "join"), "$E", 0>>,
           <<S2, PMember(UB, UB, "join"), "$F", 0>>,
           <<S1, PPowerLevels(UC, MkPL((UC.name :> 100) @@ (UA.name :> 50))), "$G", 1, {"$F"}>>,
           <<S1, PTopic(UA, 1), "$H", 1, {"$G"}>>,
           <<S1, PPowerLevels(UC, MkPL((UC.name :> 100) @@ (UA.name :> 50) @@ (UB.name :> 50))), "$I", 2, {"$F"}>>,
           <<S1, PMember(UC, UC, "join"), "$J", 3, {"$H", "$I"}>>,
           <<S2, PTopic(UB, 2), "$K", 3, {"$I"}>>>>
    [] name = "deepmain" ->      \* a mainline of three power levels events ($H, $F, $C) and a concurrent one ($I) that loses against
                                 \* $H: A's topic $J cites the loser (its position is that of $I's own parent $F), A's topic $K
                                 \* cites $F directly
         <<<<S1, PCreate, "$A", 0>>, <<S1, PMember(UC, UC, "join"), "$B", 0>>,
           <<S1, PPowerLevels(UC, MkPL((UC.name :> 100))), "$C", 0>>,
           <<S1, PJoinRules(UC, "public"), "$D", 0>>, <<S1, PMember(UA, UA, "join"), "$E", 0>>,
           <<S1, PPowerLevels(UC, MkPL((UC.name :> 100) @@ (UA.name :> 50))), "$F", 0>>,
           <<S2, PMember(UB, UB, "join"), "$G", 0>>,
           <<S1, PPowerLevels(UC, MkPL((UC.name :> 100) @@ (UA.name :> 50) @@ (UB.name :> 50))), "$H", 2, {"$G"}>>,
           <<S1, PPowerLevels(UC, MkPL((UC.name :> 100) @@ (UA.name :> 100))), "$I", 1, {"$G"}>>,
           <<S1, PTopic(UA, 1), "$J", 5, {"$I"}>>,
           <<S1, PTopic(UA, 2), "$K", 3, {"$G"}>>>>
    [] name = "inviterace" ->    \* B joins and sets the topic on one branch while the creator makes the room invite-only and A invites
                                 \* B on the other.  In the merge the join is rejected, the topic still cites it, and the invite is
                                 \* checked last: its target's membership is in neither its own auth events nor the partial state
         <<<<S1, PCreate, "$A", 0>>, <<S1, PMember(UC, UC, "join"), "$B", 0>>,
           <<S1, PPowerLevels(UC, MkPL((UC.name :> 100) @@ (UA.name :> 50) @@ (UB.name :> 50))), "$C", 0>>,
           <<S1, PJoinRules(UC, "public"), "$D", 0>>, <<S1, PMember(UA, UA, "join"), "$E", 0>>,
           <<S2, PMember(UB, UB, "join"), "$F", 1, {"$E"}>>,
           <<S2, PTopic(UB, 1), "$G", 2, {"$F"}>>,
           <<S1, PJoinRules(UC, "invite"), "$H", 1, {"$E"}>>,
           <<S1, PMember(UA, UB, "invite"), "$I", 3, {"$H"}>>>>
    [] name = "restricted" ->    \* restricted room (v8+): A joined with 50, B outside
         <<<<S1, PCreate, "$A", 0>>, <<S1, PMember(UC, UC, "join"), "$B", 0>>,
           <<S1, PPowerLevels(UC, MkPL((UC.name :> 100) @@ (UA.name :> 50))), "$C", 0>>,
           <<S1, PJoinRules(UC, "restricted"), "$D", 0>>, <<S1, PMember(UC, UA, "invite"), "$E", 0>>,
           <<S1, PMember(UA, UA, "join"), "$F", 0>>>>
    [] name = "nopl" ->          \* public room without power levels: A and B joined
         <<<<S1, PCreate, "$A", 0>>, <<S1, PMember(UC, UC, "join"), "$B", 0>>, <<S1, PJoinRules(UC, "public"), "$C", 0>>,
           <<S1, PMember(UA, UA, "join"), "$D", 0>>, <<S2, PMember(UB, UB, "join"), "$E", 0>>>>

Init == /\ nnew = 0
        /\ \E b \in BaseNames : world = Build(EmptyWorld, Base(b))

\* ---- merges pending in a state
Leaves == {i \in DOMAIN world.events : \A j \in DOMAIN world.events : i \notin world.events[j].prev}
MergeSets == {{world.after[h] : h \in Heads(world, s)} : s \in Servers} \cup {{world.after[h] : h \in Leaves}}
\* resolve is defined for any collection of states: every pair and triple of states after events of the DAG that contains
\* the state after the newest event (every pair and triple in the base room itself)
Newest == IF nnew = 0 THEN {} ELSE {i \in DOMAIN world.events : \A j \in DOMAIN world.events : i \notin world.events[j].chain /\ i \notin world.events[j].prev}
SubsetMerges ==
  IF ~AllSubsets THEN {}
  ELSE LET all == AllStates
           must == IF nnew = 0 THEN all ELSE {world.after[i] : i \in Newest}
       IN {{x, y} : x \in must, y \in all} \cup (IF Triples THEN {{x, y, z} : x \in must, y \in all, z \in all} ELSE {})
Merges == {S \in MergeSets \cup SubsetMerges : Cardinality(S) >= 2}

\* resolving a single state set is the identity (checked for the forward extremities)
InvIdentity == ResolveIdentity(Leaves) /\ ChainOk(world.events)
\* soundness of a result r of merging S: only events of the inputs or of the auth difference, every entry under its own
\* key, unconflicted entries kept, the create event stays
Sound(S, r) ==
  LET Un == Unconflicted(S) IN
  /\ \A k \in DOMAIN r : r[k] \in (UNION {{s[x] : x \in DOMAIN s} : s \in S}) \cup AuthDifference(world.events, S)
  /\ \A k \in DOMAIN r : SKey(world.events, r[k]) = k
  /\ \A k \in DOMAIN Un : k \in DOMAIN r /\ r[k] = Un[k]

\* ---- emission
CV(t) == CASE t.k = "int" -> t.n [] t.k = "str" -> [s |-> t.n] [] OTHER -> [bad |-> TRUE]
CMap(m) == [x \in DOMAIN m |-> CV(m[x])]
CPL(p) == [f \in {g \in ScalarFields : p[g].k # "absent"} |-> CV(p[f])]
          @@ [users |-> CMap(p.users), events |-> CMap(p.events), notifications |-> CMap(p.notifications), userkeysvalid |-> p.userkeysvalid]
CContent(x) ==
  CASE x.type = "m.room.create" -> [hascreator |-> x.c.hascreator, creator |-> x.c.creator.name, federate |-> x.c.federate]
    [] x.type = "m.room.member" -> [membership |-> x.c.membership, jauth |-> x.c.jauth.name, tpi |-> [present |-> FALSE]]
    [] x.type = "m.room.join_rules" -> [join_rule |-> x.c.join_rule]
    [] x.type = "m.room.power_levels" -> [pl |-> CPL(x.c.pl)]
    [] OTHER -> [tag |-> x.c.tag]
CEv(x) == [id |-> x.id, type |-> x.type, sender |-> x.sender.name, haskey |-> x.haskey, key |-> x.key, prev |-> x.prev,
           auth |-> x.auth, roomserver |-> x.roomserver, idserver |-> x.idserver, ts |-> x.ts, c |-> CContent(x)]
StateList(st) == {<<k[1], k[2], st[k]>> : k \in DOMAIN st}
EmitMerge(S) ==
  LET d == ResolveDetail(world.events, S, R, Inf)
      o == ResolveDetail(world.events, S, R, 0)
      sets == SetToSeq(S)
  IN Assert(Sound(S, d.resolved), <<"unsound resolution", S>>) /\
     PrintT(<<"CASE", ToJson([ v |-> V,
        events |-> LET q == SetToSeq(DOMAIN world.events) IN [i \in 1..Len(q) |-> CEv(world.events[q[i]])],
        sets |-> [i \in 1..Len(sets) |-> StateList(sets[i])],
        chains |-> [i \in 1..Len(sets) |-> FullChain(world.events, sets[i])],
        full |-> d.full, power |-> d.power, rest |-> d.rest, resolved |-> StateList(d.resolved),
        rest_oldest |-> o.rest, resolved_oldest |-> StateList(o.resolved),
        \* the connected reading of "P's auth chain within the full conflicted set" (see StateRes.tla), with either mainline rule
        variants |-> [n \in 1..2 |-> LET x == ResolveDetailV(world.events, S, R, IF n = 1 THEN Inf ELSE 0, TRUE) IN
                                      [power |-> x.power, rest |-> x.rest, resolved |-> StateList(x.resolved)]] ])>>)
Emit == \A S \in Merges : EmitMerge(S)
=============================================================================

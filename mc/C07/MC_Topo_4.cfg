INIT Init
NEXT Next
CONSTANT N = 4
INVARIANT Thm
INVARIANT Emit
CHECK_DEADLOCK FALSE

INIT Init
NEXT Next
CONSTANT V = 10
CONSTANT AllowStale = FALSE
CONSTANT MaxNew = 2
CONSTANT TsPool = {1, 2}
CONSTANT Servers <- ServersImpl
CONSTANT NewIds <- NewIdsImpl
CONSTANT IdLess <- IdLessImpl
CONSTANT AllSubsets = FALSE
CONSTANT Triples = TRUE
CONSTANT BaseNames = {"public", "mainline"}
INVARIANT InvIdentity
INVARIANT Emit
CHECK_DEADLOCK FALSE

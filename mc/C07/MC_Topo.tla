------------------------------- MODULE MC_Topo -------------------------------
(* all DAGs on N nodes x power x timestamp x id order *)
EXTENDS TopoSort, Json, TLC
CONSTANT N
Nodes == 1..N
Powers == {0, 50, 100}
VARIABLES phase, deps, power, ts, idrank
EdgeSets == SUBSET {<<i, j>> \in Nodes \X Nodes : j < i}
Perms == {f \in [Nodes -> Nodes] : \A a, b \in Nodes : a # b => f[a] # f[b]}
Init == /\ phase = 0 /\ \E E \in EdgeSets : deps = [i \in Nodes |-> {j \in Nodes : <<i, j>> \in E}]
        /\ power = [i \in Nodes |-> 0] /\ ts = [i \in Nodes |-> 0] /\ idrank = [i \in Nodes |-> i]
Next == /\ phase = 0 /\ phase' = 1 /\ UNCHANGED deps
        /\ power' \in [Nodes -> Powers] /\ ts' \in [Nodes -> {0, 1}] /\ idrank' \in Perms
Result == Sorted(<<>>, Nodes, deps, power, ts, idrank)
Thm == phase = 1 => /\ IsPermutation(Result, Nodes) /\ DepsFirst(Result, deps)
                    /\ GreedyMin(Result, deps, power, ts, idrank)
Emit == phase = 1 => PrintT(<<"CASE", ToJson([n |-> N, deps |-> deps, power |-> power, ts |-> ts, idrank |-> idrank, order |-> Result])>>)
=============================================================================

INIT Init
NEXT Next
CONSTANT V = 10
CONSTANT AllowStale = FALSE
CONSTANT MaxNew = 3
CONSTANT TsPool = {1, 2}
CONSTANT Servers <- ServersImpl
CONSTANT NewIds <- NewIdsImpl
CONSTANT IdLess <- IdLessImpl
CONSTANT AllSubsets = FALSE
CONSTANT Triples = TRUE
CONSTANT BaseNames = {"bare", "public", "mainline", "invite", "nopl"}
INVARIANT InvIdentity
INVARIANT Emit
CHECK_DEADLOCK FALSE

INIT Init
NEXT Next
CONSTANT V = 10
CONSTANT AllowStale = FALSE
CONSTANT MaxNew = 2
CONSTANT TsPool = {1, 2}
CONSTANT Servers <- ServersImpl
CONSTANT NewIds <- NewIdsImpl
CONSTANT IdLess <- IdLessImpl
CONSTANT AllSubsets = TRUE
CONSTANT Triples = FALSE
CONSTANT BaseNames = {"bare", "nopl", "invite"}
INVARIANT InvIdentity
INVARIANT Emit
CHECK_DEADLOCK FALSE

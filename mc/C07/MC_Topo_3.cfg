INIT Init
NEXT Next
CONSTANT N = 3
INVARIANT Thm
INVARIANT Emit
CHECK_DEADLOCK FALSE

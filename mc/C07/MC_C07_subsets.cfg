INIT Init
NEXT Next
CONSTANT V = 10
CONSTANT AllowStale = TRUE
CONSTANT MaxNew = 1
CONSTANT TsPool = {1, 2}
CONSTANT Servers <- ServersImpl
CONSTANT NewIds <- NewIdsImpl
CONSTANT IdLess <- IdLessImpl
CONSTANT AllSubsets = TRUE
CONSTANT Triples = TRUE
CONSTANT BaseNames = {"bare", "public", "mainline", "invite", "prefork", "powerfork", "restricted", "nopl", "twostep", "deepmain", "inviterace"}
INVARIANT InvIdentity
INVARIANT Emit
CHECK_DEADLOCK FALSE

INIT Init
NEXT Next
CONSTANT V = 8
CONSTANT AllowStale = FALSE
CONSTANT MaxNew = 2
CONSTANT TsPool = {1, 2}
CONSTANT Servers <- ServersImpl
CONSTANT NewIds <- NewIdsImpl
CONSTANT IdLess <- IdLessImpl
CONSTANT AllSubsets = FALSE
CONSTANT Triples = TRUE
CONSTANT BaseNames = {"restricted"}
INVARIANT InvIdentity
INVARIANT Emit
CHECK_DEADLOCK FALSE

------------------------------ MODULE Trace_C01 ------------------------------
(* impl -> spec: random nested values in random spellings fed to the real code; *)
(* TLC recomputes CanonicalJson!Canon from the tagged value of each record.      *)
EXTENDS CanonicalJson, Json, IOUtils

Rec == ndJsonDeserialize(IOEnv.TRACE)
VARIABLE i
Init == i \in 1..Len(Rec)
Next == UNCHANGED i

V0 == [t |-> "null", b |-> FALSE, neg |-> FALSE, d |-> <<>>, s |-> <<>>, items |-> <<>>, mem |-> <<>>]
Has(x, f) == f \in DOMAIN x
RECURSIVE ToVal(_)
ToVal(x) ==
  IF Has(x, "o") THEN [V0 EXCEPT !.t = "obj", !.mem = [j \in 1..Len(x.o) |-> [k |-> x.o[j].k, v |-> ToVal(x.o[j].v)]]]
  ELSE IF Has(x, "a") THEN [V0 EXCEPT !.t = "arr", !.items = [j \in 1..Len(x.a) |-> ToVal(x.a[j])]]
  ELSE IF Has(x, "s") THEN [V0 EXCEPT !.t = "str", !.s = x.s]
  ELSE IF Has(x, "i") THEN [V0 EXCEPT !.t = "int", !.d = x.i, !.neg = x.neg]
  ELSE IF Has(x, "bad") THEN [V0 EXCEPT !.t = "bad"]
  ELSE IF Has(x, "b") THEN [V0 EXCEPT !.t = "bool", !.b = x.b]
  ELSE V0

Agrees(r) ==
  LET v == ToVal(r.v) IN
  /\ ~r.panic
  /\ IF Ok(v) /\ OkStrict(v) THEN r.kind = "ok" /\ r.bytes = Canon(v)
     ELSE IF Ok(v) THEN r.kind = "err" \/ (r.kind \in {"ok", "mixed"} /\ r.bytes = Canon(v))
     ELSE r.kind = "err"
  \* the signing form of an object (top-level "signatures"/"unsigned" removed); "none" = not an object or not accepted
  /\ (r.sign = "none" /\ r.sbytes = <<>>) \/ (r.sign = "ok" /\ v.t = "obj" /\ Ok(v) /\ r.sbytes = SigningBytes(v))
  /\ (v.t = "obj" /\ Ok(v) /\ OkStrict(v)) => r.sign = "ok"
Check == Agrees(Rec[i]) \/ PrintT(<<"MISMATCH", i>>)
=============================================================================

------------------------------- MODULE MC_C01 -------------------------------
(* C01 canonical JSON: tagged JSON values over an alphabet of boundary code     *)
(* points and boundary integers, single values, objects with every key order    *)
(* and duplicate pattern, nesting to depth 3.  The expected output is           *)
(* CanonicalJson!Canon; the harness spells each value in several ways.          *)
EXTENDS CanonicalJson, Json

Seqs(A, n) == UNION {[1..k -> A] : k \in 0..n}

V0 == [t |-> "null", b |-> FALSE, neg |-> FALSE, d |-> <<>>, s |-> <<>>, items |-> <<>>, mem |-> <<>>]
JNull == V0
JBool(b) == [V0 EXCEPT !.t = "bool", !.b = b]
JInt(neg, d) == [V0 EXCEPT !.t = "int", !.neg = neg, !.d = d]
JBad(n) == [V0 EXCEPT !.t = "bad", !.d = <<n>>]       \* n selects a non-canonical number spelling (harness table)
JStr(s) == [V0 EXCEPT !.t = "str", !.s = s]
JArr(items) == [V0 EXCEPT !.t = "arr", !.items = items]
JObj(mem) == [V0 EXCEPT !.t = "obj", !.mem = mem]
M(k, v) == [k |-> k, v |-> v]

\* a B " \ / U+0001 \b \t \n \f \r U+001F U+007F e-acute U+2028 U+E000 U+FFFF U+10000 U+10FFFF
StrAlpha == {97, 66, 34, 92, 47, 1, 8, 9, 10, 12, 13, 31, 127, 233, 8232, 57344, 65535, 65536, 1114111}
Strs == Seqs(StrAlpha, 2)

P53 == <<9,0,0,7,1,9,9,2,5,4,7,4,0,9,9,1>>          \* 2^53 - 1
Digits == { <<0>>, <<1>>, <<4,2>>,
            <<9,0,0,7,1,9,9,2,5,4,7,4,0,9,9,0>>, P53,
            <<9,0,0,7,1,9,9,2,5,4,7,4,0,9,9,2>>, <<9,0,0,7,1,9,9,2,5,4,7,4,0,9,9,3>>,
            <<9,2,2,3,3,7,2,0,3,6,8,5,4,7,7,5,8,0,7>>, <<9,2,2,3,3,7,2,0,3,6,8,5,4,7,7,5,8,0,8>>,      \* 2^63-1, 2^63
            <<1,8,4,4,6,7,4,4,0,7,3,7,0,9,5,5,1,6,1,5>>, <<1,8,4,4,6,7,4,4,0,7,3,7,0,9,5,5,1,6,1,6>>,  \* 2^64-1, 2^64
            <<1,8,4,4,6,7,4,4,0,7,3,7,0,9,5,5,1,6,1,4>>, <<1,8,4,4,6,7,4,4,0,6,4,7,0,2,8,1,0,6,2,5>>,  \* 2^64-2, 2^64-2^53+1..
            <<1,0,0,0,0,0,0,0,0,0,0,0,0,0,0,0,0,0,0,0,0,0,0,0,0,0,0,0,0,0>> }
Ints == {JInt(n, d) : n \in BOOLEAN, d \in Digits}
Bads == {JBad(n) : n \in 1..8}
SmallLeaves == {JNull, JBool(TRUE), JInt(FALSE, <<1>>), JInt(TRUE, <<4,2>>), JStr(<<120>>), JStr(<<>>), JBad(1), JInt(FALSE, <<9,0,0,7,1,9,9,2,5,4,7,4,0,9,9,2>>)}
Leaves == {JNull, JBool(TRUE), JBool(FALSE)} \cup Ints \cup Bads \cup {JStr(s) : s \in Strs}

\* keys whose code-point order, UTF-8 byte order and UTF-16 order differ; prefix pairs; empty key
Keys == {<<97>>, <<66>>, <<97,97>>, <<>>, <<233>>, <<65535>>, <<65536>>, <<1>>, <<34>>, <<57344>>}
Vals3 == <<JInt(FALSE, <<1>>), JInt(FALSE, <<4,2>>), JStr(<<120>>)>>

\* the signing form: "signatures"/"unsigned" at the top level (removed) and below it (kept), next to keys that sort before, between
\* and after them ("a" < "s" < "signatures" < "t" < "unsigned" < "v")
SignKeys == {KSignatures, KUnsigned, <<97>>, <<115>>, <<116>>, <<118>>}
SignVals == <<JObj(<<M(KSignatures, JInt(FALSE, <<1>>)), M(<<97>>, JNull)>>), JInt(FALSE, <<4,2>>), JStr(<<120>>)>>
\* an object key that a JSON library may treat specially (serde_json's marker for embedded raw JSON): to the specification it
\* is a key like any other, and the string next to it is a string
TokenKey == <<36,115,101,114,100,101,95,106,115,111,110,58,58,112,114,105,118,97,116,101,58,58,82,97,119,86,97,108,117,101>>
TokenTexts == {<<91,49,44,50,93>>, <<55>>, <<34,120,34>>, <<123,34,97,34,58,49,125>>}            \* [1,2]   7   "x"   {"a":1}
Parts == {"leaf", "obj1", "obj2", "obj3", "nest", "arr", "sign", "token"}
VARIABLES phase, part, v
Init == phase = 0 /\ part \in Parts /\ v = JNull
Next ==
  /\ phase = 0 /\ phase' = 1 /\ UNCHANGED part
  /\ \/ part = "leaf" /\ v' \in Leaves
     \/ part = "obj1" /\ \E k \in Strs, x \in SmallLeaves : v' = JObj(<<M(k, x)>>)
     \/ part = "obj2" /\ \E k1 \in Keys, k2 \in Keys, x1 \in SmallLeaves, x2 \in {JInt(FALSE, <<1>>), JStr(<<120>>), JBad(2)} :
                           v' = JObj(<<M(k1, x1), M(k2, x2)>>)
     \/ part = "obj3" /\ \E k1 \in Keys, k2 \in Keys, k3 \in Keys : v' = JObj(<<M(k1, Vals3[1]), M(k2, Vals3[2]), M(k3, Vals3[3])>>)
     \/ part = "nest" /\ \E k1 \in {<<97>>, <<233>>}, k2 \in {<<97>>, <<66>>, <<65536>>}, k3 \in {<<66>>, <<65535>>}, x \in SmallLeaves, dup \in BOOLEAN :
                           LET inner == JObj(<<M(k2, x), M(k3, JArr(<<JObj(<<M(k3, x), M(k2, JNull)>>), x>>))>>
                                             \o (IF dup THEN <<M(k2, JStr(<<100>>))>> ELSE <<>>)) IN
                           v' = JObj(<<M(<<122>>, JArr(<<inner, JArr(<<>>), JObj(<<>>)>>)), M(k1, inner)>>)
     \/ part = "sign" /\ \E n \in 0..3, k1 \in SignKeys, k2 \in SignKeys, k3 \in SignKeys :
                           v' = JObj(SubSeq(<<M(k1, SignVals[1]), M(k2, SignVals[2]), M(k3, SignVals[3])>>, 1, n))
     \/ part = "token" /\ \E t \in TokenTexts, shape \in 1..4 :
                           v' = CASE shape = 1 -> JObj(<<M(TokenKey, JStr(t))>>)
                                  [] shape = 2 -> JObj(<<M(<<98>>, JInt(FALSE, <<2>>)), M(TokenKey, JStr(t))>>)
                                  [] shape = 3 -> JObj(<<M(<<99,111,110,116,101,110,116>>, JObj(<<M(TokenKey, JStr(t))>>)), M(<<116>>, JStr(<<120>>))>>)
                                  [] OTHER -> JArr(<<JObj(<<M(TokenKey, JStr(t))>>), JInt(FALSE, <<1>>)>>)
     \/ part = "arr" /\ \E x \in SmallLeaves, y \in SmallLeaves : v' \in {JArr(<<>>), JArr(<<x>>), JArr(<<x, y>>), JArr(<<JArr(<<x>>), y>>)}

\* model theorems
ThmValueOnly == phase = 1 => CanonOfNormalize(v)
\* signing an object: the removed members do not influence the bytes, everything else does
ThmSigning == (phase = 1 /\ v.t = "obj" /\ Ok(v)) =>
  /\ SigningBytes(v) = SigningBytes(SigningForm(v))
  /\ ((\A i \in 1..Len(v.mem) : v.mem[i].k \notin {KSignatures, KUnsigned}) => SigningBytes(v) = Canon(v))
ThmNormalizeIdem == phase = 1 => Normalize(Normalize(v)) = Normalize(v)

RECURSIVE CJ(_)
CJ(x) == CASE x.t = "obj" -> [o |-> [i \in 1..Len(x.mem) |-> [k |-> x.mem[i].k, v |-> CJ(x.mem[i].v)]]]
           [] x.t = "str" -> [s |-> x.s]
           [] x.t = "int" -> [i |-> x.d, neg |-> x.neg]
           [] x.t = "bad" -> [bad |-> x.d[1]]
           [] x.t = "bool" -> [b |-> x.b]
           [] x.t = "null" -> [z |-> 0]
           [] x.t = "arr" -> [a |-> [i \in 1..Len(x.items) |-> CJ(x.items[i])]]

Emit == phase = 1 =>
  PrintT(<<"CASE", ToJson([part |-> part, v |-> CJ(v), ok |-> Ok(v), strict |-> OkStrict(v), bytes |-> IF Ok(v) THEN Canon(v) ELSE <<>>,
                             sbytes |-> IF Ok(v) /\ v.t = "obj" THEN SigningBytes(v) ELSE <<>>,
                             norm |-> CJ(Normalize(v))])>>)
=============================================================================

INIT Init
NEXT Next
INVARIANT ThmValueOnly
INVARIANT ThmNormalizeIdem
INVARIANT ThmSigning
INVARIANT Emit
CHECK_DEADLOCK FALSE

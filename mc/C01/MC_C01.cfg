INIT Init
NEXT Next
INVARIANT ThmValueOnly
INVARIANT ThmNormalizeIdem
INVARIANT Emit
CHECK_DEADLOCK FALSE

//! C19 for the enums of the API crates: the error codes of the client-server API through ErrorCode and through the
//! error body (ErrorKind). Records have the shape of vh's c19 records so that Trace_C19 judges them with the same laws.
use std::io::BufRead;

use ruma_client_api::error::{ErrorCode, ErrorKind, StandardErrorBody};
use serde_json::{json, Value};

const CUSTOM_PROBE: &str = "\u{1}definitely.not.a.known.spelling";

fn guard<T>(f: impl FnOnce() -> T) -> Result<T, String> {
    std::panic::catch_unwind(std::panic::AssertUnwindSafe(f)).map_err(|_| "panic".to_owned())
}

fn conv(s: &str) -> Value {
    let r = guard(|| {
        let v = ErrorCode::from(s);
        let out = v.to_string();
        let custom = std::mem::discriminant(&v) == std::mem::discriminant(&ErrorCode::from(CUSTOM_PROBE));
        // through a received error body and back onto the wire
        let body: Result<StandardErrorBody, _> = serde_json::from_value(json!({"errcode": s, "error": "x", "retry_after_ms": 5, "room_version": "1", "admin_contact": "a", "current_version": "42", "soft_logout": true}));
        let (de, ser, kind_custom) = match &body {
            Ok(b) => {
                let back = serde_json::to_value(b).ok().and_then(|j| j.get("errcode").and_then(|e| e.as_str()).map(|e| e.to_owned())).unwrap_or_else(|| "<no errcode>".into());
                (b.kind.errcode().to_string(), back, matches!(b.kind, ErrorKind::_Custom { .. }))
            }
            Err(e) => (format!("<error {e}>"), format!("<error {e}>"), true),
        };
        let again = ErrorCode::from(out.as_str());
        let idem = again.to_string() == out && std::mem::discriminant(&again) == std::mem::discriminant(&v);
        json!({"kind": "conv", "enum": "ErrorCode", "s": s, "out": out, "custom": custom || (kind_custom != custom), "display": v.to_string(), "ser": ser, "de": de,
               "idem": idem, "fromstring": ErrorCode::from(s.to_owned()).to_string(), "debug_has_string": true, "panic": false})
    });
    r.unwrap_or_else(|p| json!({"kind": "conv", "enum": "ErrorCode", "s": s, "out": "", "custom": false, "display": "", "ser": "", "de": "", "idem": false,
                                "fromstring": "", "panic": true, "msg": p}))
}

/// Generic conversions for the plain string enums of the API crates (same record shape as vh's c19).
fn conv_t<T>(name: &str, s: &str) -> Value
where
    T: for<'a> From<&'a str> + From<String> + ToString + serde::Serialize + serde::de::DeserializeOwned,
{
    let r = guard(|| {
        let v = T::from(s);
        let out = v.to_string();
        let custom = std::mem::discriminant(&v) == std::mem::discriminant(&T::from(CUSTOM_PROBE));
        let ser = serde_json::to_value(&v).ok().and_then(|j| j.as_str().map(|x| x.to_owned())).unwrap_or_else(|| "<not a string>".into());
        let de = serde_json::from_value::<T>(json!(s)).map(|d| d.to_string()).unwrap_or_else(|e| format!("<error {e}>"));
        let again = T::from(out.as_str());
        let idem = std::mem::discriminant(&again) == std::mem::discriminant(&v) && again.to_string() == out;
        json!({"kind": "conv", "enum": name, "s": s, "out": out, "custom": custom, "display": v.to_string(), "ser": ser, "de": de,
               "idem": idem, "fromstring": T::from(s.to_owned()).to_string(), "debug_has_string": true, "panic": false})
    });
    r.unwrap_or_else(|p| json!({"kind": "conv", "enum": name, "s": s, "out": "", "custom": false, "display": "", "ser": "", "de": "", "idem": false,
                                "fromstring": "", "panic": true, "msg": p}))
}

type ConvFn = fn(&str, &str) -> Value;

fn api_enums() -> Vec<(&'static str, ConvFn)> {
    use ruma_client_api as c;
    vec![
        ("Visibility", conv_t::<c::room::Visibility>),
        ("EventFormat", conv_t::<c::filter::EventFormat>),
        ("RoomPreset", conv_t::<c::room::create_room::v3::RoomPreset>),
        ("ThirdPartyIdRemovalStatus", conv_t::<c::account::ThirdPartyIdRemovalStatus>),
        ("ContactRole", conv_t::<c::discovery::discover_support::ContactRole>),
        ("RoomVersionStability", conv_t::<c::discovery::get_capabilities::RoomVersionStability>),
        ("MembershipEventFilter", conv_t::<c::membership::get_member_events::v3::MembershipEventFilter>),
        ("GroupingKey", conv_t::<c::search::search_events::v3::GroupingKey>),
        ("SearchKeys", conv_t::<c::search::search_events::v3::SearchKeys>),
        ("OrderBy", conv_t::<c::search::search_events::v3::OrderBy>),
        ("AuthType", conv_t::<c::uiaa::AuthType>),
        ("IncludeThreads", conv_t::<c::threads::get_threads::v1::IncludeThreads>),
        ("FailureErrorCode", conv_t::<c::keys::upload_signatures::v3::FailureErrorCode>),
        ("ApiReceiptType", conv_t::<c::receipt::create_receipt::v3::ReceiptType>),
        ("ProfileField", conv_t::<ruma_federation_api::query::get_profile_information::v1::ProfileField>),
        ("NotificationPriority", conv_t::<ruma_push_gateway_api::send_event_notification::v1::NotificationPriority>),
        ("IdentifierHashingAlgorithm", conv_t::<ruma_identity_service_api::lookup::IdentifierHashingAlgorithm>),
    ]
}

fn near(s: &str) -> Vec<String> {
    let mut v = vec![s.to_uppercase(), s.to_lowercase(), format!("{s} "), format!(" {s}"), format!("{s}."), format!("x{s}"), s.replace('.', "_"), s.replace('_', "."),
                     s.replace('_', "-"), s.replace('-', "_"), s.replace('_', ""), format!("{s}\u{0}")];
    let chars: Vec<char> = s.chars().collect();
    for k in 0..chars.len() {
        let mut c = chars.clone();
        c.remove(k);
        v.push(c.into_iter().collect());
    }
    v
}

pub fn run() {
    // stdin: table cases {enum, s}
    let mut lines: Vec<Value> = vec![];
    for line in std::io::stdin().lock().lines() {
        let line = line.unwrap();
        if !line.trim().is_empty() {
            lines.push(serde_json::from_str(&line).unwrap());
        }
    }
    for (name, f) in api_enums() {
        let spec: Vec<String> = lines.iter().filter(|c| c["enum"] == name).map(|c| c["s"].as_str().unwrap().to_owned()).collect();
        let mut strings = spec.clone();
        for s in &spec {
            strings.extend(near(s));
        }
        strings.extend(["".to_owned(), "org.example.custom".to_owned(), "\u{e9}".to_owned()]);
        strings.sort();
        strings.dedup();
        for s in &strings {
            println!("{}", f(name, s));
        }
    }
    run_error_codes(lines);
}

fn run_error_codes(lines: Vec<Value>) {
    let mut specified: Vec<String> = vec![];
    for c in lines {
        if c["enum"] == "ErrorCode" {
            specified.push(c["s"].as_str().unwrap().to_owned());
        }
    }

    let mut strings = specified.clone();
    for s in &specified {
        // near misses: American / British spelling, case, separators, affixes
        strings.extend([s.to_lowercase(), s.replace("ISE", "IZE"), s.replace("IZE", "ISE"), s.replace('_', "."), format!("{s}_"), format!("{s} "), s.trim_start_matches("M_").to_owned(),
                        format!("M_{s}"), s.replacen("M_", "ORG_", 1)]);
    }
    strings.extend(["".to_owned(), "M_".to_owned(), "ORG.EXAMPLE.CUSTOM".to_owned(), "M_CUSTOM_UNKNOWN".to_owned()]);
    strings.sort();
    strings.dedup();
    for s in &strings {
        println!("{}", conv(s));
    }
}

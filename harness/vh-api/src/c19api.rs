//! C19 for the enums of the API crates: the error codes of the client-server API through ErrorCode and through the
//! error body (ErrorKind). Records have the shape of vh's c19 records so that Trace_C19 judges them with the same laws.
use std::io::BufRead;

use ruma_client_api::error::{ErrorCode, ErrorKind, StandardErrorBody};
use serde_json::{json, Value};

const CUSTOM_PROBE: &str = "\u{1}definitely.not.a.known.spelling";

fn guard<T>(f: impl FnOnce() -> T) -> Result<T, String> {
    std::panic::catch_unwind(std::panic::AssertUnwindSafe(f)).map_err(|_| "panic".to_owned())
}

fn conv(s: &str) -> Value {
    let r = guard(|| {
        let v = ErrorCode::from(s);
        let out = v.to_string();
        let custom = std::mem::discriminant(&v) == std::mem::discriminant(&ErrorCode::from(CUSTOM_PROBE));
        // through a received error body and back onto the wire
        let body: Result<StandardErrorBody, _> = serde_json::from_value(json!({"errcode": s, "error": "x", "retry_after_ms": 5, "room_version": "1", "admin_contact": "a", "current_version": "42", "soft_logout": true}));
        let (de, ser, kind_custom) = match &body {
            Ok(b) => {
                let back = serde_json::to_value(b).ok().and_then(|j| j.get("errcode").and_then(|e| e.as_str()).map(|e| e.to_owned())).unwrap_or_else(|| "<no errcode>".into());
                (b.kind.errcode().to_string(), back, matches!(b.kind, ErrorKind::_Custom { .. }))
            }
            Err(e) => (format!("<error {e}>"), format!("<error {e}>"), true),
        };
        let again = ErrorCode::from(out.as_str());
        let idem = again.to_string() == out && std::mem::discriminant(&again) == std::mem::discriminant(&v);
        json!({"kind": "conv", "enum": "ErrorCode", "s": s, "out": out, "custom": custom || (kind_custom != custom), "display": v.to_string(), "ser": ser, "de": de,
               "idem": idem, "fromstring": ErrorCode::from(s.to_owned()).to_string(), "debug_has_string": true, "panic": false})
    });
    r.unwrap_or_else(|p| json!({"kind": "conv", "enum": "ErrorCode", "s": s, "out": "", "custom": false, "display": "", "ser": "", "de": "", "idem": false,
                                "fromstring": "", "panic": true, "msg": p}))
}

pub fn run() {
    // stdin: table cases {enum, s}
    let mut specified: Vec<String> = vec![];
    for line in std::io::stdin().lock().lines() {
        let line = line.unwrap();
        if line.trim().is_empty() {
            continue;
        }
        let c: Value = serde_json::from_str(&line).unwrap();
        if c["enum"] == "ErrorCode" {
            specified.push(c["s"].as_str().unwrap().to_owned());
        }
    }
    let mut strings = specified.clone();
    for s in &specified {
        // near misses: American / British spelling, case, separators, affixes
        strings.extend([s.to_lowercase(), s.replace("ISE", "IZE"), s.replace("IZE", "ISE"), s.replace('_', "."), format!("{s}_"), format!("{s} "), s.trim_start_matches("M_").to_owned(),
                        format!("M_{s}"), s.replacen("M_", "ORG_", 1)]);
    }
    strings.extend(["".to_owned(), "M_".to_owned(), "ORG.EXAMPLE.CUSTOM".to_owned(), "M_CUSTOM_UNKNOWN".to_owned()]);
    strings.sort();
    strings.dedup();
    for s in &strings {
        println!("{}", conv(s));
    }
}

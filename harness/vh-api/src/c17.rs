//! C17 worker: executes a schedule of entry-point calls in one process, logging `B <pos>` before and one JSON
//! record after each call. Panics are caught and logged; a watchdog thread turns a call that exceeds the time budget
//! into a `timeout` record and ends the process; process death (stack overflow, abort) is seen by the supervisor,
//! which knows the position from the last `B` line. The worker keeps one explicit object, a push `Ruleset`.
use std::collections::BTreeMap;
use std::fmt::Debug;
use std::io::{BufRead, Write};
use std::panic::{catch_unwind, AssertUnwindSafe};
use std::str::FromStr;
use std::sync::atomic::{AtomicU64, Ordering};
use std::sync::Arc;
use std::time::{Duration, Instant};

use js_int::UInt;
use ruma_common::{
    api::{IncomingRequest, IncomingResponse},
    canonical_json::{redact, redact_content_in_place, CanonicalJsonObject, CanonicalJsonValue},
    http_headers::{ContentDisposition, ContentDispositionType, TokenString},
    push::{
        Action, FlattenedJson, NewConditionalPushRule, NewPatternedPushRule, NewPushRule, NewSimplePushRule, PushCondition,
        PushConditionRoomCtx, RuleKind, Ruleset, Tweak,
    },
    serde::{Base64, Raw},
    MatrixToUri, MatrixUri, MxcUri, OwnedRoomId, OwnedUserId, RoomVersionId,
};
use ruma_events::{
    AnyEphemeralRoomEvent, AnyGlobalAccountDataEvent, AnyMessageLikeEvent, AnyRoomAccountDataEvent, AnyStateEvent,
    AnyStrippedStateEvent, AnySyncStateEvent, AnySyncTimelineEvent, AnyTimelineEvent, AnyToDeviceEvent, StateEventType,
};
use ruma_signatures::{
    canonical_json, content_hash, hash_and_sign_event, reference_hash, sign_json, verify_canonical_json_bytes, verify_event,
    verify_json, Ed25519KeyPair, PublicKeyMap,
};
use serde_json::{json, Value};

#[path = "../../vh/src/pdu.rs"]
#[allow(dead_code)]
mod pdu;

type R = Result<String, String>;

fn fnv(s: &str) -> String {
    let mut h: u64 = 0xcbf29ce484222325;
    for b in s.as_bytes() {
        h ^= *b as u64;
        h = h.wrapping_mul(0x100000001b3);
    }
    format!("{h:016x}")
}

fn dbg<T: Debug, E: ToString>(r: Result<T, E>) -> R {
    match r {
        Ok(v) => Ok(format!("{v:?}")),
        Err(e) => Err(e.to_string()),
    }
}

fn hex(s: &str) -> Vec<u8> {
    let b = s.as_bytes();
    (0..b.len() / 2).map(|i| u8::from_str_radix(std::str::from_utf8(&b[2 * i..2 * i + 2]).unwrap_or("00"), 16).unwrap_or(0)).collect()
}

/// An argument is a JSON string, or {"hex": ".."} for bytes, or {"rep": [unit, n], "pre": .., "post": ..} for long repetitions.
fn arg_bytes(v: &Value) -> Vec<u8> {
    match v {
        Value::String(s) => s.clone().into_bytes(),
        Value::Object(o) if o.contains_key("hex") => hex(o["hex"].as_str().unwrap_or("")),
        Value::Object(o) if o.contains_key("rep") => {
            let unit = o["rep"][0].as_str().unwrap_or("");
            let n = o["rep"][1].as_u64().unwrap_or(0) as usize;
            let close = o.get("close").and_then(|x| x.as_str()).unwrap_or("");
            let mut s = String::new();
            s.push_str(o.get("pre").and_then(|x| x.as_str()).unwrap_or(""));
            s.push_str(&unit.repeat(n));
            s.push_str(o.get("mid").and_then(|x| x.as_str()).unwrap_or(""));
            s.push_str(&close.repeat(n));
            s.push_str(o.get("post").and_then(|x| x.as_str()).unwrap_or(""));
            s.into_bytes()
        }
        other => other.to_string().into_bytes(),
    }
}

fn arg_str(v: &Value) -> Option<String> {
    String::from_utf8(arg_bytes(v)).ok()
}

fn rules(v: &str) -> Result<ruma_common::room_version_rules::RoomVersionRules, String> {
    RoomVersionId::try_from(v).map_err(|e| e.to_string())?.rules().ok_or_else(|| "no rules".to_owned())
}

fn ctx() -> PushConditionRoomCtx {
    PushConditionRoomCtx {
        room_id: OwnedRoomId::try_from("!room:s.co").unwrap(),
        member_count: UInt::from(3u32),
        user_id: OwnedUserId::try_from("@me:s.co").unwrap(),
        user_display_name: "Me".to_owned(),
        power_levels: None,
    }
}

fn object(s: &str) -> Result<CanonicalJsonObject, String> {
    serde_json::from_str::<CanonicalJsonObject>(s).map_err(|e| format!("json: {e}"))
}

fn key_map() -> PublicKeyMap {
    let mut map: PublicKeyMap = BTreeMap::new();
    for (i, s) in ["a.example", "b.example"].iter().enumerate() {
        let kp = pdu::keypair(i as u8 + 1, "1");
        let mut set = BTreeMap::new();
        set.insert("ed25519:1".to_owned(), Base64::new(kp.public_key().to_vec()));
        map.insert((*s).to_owned(), set);
    }
    map
}

fn http_req(a: &[Value]) -> Result<(http::Request<Vec<u8>>, Vec<String>), String> {
    // a = [endpoint, method, uri, headers "k: v\n..", body, path args joined by \n]
    let method = arg_str(&a[1]).ok_or("utf8")?;
    let uri = arg_str(&a[2]).ok_or("utf8")?;
    let mut b = http::Request::builder().method(method.as_str()).uri(uri.as_str());
    for line in arg_str(&a[3]).ok_or("utf8")?.split('\n') {
        if let Some((k, v)) = line.split_once(": ") {
            b = b.header(k, v);
        }
    }
    let req = b.body(arg_bytes(&a[4])).map_err(|e| format!("http: {e}"))?;
    let path: Vec<String> = arg_str(&a[5]).ok_or("utf8")?.split('\n').filter(|s| !s.is_empty()).map(|s| s.to_owned()).collect();
    Ok((req, path))
}

fn http_resp(a: &[Value]) -> Result<http::Response<Vec<u8>>, String> {
    // a = [endpoint, status, headers, body]
    let status: u16 = arg_str(&a[1]).ok_or("utf8")?.parse().map_err(|_| "status")?;
    let mut b = http::Response::builder().status(status);
    for line in arg_str(&a[2]).ok_or("utf8")?.split('\n') {
        if let Some((k, v)) = line.split_once(": ") {
            b = b.header(k, v.as_bytes());
        }
    }
    b.body(arg_bytes(&a[3])).map_err(|e| format!("http: {e}"))
}

fn req<T: IncomingRequest + Debug>(a: &[Value]) -> R {
    let (r, path) = http_req(a)?;
    dbg(T::try_from_http_request(r, &path))
}

fn resp<T: IncomingResponse + Debug>(a: &[Value]) -> R
where
    T::EndpointError: Debug,
{
    let r = http_resp(a)?;
    match T::try_from_http_response(r) {
        Ok(v) => Ok(format!("{v:?}")),
        Err(e) => Err(format!("{e:?}")),
    }
}

fn endpoint_req(a: &[Value]) -> R {
    use ruma_appservice_api as asapi;
    use ruma_client_api as c;
    use ruma_federation_api as f;
    match arg_str(&a[0]).unwrap_or_default().as_str() {
        "sync" => req::<c::sync::sync_events::v3::Request>(a),
        "send_message" => req::<c::message::send_message_event::v3::Request>(a),
        "send_state" => req::<c::state::send_state_event::v3::Request>(a),
        "create_room" => req::<c::room::create_room::v3::Request>(a),
        "login" => req::<c::session::login::v3::Request>(a),
        "set_pushrule" => req::<c::push::set_pushrule::v3::Request>(a),
        "get_messages" => req::<c::message::get_message_events::v3::Request>(a),
        "upload_keys" => req::<c::keys::upload_keys::v3::Request>(a),
        "search_users" => req::<c::user_directory::search_users::v3::Request>(a),
        "fed_transaction" => req::<f::transactions::send_transaction_message::v1::Request>(a),
        "fed_send_join" => req::<f::membership::create_join_event::v2::Request>(a),
        "fed_missing_events" => req::<f::event::get_missing_events::v1::Request>(a),
        "fed_invite" => req::<f::membership::create_invite::v2::Request>(a),
        "as_push_events" => req::<asapi::event::push_events::v1::Request>(a),
        "push_notify" => req::<ruma_push_gateway_api::send_event_notification::v1::Request>(a),
        other => Err(format!("unknown endpoint {other}")),
    }
}

fn endpoint_resp(a: &[Value]) -> R {
    use ruma_client_api as c;
    use ruma_federation_api as f;
    match arg_str(&a[0]).unwrap_or_default().as_str() {
        "sync" => resp::<c::sync::sync_events::v3::Response>(a),
        "login" => resp::<c::session::login::v3::Response>(a),
        "get_content" => resp::<c::authenticated_media::get_content::v1::Response>(a),
        "get_pushrules" => resp::<c::push::get_pushrules_all::v3::Response>(a),
        "get_keys" => resp::<c::keys::get_keys::v3::Response>(a),
        "versions" => resp::<c::discovery::get_supported_versions::Response>(a),
        "well_known" => resp::<c::discovery::discover_homeserver::Response>(a),
        "get_messages" => resp::<c::message::get_message_events::v3::Response>(a),
        "get_state" => resp::<c::state::get_state_events::v3::Response>(a),
        "fed_transaction" => resp::<f::transactions::send_transaction_message::v1::Response>(a),
        "fed_send_join" => resp::<f::membership::create_join_event::v2::Response>(a),
        "fed_get_event" => resp::<f::event::get_event::v1::Response>(a),
        "fed_server_keys" => resp::<f::discovery::get_server_keys::v2::Response>(a),
        "fed_make_join" => resp::<f::membership::prepare_join_event::v1::Response>(a),
        "fed_media" => resp::<f::authenticated_media::get_content::v1::Response>(a),
        "fed_thumbnail" => resp::<f::authenticated_media::get_content_thumbnail::v1::Response>(a),
        "register" => resp::<c::account::register::v3::Response>(a),
        "capabilities" => resp::<c::discovery::get_capabilities::v3::Response>(a),
        other => Err(format!("unknown endpoint {other}")),
    }
}

fn state_res_auth(a: &[Value]) -> R {
    // a = [room version, event json, state events json array]
    let r = rules(&arg_str(&a[0]).ok_or("utf8")?)?;
    fn to_pdu(v: &Value) -> Result<pdu::Pdu, String> {
        let s = |k: &str| v.get(k).and_then(|x| x.as_str()).ok_or_else(|| format!("missing {k}"));
        let ids = |k: &str| -> Result<Vec<ruma_common::OwnedEventId>, String> {
            v.get(k).and_then(|x| x.as_array()).map(|l| l.iter().filter_map(|x| x.as_str()).map(|x| ruma_common::OwnedEventId::try_from(x).map_err(|e| e.to_string())).collect()).unwrap_or(Ok(vec![]))
        };
        Ok(pdu::Pdu {
            event_id: s("event_id")?.try_into().map_err(|e: ruma_common::IdParseError| e.to_string())?,
            room_id: s("room_id")?.try_into().map_err(|e: ruma_common::IdParseError| e.to_string())?,
            sender: s("sender")?.try_into().map_err(|e: ruma_common::IdParseError| e.to_string())?,
            ts: v.get("origin_server_ts").and_then(|x| x.as_u64()).unwrap_or(0) & ((1 << 53) - 1),
            ty: s("type")?.into(),
            content: serde_json::value::to_raw_value(v.get("content").unwrap_or(&Value::Null)).map_err(|e| e.to_string())?,
            state_key: v.get("state_key").and_then(|x| x.as_str()).map(|x| x.to_owned()),
            prev: ids("prev_events")?,
            auth: ids("auth_events")?,
            redacts: v.get("redacts").and_then(|x| x.as_str()).and_then(|x| x.try_into().ok()),
        })
    }
    let ev: Value = serde_json::from_str(&arg_str(&a[1]).ok_or("utf8")?).map_err(|e| e.to_string())?;
    let st: Vec<Value> = serde_json::from_str(&arg_str(&a[2]).ok_or("utf8")?).map_err(|e| e.to_string())?;
    let e = to_pdu(&ev)?;
    let state: Vec<pdu::Pdu> = st.iter().filter_map(|x| to_pdu(x).ok()).collect();
    let types = dbg(ruma_state_res::auth_types_for_event(&e.ty, &e.sender, e.state_key.as_deref(), &e.content, &r.authorization));
    let res = ruma_state_res::auth_check(&r.authorization, &e, |ty: &StateEventType, key: &str| {
        state.iter().find(|p| p.ty.to_string() == ty.to_string() && p.state_key.as_deref() == Some(key)).cloned()
    });
    match res {
        Ok(()) => Ok(format!("allowed {types:?}")),
        Err(x) => Err(format!("{x} {types:?}")),
    }
}

fn event<T: serde::de::DeserializeOwned + Debug>(a: &[Value]) -> R {
    let b = arg_bytes(&a[0]);
    dbg(serde_json::from_slice::<T>(&b))
}

/// The stateless entry points: the result is a function of the arguments.
fn call(ep: &str, a: &[Value]) -> R {
    let s0 = || arg_str(&a[0]).ok_or_else(|| "not utf-8".to_owned());
    match ep {
        "user_id" => {
            let id = ruma_common::UserId::parse(s0()?).map_err(|e| e.to_string())?;
            Ok(format!("{id} {} {} {} {} {}", id.localpart(), id.server_name(), id.is_historical(), id.matrix_to_uri(), id.matrix_uri(false)))
        }
        "user_id_with_server" => {
            let server = ruma_common::OwnedServerName::try_from(arg_str(&a[1]).ok_or("utf8")?).map_err(|e| e.to_string())?;
            dbg(ruma_common::UserId::parse_with_server_name(s0()?, &server))
        }
        "room_id" => {
            let id = ruma_common::RoomId::parse(s0()?).map_err(|e| e.to_string())?;
            Ok(format!("{id} {:?} {} {}", id.server_name(), id.matrix_to_uri(), id.matrix_uri(true)))
        }
        "room_alias_id" => {
            let id = ruma_common::OwnedRoomAliasId::try_from(s0()?).map_err(|e| e.to_string())?;
            Ok(format!("{id} {} {} {} {}", id.alias(), id.server_name(), id.matrix_to_uri(), id.matrix_uri(false)))
        }
        "room_or_alias_id" => {
            let id = ruma_common::OwnedRoomOrAliasId::try_from(s0()?).map_err(|e| e.to_string())?;
            Ok(format!("{id} {:?} {} {}", id.server_name(), id.is_room_id(), id.is_room_alias_id()))
        }
        "event_id" => {
            let id = ruma_common::OwnedEventId::try_from(s0()?).map_err(|e| e.to_string())?;
            Ok(format!("{id} {:?} {:?}", id.localpart(), id.server_name()))
        }
        "server_name" => {
            let id = ruma_common::OwnedServerName::try_from(s0()?).map_err(|e| e.to_string())?;
            Ok(format!("{id} {} {:?} {}", id.host(), id.port(), id.is_ip_literal()))
        }
        "device_key_id" => {
            let id = ruma_common::OwnedDeviceKeyId::try_from(s0()?).map_err(|e| e.to_string())?;
            Ok(format!("{id} {} {}", id.algorithm(), id.key_name()))
        }
        "signing_key_id" => {
            let id = ruma_common::OwnedServerSigningKeyId::try_from(s0()?).map_err(|e| e.to_string())?;
            Ok(format!("{id} {} {}", id.algorithm(), id.key_name()))
        }
        "mxc_uri" => {
            let s = s0()?;
            let m = <&MxcUri>::from(s.as_str());
            let v = m.validate().map_err(|e| e.to_string());
            let p = m.parts().map(|(a, b)| format!("{a} {b}")).map_err(|e| e.to_string());
            let w = ruma_identifiers_validation::mxc_uri::validate(&s).map(|n| n.get()).map_err(|e| e.to_string());
            match (&v, &p) {
                (Ok(()), Ok(p)) => Ok(format!("{p} {:?} {:?} {w:?}", m.media_id(), m.server_name())),
                _ => Err(format!("{v:?} {p:?} {w:?} {:?}", m.is_valid())),
            }
        }
        "client_secret" => dbg(ruma_common::OwnedClientSecret::try_from(s0()?)),
        "session_id" => dbg(ruma_common::OwnedSessionId::try_from(s0()?)),
        "base64_public_key" => dbg(ruma_common::OwnedBase64PublicKey::try_from(s0()?)),
        "room_version_id" => dbg(RoomVersionId::try_from(s0()?.as_str())),
        "voip_version_id" => dbg(ruma_common::VoipVersionId::try_from(s0()?.as_str())),
        "base64" => dbg(Base64::<ruma_common::serde::base64::Standard>::parse(s0()?)),
        "matrix_uri" => {
            let u = MatrixUri::parse(&s0()?).map_err(|e| e.to_string())?;
            Ok(format!("{u} {:?} {:?} {:?}", u.id(), u.via(), u.action()))
        }
        "matrix_to_uri" => {
            let u = MatrixToUri::parse(&s0()?).map_err(|e| e.to_string())?;
            Ok(format!("{u} {:?} {:?}", u.id(), u.via()))
        }
        "content_disposition" => {
            let cd = ContentDisposition::try_from(arg_bytes(&a[0]).as_slice()).map_err(|e| e.to_string())?;
            let text = cd.to_string();
            Ok(format!("{cd:?} {text} {:?}", ContentDisposition::from_str(&text).map_err(|e| e.to_string())))
        }
        "content_disposition_type" => dbg(ContentDispositionType::try_from(arg_bytes(&a[0]).as_slice())),
        "token_string" => dbg(TokenString::try_from(arg_bytes(&a[0]).as_slice())),
        "header_helpers" => {
            let s = s0()?;
            Ok(format!(
                "{} {} {} {} {}",
                ruma_common::http_headers::is_token_string(&s),
                ruma_common::http_headers::sanitize_for_ascii_quoted_string(&s),
                ruma_common::http_headers::quote_ascii_string_if_required(&s),
                ruma_common::http_headers::unescape_string(&s),
                ruma_common::http_headers::is_token(arg_bytes(&a[0]).as_slice())
            ))
        }
        "x_matrix" => {
            let x = ruma_federation_api::authentication::XMatrix::parse(s0()?).map_err(|e| e.to_string())?;
            let hv = http::HeaderValue::from(&x);
            Ok(format!("{x:?} {hv:?}"))
        }
        "any_timeline" => event::<AnyTimelineEvent>(a),
        "any_sync_timeline" => event::<AnySyncTimelineEvent>(a),
        "any_state" => event::<AnyStateEvent>(a),
        "any_sync_state" => event::<AnySyncStateEvent>(a),
        "any_stripped_state" => event::<AnyStrippedStateEvent>(a),
        "any_message_like" => event::<AnyMessageLikeEvent>(a),
        "any_ephemeral" => event::<AnyEphemeralRoomEvent>(a),
        "any_global_account_data" => event::<AnyGlobalAccountDataEvent>(a),
        "any_room_account_data" => event::<AnyRoomAccountDataEvent>(a),
        "any_to_device" => event::<AnyToDeviceEvent>(a),
        "raw_event" => {
            let raw = Raw::<AnySyncTimelineEvent>::from_json_string(s0()?).map_err(|e| e.to_string())?;
            let ty = raw.get_field::<String>("type").map_err(|e| e.to_string());
            let content = raw.get_field::<Value>("content").map_err(|e| e.to_string());
            let ev = raw.deserialize().map(|e| format!("{e:?}")).map_err(|e| e.to_string());
            Ok(format!("{ty:?} {content:?} {ev:?} {}", raw.json().get().len()))
        }
        "canonical_value" => {
            let v: CanonicalJsonValue = serde_json::from_slice(&arg_bytes(&a[0])).map_err(|e| e.to_string())?;
            Ok(v.to_string())
        }
        "to_canonical_value" => {
            let v: Value = serde_json::from_slice(&arg_bytes(&a[0])).map_err(|e| e.to_string())?;
            let c = ruma_common::canonical_json::to_canonical_value(&v).map_err(|e| e.to_string())?;
            Ok(c.to_string())
        }
        "redact" => {
            let r = rules(&arg_str(&a[1]).ok_or("utf8")?)?;
            let o = object(&s0()?)?;
            dbg(redact(o, &r.redaction, None))
        }
        "redact_content" => {
            let r = rules(&arg_str(&a[1]).ok_or("utf8")?)?;
            let mut o = object(&s0()?)?;
            redact_content_in_place(&mut o, &r.redaction, arg_str(&a[2]).ok_or("utf8")?);
            Ok(format!("{o:?}"))
        }
        "ruleset_json" => {
            let rs: Ruleset = serde_json::from_slice(&arg_bytes(&a[0])).map_err(|e| e.to_string())?;
            let ev = Raw::<Value>::from_json_string(arg_str(&a[1]).ok_or("utf8")?).map_err(|e| e.to_string())?;
            Ok(format!("{:?} {}", rs.get_actions(&ev, &ctx()), serde_json::to_string(&rs).unwrap_or_default()))
        }
        "push_condition_json" => {
            let c: PushCondition = serde_json::from_slice(&arg_bytes(&a[0])).map_err(|e| e.to_string())?;
            let ev = Raw::<Value>::from_json_string(arg_str(&a[1]).ok_or("utf8")?).map_err(|e| e.to_string())?;
            Ok(format!("{c:?} {}", c.applies(&FlattenedJson::from_raw(&ev), &ctx())))
        }
        "restricted_json" => dbg(serde_json::from_slice::<ruma_events::room::join_rules::Restricted>(&arg_bytes(&a[0]))),
        "join_rules_content" => dbg(serde_json::from_slice::<ruma_events::room::join_rules::RoomJoinRulesEventContent>(&arg_bytes(&a[0]))),
        "member_count_is" => dbg(ruma_common::push::RoomMemberCountIs::from_str(&s0()?)),
        "push_match" => {
            // a = [key, pattern, event json]
            let ev = Raw::<Value>::from_json_string(arg_str(&a[2]).ok_or("utf8")?).map_err(|e| e.to_string())?;
            let c = PushCondition::EventMatch { key: s0()?, pattern: arg_str(&a[1]).ok_or("utf8")? };
            Ok(c.applies(&FlattenedJson::from_raw(&ev), &ctx()).to_string())
        }
        "default_actions" => {
            let ev = Raw::<Value>::from_json_string(s0()?).map_err(|e| e.to_string())?;
            let rs = Ruleset::server_default(&OwnedUserId::try_from("@me:s.co").unwrap());
            Ok(format!("{:?}", rs.get_actions(&ev, &ctx())))
        }
        "verify_json" => {
            let o = object(&s0()?)?;
            dbg(verify_json(&key_map(), &o))
        }
        "verify_json_keys" => {
            // a = [object, public key map json]
            let o = object(&s0()?)?;
            let m: PublicKeyMap = serde_json::from_slice(&arg_bytes(&a[1])).map_err(|e| e.to_string())?;
            dbg(verify_json(&m, &o))
        }
        "verify_event" => {
            let r = rules(&arg_str(&a[1]).ok_or("utf8")?)?;
            let o = object(&s0()?)?;
            dbg(verify_event(&key_map(), &o, &r))
        }
        "hashes" => {
            let r = rules(&arg_str(&a[1]).ok_or("utf8")?)?;
            let o = object(&s0()?)?;
            let c = dbg(content_hash(&o));
            let rh = dbg(reference_hash(&o, &r));
            let cj = dbg(canonical_json(&o));
            if c.is_ok() && rh.is_ok() {
                Ok(format!("{c:?} {rh:?} {cj:?}"))
            } else {
                Err(format!("{c:?} {rh:?} {cj:?}"))
            }
        }
        "verify_bytes" => {
            // a = [public key bytes, signature bytes, message bytes]
            dbg(verify_canonical_json_bytes(&ruma_common::SigningKeyAlgorithm::Ed25519, &arg_bytes(&a[0]), &arg_bytes(&a[1]), &arg_bytes(&a[2])))
        }
        "key_from_der" => {
            let k = Ed25519KeyPair::from_der(&arg_bytes(&a[0]), arg_str(&a[1]).ok_or("utf8")?).map_err(|e| e.to_string())?;
            Ok(format!("{} {:?}", k.version(), k.public_key()))
        }
        "html_strict" | "html_compat" | "html_reply" | "html_plain" => {
            let s = s0()?;
            let html = ruma_html::Html::parse(&s);
            match ep {
                "html_strict" => html.sanitize_with(&ruma_html::SanitizerConfig::strict().remove_reply_fallback()),
                "html_compat" => html.sanitize_with(&ruma_html::SanitizerConfig::compat()),
                "html_reply" => html.sanitize_with(&ruma_html::SanitizerConfig::new().remove_reply_fallback()),
                _ => {}
            }
            Ok(html.to_string())
        }
        "sanitize_html" => {
            let s = s0()?;
            let a1 = ruma_html::sanitize_html(&s, ruma_html::HtmlSanitizerMode::Strict, ruma_html::RemoveReplyFallback::Yes);
            let a2 = ruma_html::sanitize_html(&s, ruma_html::HtmlSanitizerMode::Compat, ruma_html::RemoveReplyFallback::No);
            Ok(format!("{a1}\u{0}{a2}"))
        }
        "remove_html_reply_fallback" => Ok(ruma_html::remove_html_reply_fallback(&s0()?)),
        "plain_reply_fallback" => Ok(ruma_events::room::message::sanitize::remove_plain_reply_fallback(&s0()?).to_owned()),
        "message_sanitize" => {
            // a received m.room.message content, sanitised as a client does before display
            let mut c: ruma_events::room::message::RoomMessageEventContent = serde_json::from_slice(&arg_bytes(&a[0])).map_err(|e| e.to_string())?;
            let yes = arg_str(&a[1]).ok_or("utf8")? == "yes";
            c.sanitize(ruma_html::HtmlSanitizerMode::Strict, if yes { ruma_html::RemoveReplyFallback::Yes } else { ruma_html::RemoveReplyFallback::No });
            serde_json::to_string(&c).map_err(|e| e.to_string())
        }
        "endpoint_request" => endpoint_req(a),
        "endpoint_response" => endpoint_resp(a),
        "auth_check" => state_res_auth(a),
        other => Err(format!("unknown entry point {other}")),
    }
}

fn actions_of(v: &Value) -> Vec<Action> {
    v.as_array()
        .map(|l| {
            l.iter()
                .map(|x| match x.as_str() {
                    Some("notify") => Action::Notify,
                    Some(other) => Action::SetTweak(Tweak::Sound(other.to_owned())),
                    None => Action::SetTweak(Tweak::Highlight(x.as_bool().unwrap_or(true))),
                })
                .collect()
        })
        .unwrap_or_default()
}

fn kind_of(kind: &str) -> RuleKind {
    match kind {
        "override" => RuleKind::Override,
        "underride" => RuleKind::Underride,
        "content" => RuleKind::Content,
        "room" => RuleKind::Room,
        "sender" => RuleKind::Sender,
        other => RuleKind::from(other),
    }
}

/// Edits of the explicit object: a = [op, kind, rule id, after, before, extra]
fn edit(rs: &mut Ruleset, a: &[Value]) -> R {
    let s = |i: usize| arg_str(&a[i]).unwrap_or_default();
    let opt = |i: usize| if a[i].is_null() { None } else { arg_str(&a[i]) };
    let (op, kind, id) = (s(0), s(1), s(2));
    match op.as_str() {
        "insert" => {
            let acts = actions_of(&a[5]);
            let rule = match kind.as_str() {
                "override" => NewPushRule::Override(NewConditionalPushRule::new(id.clone(), vec![PushCondition::EventMatch { key: "content.body".into(), pattern: id.clone() }], acts)),
                "underride" => NewPushRule::Underride(NewConditionalPushRule::new(id.clone(), vec![], acts)),
                "content" => NewPushRule::Content(NewPatternedPushRule::new(id.clone(), id.clone(), acts)),
                "room" => NewPushRule::Room(NewSimplePushRule::new(OwnedRoomId::try_from(id.as_str()).map_err(|e| e.to_string())?, acts)),
                "sender" => NewPushRule::Sender(NewSimplePushRule::new(OwnedUserId::try_from(id.as_str()).map_err(|e| e.to_string())?, acts)),
                _ => return Err("kind".into()),
            };
            dbg(rs.insert(rule, opt(3).as_deref(), opt(4).as_deref()))
        }
        "insert_json" => {
            // the rule as it arrives in a PUT /pushrules body
            let rule: NewPushRule = match kind.as_str() {
                "override" => NewPushRule::Override(serde_json::from_slice(&arg_bytes(&a[5])).map_err(|e| e.to_string())?),
                "underride" => NewPushRule::Underride(serde_json::from_slice(&arg_bytes(&a[5])).map_err(|e| e.to_string())?),
                "content" => NewPushRule::Content(serde_json::from_slice(&arg_bytes(&a[5])).map_err(|e| e.to_string())?),
                "room" => NewPushRule::Room(serde_json::from_slice(&arg_bytes(&a[5])).map_err(|e| e.to_string())?),
                "sender" => NewPushRule::Sender(serde_json::from_slice(&arg_bytes(&a[5])).map_err(|e| e.to_string())?),
                _ => return Err("kind".into()),
            };
            dbg(rs.insert(rule, opt(3).as_deref(), opt(4).as_deref()))
        }
        "remove" => dbg(rs.remove(kind_of(&kind), &id)),
        "set_enabled" => dbg(rs.set_enabled(kind_of(&kind), &id, a[5].as_bool().unwrap_or(false))),
        "set_actions" => dbg(rs.set_actions(kind_of(&kind), &id, actions_of(&a[5]))),
        _ => Err("op".into()),
    }
}

/// sign_json / hash_and_sign_event on a caller-supplied object: a = [which, entity, object json, room version]
fn sign(a: &[Value]) -> (R, String, String) {
    let which = arg_str(&a[0]).unwrap_or_default();
    let entity = arg_str(&a[1]).unwrap_or_default();
    let mut o = match arg_str(&a[2]).ok_or_else(|| "utf8".to_owned()).and_then(|s| object(&s)) {
        Ok(o) => o,
        Err(e) => return (Err(e), String::new(), String::new()),
    };
    let before = format!("{o:?}");
    let kp = pdu::keypair(1, "1");
    let r = if which == "sign_json" {
        dbg(sign_json(&entity, &kp, &mut o))
    } else {
        match rules(&arg_str(&a[3]).unwrap_or_default()) {
            Ok(r) => dbg(hash_and_sign_event(&entity, &kp, &mut o, &r.redaction)),
            Err(e) => Err(e),
        }
    };
    (r, fnv(&before), fnv(&format!("{o:?}")))
}

/// Validly signed seeds: the objects given on stdin (one JSON per line: {"name", "object", "event": bool, "v"}) signed by a.example.
pub fn seeds() {
    let kp = pdu::keypair(1, "1");
    let mut out = serde_json::Map::new();
    for line in std::io::stdin().lock().lines() {
        let line = line.unwrap();
        if line.trim().is_empty() {
            continue;
        }
        let v: Value = serde_json::from_str(&line).unwrap();
        let mut o: CanonicalJsonObject = serde_json::from_value(v["object"].clone()).unwrap();
        o.remove("signatures");
        if v["event"].as_bool().unwrap_or(false) {
            o.remove("hashes");
            let r = rules(v["v"].as_str().unwrap()).unwrap();
            hash_and_sign_event("a.example", &kp, &mut o, &r.redaction).unwrap();
        } else {
            sign_json("a.example", &kp, &mut o).unwrap();
        }
        out.insert(v["name"].as_str().unwrap().to_owned(), serde_json::to_value(&o).unwrap());
    }
    let msg = b"{\"a\":1}";
    use ruma_signatures::KeyPair;
    let sig = kp.sign(msg);
    let hexs = |b: &[u8]| b.iter().map(|x| format!("{x:02x}")).collect::<String>();
    out.insert("raw".into(), json!({"key": hexs(&kp.public_key()), "sig": hexs(sig.as_bytes()), "msg": hexs(msg)}));
    out.insert("keymap".into(), serde_json::to_value(key_map()).unwrap());
    // a PKCS#8 document as ring writes it (public key under a malformed context tag), for the ring-compat path of from_der
    let mut ring = vec![0x30, 0x53, 0x02, 0x01, 0x01, 0x30, 0x05, 0x06, 0x03, 0x2b, 0x65, 0x70, 0x04, 0x22, 0x04, 0x20];
    ring.extend(std::iter::repeat(1u8).take(32));
    ring.extend([0xa1, 0x23, 0x03, 0x21, 0x00]);
    ring.extend(kp.public_key());
    out.insert("ringdoc".into(), json!(hexs(&ring)));
    println!("{}", Value::Object(out));
}

pub fn run(args: &[String]) {
    let inputs_path = &args[0];
    let sched_path = &args[1];
    let out_path = &args[2];
    let start: usize = args[3].parse().unwrap();
    let budget: u64 = args.get(4).and_then(|s| s.parse().ok()).unwrap_or(20);
    // inputs whose call did not return in an earlier process are not called again
    let skip: std::collections::BTreeSet<u64> = args.get(5).map(|s| s.split(',').filter_map(|x| x.parse().ok()).collect()).unwrap_or_default();
    let mut inputs: BTreeMap<u64, Value> = BTreeMap::new();
    for line in std::io::BufReader::new(std::fs::File::open(inputs_path).unwrap()).lines() {
        let line = line.unwrap();
        if line.trim().is_empty() {
            continue;
        }
        let v: Value = serde_json::from_str(&line).unwrap();
        inputs.insert(v["i"].as_u64().unwrap(), v);
    }
    let sched: Vec<Value> = serde_json::from_str(&std::fs::read_to_string(sched_path).unwrap()).unwrap();
    let out = Arc::new(std::sync::Mutex::new(std::fs::OpenOptions::new().create(true).append(true).open(out_path).unwrap()));
    // watchdog: the budget is CPU time of this process (the calling thread is the only one that computes), so that a loaded
    // machine does not turn a slow call into a timeout; a call that blocks without computing is caught by a wall-clock cap
    fn cpu_ticks() -> u64 {
        // utime + stime of /proc/self/stat, in clock ticks (100 per second)
        std::fs::read_to_string("/proc/self/stat").ok().and_then(|s| {
            let rest = s.rsplit_once(')')?.1.to_owned();
            let f: Vec<&str> = rest.split_whitespace().collect();
            Some(f.get(11)?.parse::<u64>().ok()? + f.get(12)?.parse::<u64>().ok()?)
        }).unwrap_or(0)
    }
    let current = Arc::new(AtomicU64::new(u64::MAX));
    let began = Arc::new(std::sync::Mutex::new((Instant::now(), 0u64)));
    {
        let (current, began, out) = (current.clone(), began.clone(), out.clone());
        std::thread::spawn(move || loop {
            std::thread::sleep(Duration::from_millis(200));
            let pos = current.load(Ordering::SeqCst);
            if pos == u64::MAX {
                continue;
            }
            let (t0, c0) = *began.lock().unwrap();
            if cpu_ticks().saturating_sub(c0) > budget * 100 || t0.elapsed() > Duration::from_secs(budget * 25) {
                let mut f = out.lock().unwrap();
                let _ = writeln!(f, "T {pos}");
                let _ = f.flush();
                std::process::exit(3);
            }
        });
    }
    let worker = std::thread::Builder::new().name("c17-calls".into()).stack_size(2 << 20).spawn(move || {
        let mut rs = Ruleset::server_default(&OwnedUserId::try_from("@me:s.co").unwrap());
        let digest = |rs: &Ruleset| fnv(&serde_json::to_string(rs).unwrap_or_default());
        {
            let mut f = out.lock().unwrap();
            let _ = writeln!(f, "{}", json!({"ev": "start", "pos": start, "ruleset": digest(&rs)}));
        }
        for (pos, item) in sched.iter().enumerate().skip(start) {
            let i = item[0].as_u64().unwrap();
            if skip.contains(&i) {
                let mut f = out.lock().unwrap();
                let _ = writeln!(f, "{}", json!({"ev": "skipped", "pos": pos, "i": i}));
                continue;
            }
            let pass = item[1].as_str().unwrap_or("A");
            let inp = &inputs[&i];
            let ep = inp["ep"].as_str().unwrap_or("");
            let a: Vec<Value> = inp["a"].as_array().cloned().unwrap_or_default();
            {
                let mut f = out.lock().unwrap();
                let _ = writeln!(f, "B {pos}");
            }
            *began.lock().unwrap() = (Instant::now(), cpu_ticks());
            current.store(pos as u64, Ordering::SeqCst);
            let t0 = Instant::now();
            let rec = if ep == "ruleset_edit" {
                let before = digest(&rs);
                let r = catch_unwind(AssertUnwindSafe(|| edit(&mut rs, &a)));
                let after = digest(&rs);
                let (outcome, res) = match &r { Ok(Ok(s)) => ("ok", s.clone()), Ok(Err(s)) => ("err", s.clone()), Err(_) => ("panic", String::new()) };
                json!({"ev": "edit", "obj": "ruleset", "pos": pos, "i": i, "ep": ep, "pass": pass, "outcome": outcome, "res": fnv(&res), "before": before, "after": after, "text": res.chars().take(120).collect::<String>()})
            } else if ep == "sign" {
                let r = catch_unwind(AssertUnwindSafe(|| sign(&a)));
                match r {
                    Ok((r, before, after)) => {
                        let (outcome, res) = match &r { Ok(s) => ("ok", s.clone()), Err(s) => ("err", s.clone()) };
                        let parsed = !before.is_empty();
                        json!({"ev": if parsed { "edit" } else { "call" }, "obj": "signed", "pos": pos, "i": i, "ep": ep, "pass": pass, "outcome": outcome, "res": fnv(&format!("{res}{after}")), "before": before, "after": after, "text": res.chars().take(120).collect::<String>()})
                    }
                    Err(_) => json!({"ev": "call", "pos": pos, "i": i, "ep": ep, "pass": pass, "outcome": "panic", "res": "", "text": ""}),
                }
            } else {
                let r = catch_unwind(AssertUnwindSafe(|| call(ep, &a)));
                let (outcome, res) = match &r { Ok(Ok(s)) => ("ok", s.clone()), Ok(Err(s)) => ("err", s.clone()), Err(e) => ("panic", e.downcast_ref::<String>().cloned().or_else(|| e.downcast_ref::<&str>().map(|s| s.to_string())).unwrap_or_default()) };
                json!({"ev": "call", "pos": pos, "i": i, "ep": ep, "pass": pass, "outcome": outcome, "res": fnv(&res), "text": res.chars().take(120).collect::<String>()})
            };
            current.store(u64::MAX, Ordering::SeqCst);
            let mut rec = rec;
            rec["ms"] = json!(t0.elapsed().as_millis() as u64);
            let mut f = out.lock().unwrap();
            let _ = writeln!(f, "{rec}");
        }
        let mut f = out.lock().unwrap();
        let _ = writeln!(f, "{}", json!({"ev": "end"}));
        let _ = f.flush();
    }).unwrap();
    let _ = worker.join();
}

fn main(){}

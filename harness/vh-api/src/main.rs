//! verif harness for the API crates (C16): path selection, wire round trips, X-Matrix.
use std::io::{BufRead, Write};
use std::panic::{catch_unwind, AssertUnwindSafe};

use http::Method;
use ruma_common::api::{AuthScheme, MatrixVersion, Metadata, OutgoingRequest, VersionHistory};
use serde_json::{json, Value};

mod c17;
mod c19api;
mod synth;

const ALL_VERSIONS: [MatrixVersion; 15] = [
    MatrixVersion::V1_0, MatrixVersion::V1_1, MatrixVersion::V1_2, MatrixVersion::V1_3, MatrixVersion::V1_4, MatrixVersion::V1_5,
    MatrixVersion::V1_6, MatrixVersion::V1_7, MatrixVersion::V1_8, MatrixVersion::V1_9, MatrixVersion::V1_10, MatrixVersion::V1_11,
    MatrixVersion::V1_12, MatrixVersion::V1_13, MatrixVersion::V1_14,
];
fn vidx(v: MatrixVersion) -> i64 {
    ALL_VERSIONS.iter().position(|x| *x == v).map(|p| p as i64).unwrap_or(-2)
}

pub fn guard<T>(f: impl FnOnce() -> T) -> Result<T, String> {
    catch_unwind(AssertUnwindSafe(f)).map_err(|e| {
        if let Some(s) = e.downcast_ref::<&str>() { s.to_string() } else if let Some(s) = e.downcast_ref::<String>() { s.clone() } else { "panic".into() }
    })
}
pub fn cps(s: &str) -> Vec<u32> {
    s.chars().map(|c| c as u32).collect()
}
fn put(v: &Value) {
    let out = std::io::stdout();
    let mut l = out.lock();
    serde_json::to_writer(&mut l, v).unwrap();
    l.write_all(b"\n").unwrap();
}

/// Builds a (leaked) history from the model's abstract shape; paths carry their kind/version in the text.
fn history(stable: &[i64], unstable: bool, dep: i64, rem: i64) -> VersionHistory {
    let un: &'static [&'static str] = if unstable { Box::leak(vec!["/u/unstable"].into_boxed_slice()) } else { &[] };
    let mut st: Vec<(MatrixVersion, &'static str)> = vec![];
    let mut sorted = stable.to_vec();
    sorted.sort();
    for v in sorted {
        st.push((ALL_VERSIONS[v as usize], Box::leak(format!("/s/{v}").into_boxed_str())));
    }
    let st: &'static [(MatrixVersion, &'static str)] = Box::leak(st.into_boxed_slice());
    let d = if dep >= 0 { Some(ALL_VERSIONS[dep as usize]) } else { None };
    let r = if rem >= 0 { Some(ALL_VERSIONS[rem as usize]) } else { None };
    VersionHistory::new(un, st, d, r)
}

fn select_with(h: &VersionHistory, versions: &[MatrixVersion]) -> Value {
    let meta = Metadata { method: Method::GET, rate_limited: false, authentication: AuthScheme::None, history: h.clone() };
    match guard(|| meta.make_endpoint_url(versions, "https://h.s", &[], "")) {
        Err(p) => json!({"kind": "panic", "msg": p}),
        Ok(Ok(url)) => {
            let path = url.trim_start_matches("https://h.s");
            if path == "/u/unstable" { json!({"kind": "unstable", "ver": -1}) } else { json!({"kind": "stable", "ver": path.trim_start_matches("/s/").parse::<i64>().unwrap_or(-9)}) }
        }
        Ok(Err(e)) => {
            let s = format!("{e:?}");
            if s.contains("EndpointRemoved") { json!({"kind": "removed", "ver": -1}) } else { json!({"kind": "error", "ver": -1}) }
        }
    }
}

/// spec -> impl: one case per (history, lo, hi); selects with {lo, hi}, with the whole interval, and reversed
fn select() {
    let stdin = std::io::stdin();
    for (i, line) in stdin.lock().lines().enumerate() {
        let c: Value = serde_json::from_str(&line.unwrap()).unwrap();
        let stable: Vec<i64> = c["stable"].as_array().unwrap().iter().map(|x| x.as_i64().unwrap()).collect();
        let (lo, hi) = (c["lo"].as_i64().unwrap() as usize, c["hi"].as_i64().unwrap() as usize);
        let r = guard(|| history(&stable, c["unstable"].as_bool().unwrap(), c["dep"].as_i64().unwrap(), c["rem"].as_i64().unwrap()));
        let o = match r {
            Err(p) => json!({"i": i, "construct_panic": p}),
            Ok(h) => {
                let pair = if lo == hi { vec![ALL_VERSIONS[lo]] } else { vec![ALL_VERSIONS[lo], ALL_VERSIONS[hi]] };
                let interval: Vec<MatrixVersion> = (lo..=hi).rev().map(|k| ALL_VERSIONS[k]).collect();
                json!({"i": i, "pair": select_with(&h, &pair), "interval_reversed": select_with(&h, &interval),
                       "decision_consistent": h.stable_endpoint_for(&pair).is_some() == (select_with(&h, &pair)["kind"] == "stable")})
            }
        };
        put(&o);
    }
}

/// all 2^15 - 1 non-empty subsets of the known versions against their (min, max) representative
fn subsets() {
    let stdin = std::io::stdin();
    let mut n = 0u64;
    let mut bad = 0u64;
    for line in stdin.lock().lines() {
        let c: Value = serde_json::from_str(&line.unwrap()).unwrap();
        let stable: Vec<i64> = c["stable"].as_array().unwrap().iter().map(|x| x.as_i64().unwrap()).collect();
        let h = history(&stable, c["unstable"].as_bool().unwrap(), c["dep"].as_i64().unwrap(), c["rem"].as_i64().unwrap());
        let mut by_pair: std::collections::HashMap<(usize, usize), Value> = Default::default();
        for mask in 1u32..(1 << 15) {
            let vs: Vec<MatrixVersion> = (0..15).filter(|k| mask & (1 << k) != 0).map(|k| ALL_VERSIONS[k]).collect();
            let lo = mask.trailing_zeros() as usize;
            let hi = 31 - mask.leading_zeros() as usize;
            let got = select_with(&h, &vs);
            let rep = by_pair.entry((lo, hi)).or_insert_with(|| select_with(&h, &if lo == hi { vec![ALL_VERSIONS[lo]] } else { vec![ALL_VERSIONS[lo], ALL_VERSIONS[hi]] }));
            n += 1;
            if &got != rep {
                bad += 1;
                if bad < 5 {
                    put(&json!({"subset_mismatch": {"history": c, "mask": mask, "got": got, "min_max": rep}}));
                }
            }
        }
    }
    put(&json!({"summary": {"subset_selections": n, "mismatches": bad}}));
}

macro_rules! meta_of {
    ($($p:ident)::+) => { (stringify!($($p)::+), <$($p)::+::Request as OutgoingRequest>::METADATA) };
}

fn real_endpoints() -> Vec<(&'static str, Metadata)> {
    use ruma_appservice_api as a;
    use ruma_client_api as c;
    use ruma_federation_api as f;
    use ruma_identity_service_api as i;
    use ruma_push_gateway_api as p;
    vec![
        meta_of!(c::profile::get_profile::v3), meta_of!(c::message::send_message_event::v3), meta_of!(c::alias::get_alias::v3),
        meta_of!(c::membership::join_room_by_id_or_alias::v3), meta_of!(c::state::send_state_event::v3), meta_of!(c::room::get_room_event::v3),
        meta_of!(c::media::get_content::v3), meta_of!(c::account::whoami::v3), meta_of!(c::push::set_pushrule::v3), meta_of!(c::tag::create_tag::v3),
        meta_of!(c::directory::get_public_rooms::v3), meta_of!(c::keys::get_keys::v3), meta_of!(c::session::login::v3), meta_of!(c::redact::redact_event::v3),
        meta_of!(c::config::set_global_account_data::v3), meta_of!(c::device::get_device::v3), meta_of!(c::user_directory::search_users::v3),
        meta_of!(c::sync::sync_events::v3), meta_of!(c::receipt::create_receipt::v3), meta_of!(c::media::create_content::v3),
        meta_of!(c::authenticated_media::get_content::v1), meta_of!(c::account::register::v3), meta_of!(c::membership::invite_user::v3),
        meta_of!(c::membership::ban_user::v3), meta_of!(c::backup::get_backup_info::v3), meta_of!(c::filter::create_filter::v3),
        meta_of!(c::presence::get_presence::v3), meta_of!(c::typing::create_typing_event::v3), meta_of!(c::room::create_room::v3),
        meta_of!(c::space::get_hierarchy::v1), meta_of!(c::threads::get_threads::v1), meta_of!(c::relations::get_relating_events::v1),
        meta_of!(f::event::get_event::v1), meta_of!(f::membership::create_join_event::v2), meta_of!(f::query::get_profile_information::v1),
        meta_of!(f::discovery::get_server_keys::v2), meta_of!(f::transactions::send_transaction_message::v1), meta_of!(f::backfill::get_backfill::v1),
        meta_of!(f::membership::create_invite::v2), meta_of!(f::knock::send_knock::v1),
        meta_of!(a::ping::send_ping::v1), meta_of!(a::query::query_user_id::v1), meta_of!(a::event::push_events::v1),
        meta_of!(i::lookup::get_hash_parameters::v2), meta_of!(i::keys::get_public_key::v2), meta_of!(i::association::unbind_3pid::v2),
        meta_of!(p::send_event_notification::v1),
    ]
}

/// impl -> spec: real endpoint histories (read through the public accessors) x version sets -> observed selection
fn real() {
    let mut l = 0u64;
    for (name, meta) in real_endpoints() {
        let h = &meta.history;
        let stable: Vec<(i64, &str)> = h.stable_paths().map(|(v, p)| (vidx(v), p)).collect();
        let unstable: Vec<&str> = h.unstable_paths().collect();
        let dep = h.deprecated_in().map(vidx).unwrap_or(-1);
        let rem = h.removed_in().map(vidx).unwrap_or(-1);
        let mut sets: Vec<Vec<usize>> = vec![];
        for lo in 0..15 { for hi in lo..15 { sets.push(if lo == hi { vec![lo] } else { vec![lo, hi] }); } }
        sets.push((0..15).collect());
        sets.push(vec![14, 3, 7]);
        for vs in sets {
            let versions: Vec<MatrixVersion> = vs.iter().map(|k| ALL_VERSIONS[*k]).collect();
            let args: Vec<String> = meta._path_parameters().iter().map(|_| "x".to_owned()).collect();
            let dargs: Vec<&dyn std::fmt::Display> = args.iter().map(|a| a as &dyn std::fmt::Display).collect();
            let r = guard(|| meta.make_endpoint_url(&versions, "https://h.s", &dargs, ""));
            // which template was used? substitute the arguments into every known path
            let fill = |p: &str| p.split('/').map(|s| if s.starts_with(':') { "x" } else { s }).collect::<Vec<_>>().join("/");
            let (kind, ver) = match &r {
                Err(_) => ("panic".to_owned(), -9),
                Ok(Err(e)) => (if format!("{e:?}").contains("EndpointRemoved") { "removed".to_owned() } else { "error".to_owned() }, -1),
                Ok(Ok(url)) => {
                    let path = url.trim_start_matches("https://h.s");
                    // the newest stable path with that text (several versions may share one path text)
                    if let Some((v, _)) = stable.iter().rev().find(|(_, p)| fill(p) == path) {
                        ("stable".to_owned(), *v)
                    } else if unstable.iter().any(|p| fill(p) == path) { ("unstable".to_owned(), -1) } else { ("unknown-path".to_owned(), -9) }
                }
            };
            l += 1;
            put(&json!({"kind0": "select", "l": l, "endpoint": name, "stable": stable.iter().map(|(v, _)| *v).collect::<Vec<_>>(), "unstable": !unstable.is_empty(),
                        "dep": dep, "rem": rem, "versions": vs, "kind": kind, "ver": ver,
                        "same_text_as_older": false}));
        }
    }
}

/// impl -> spec: the Authorization header Metadata::authorization_header attaches, for every authentication scheme (synthetic
/// metadata and the metadata of the real endpoints) x every SendAccessToken mode
fn authtable() {
    use ruma_common::api::SendAccessToken;
    let scheme_name = |a: &AuthScheme| format!("{a:?}");
    let mut metas: Vec<(String, Metadata)> = vec![];
    for a in [AuthScheme::None, AuthScheme::AccessToken, AuthScheme::AccessTokenOptional, AuthScheme::AppserviceToken,
              AuthScheme::AppserviceTokenOptional, AuthScheme::ServerSignatures] {
        let h = VersionHistory::new(&[], &[(MatrixVersion::V1_1, "/x")], None, None);
        metas.push((format!("synthetic {}", scheme_name(&a)), Metadata { method: Method::GET, rate_limited: false, authentication: a, history: h }));
    }
    for (name, m) in real_endpoints() {
        metas.push((name.to_owned(), m));
    }
    let mut l = 0u64;
    for (name, m) in metas {
        for send in ["None", "IfRequired", "Always", "Appservice"] {
            let tok = match send {
                "IfRequired" => SendAccessToken::IfRequired("tok"),
                "Always" => SendAccessToken::Always("tok"),
                "Appservice" => SendAccessToken::Appservice("tok"),
                _ => SendAccessToken::None,
            };
            let got = match guard(|| m.authorization_header(tok)) {
                Err(_) => "panic".to_owned(),
                Ok(Err(_)) => "error".to_owned(),
                Ok(Ok(None)) => "none".to_owned(),
                Ok(Ok(Some((n, v)))) => if n == http::header::AUTHORIZATION && v == "Bearer tok" { "header".to_owned() } else { format!("other {n:?} {v:?}") },
            };
            l += 1;
            put(&json!({"kind0": "authtable", "l": l, "endpoint": name, "auth": scheme_name(&m.authentication), "send": send, "auth_header": got}));
        }
    }
}

fn main() {
    let args: Vec<String> = std::env::args().skip(1).collect();
    std::panic::set_hook(Box::new(|_| {}));
    match args.first().map(|s| s.as_str()) {
        Some("select") => select(),
        Some("subsets") => subsets(),
        Some("real") => real(),
        Some("authtable") => authtable(),
        Some("wire") => synth::wire(&args[1..]),
        Some("xmatrix") => synth::xmatrix(),
        Some("shared") => synth::shared(),
        Some("c17") => {
            // panics of the code under test are caught and logged as data; anything else is a harness failure worth seeing
            std::panic::set_hook(Box::new(|info| {
                if std::thread::current().name() != Some("c17-calls") {
                    eprintln!("harness panic: {info}");
                }
            }));
            c17::run(&args[1..])
        }
        Some("c17seeds") => c17::seeds(),
        Some("c19api") => c19api::run(),
        Some("c02keydocs") => c02keydocs(),
        _ => {
            eprintln!("usage: vh-api select|subsets|real|wire|xmatrix");
            std::process::exit(2);
        }
    }
}



/// C02 known answers for key documents (feature ring-compat): a PKCS#8 v1 document and the document ring writes, for seeds
/// with and without the bytes A1 23 03 21 in them, must load and sign like the key made from the seed itself would
/// (public key compared with the one in the document's own tail / derived by the check's reference implementation).
fn c02keydocs() {
    use ruma_signatures::{Ed25519KeyPair, KeyPair};
    let marker = [0xa1u8, 0x23, 0x03, 0x21];
    let mut seeds: Vec<(String, [u8; 32])> = vec![("plain".into(), [7u8; 32])];
    for pos in [0usize, 13, 28] {
        let mut s = [9u8; 32];
        s[pos..pos + 4].copy_from_slice(&marker);
        seeds.push((format!("marker-at-{pos}"), s));
    }
    for (name, seed) in seeds {
        // PKCS#8 v1: 30 2e 02 01 00 30 05 06 03 2b 65 70 04 22 04 20 <seed>
        let mut v1 = vec![0x30, 0x2e, 0x02, 0x01, 0x00, 0x30, 0x05, 0x06, 0x03, 0x2b, 0x65, 0x70, 0x04, 0x22, 0x04, 0x20];
        v1.extend(seed);
        let base = std::panic::catch_unwind(|| Ed25519KeyPair::from_der(&v1, "1".into()).ok().map(|k| k.public_key().to_vec())).unwrap_or(None);
        println!("{}", json!({"kat": format!("key-document/v1/{name}"), "got": base.is_some(), "want": true}));
        let Some(public) = base else { continue };
        // the document ring writes: 30 53 02 01 01 30 05 06 03 2b 65 70 04 22 04 20 <seed> a1 23 03 21 00 <public key>
        let mut ring = vec![0x30, 0x53, 0x02, 0x01, 0x01, 0x30, 0x05, 0x06, 0x03, 0x2b, 0x65, 0x70, 0x04, 0x22, 0x04, 0x20];
        ring.extend(seed);
        ring.extend([0xa1, 0x23, 0x03, 0x21, 0x00]);
        ring.extend(&public);
        let got = std::panic::catch_unwind(|| Ed25519KeyPair::from_der(&ring, "1".into()).ok().map(|k| k.public_key().to_vec())).unwrap_or(None);
        println!("{}", json!({"kat": format!("key-document/ring/{name}"), "got": got.as_deref() == Some(&public[..]), "want": true}));
    }
}

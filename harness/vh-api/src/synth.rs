//! Synthetic endpoints covering every field-attribute kind, real endpoint samples, wire round trips.
use http::header::{AUTHORIZATION, CONTENT_TYPE};
use percent_encoding::percent_decode_str;
use rand::{rngs::StdRng, seq::SliceRandom, Rng, SeedableRng};
use ruma_common::api::{IncomingRequest, IncomingResponse, MatrixVersion, Metadata, OutgoingRequest, OutgoingResponse, SendAccessToken};
use serde_json::{json, Value};

use crate::{cps, guard};

fn put(v: &Value) {
    println!("{}", serde_json::to_string(v).unwrap());
}

pub mod ep_path_query {
    use http::header::CONTENT_LANGUAGE;
    use ruma_common::{api::{request, response, Metadata}, metadata};
    const METADATA: Metadata = metadata! {
        method: POST, rate_limited: false, authentication: AccessToken,
        history: { unstable => "/_x/unstable/a/:first/b/:second", 1.1 => "/_x/v1/a/:first/b/:second", }
    };
    #[request]
    #[derive(PartialEq)]
    pub struct Request {
        #[ruma_api(path)]
        pub first: String,
        #[ruma_api(path)]
        pub second: String,
        #[ruma_api(query)]
        pub q1: String,
        #[ruma_api(query)]
        #[serde(skip_serializing_if = "Option::is_none")]
        pub q2: Option<String>,
        #[ruma_api(query)]
        #[serde(default, skip_serializing_if = "Vec::is_empty")]
        pub many: Vec<String>,
        #[ruma_api(header = CONTENT_LANGUAGE)]
        pub lang: Option<String>,
        pub body_field: String,
        #[serde(skip_serializing_if = "Option::is_none")]
        pub opt_num: Option<u32>,
    }
    #[response]
    #[derive(PartialEq)]
    pub struct Response {
        #[ruma_api(header = CONTENT_LANGUAGE)]
        pub lang: Option<String>,
        pub value: String,
        #[serde(skip_serializing_if = "Option::is_none")]
        pub flag: Option<bool>,
    }
}

pub mod ep_query_all {
    use std::collections::BTreeMap;
    use ruma_common::{api::{request, response, Metadata}, metadata};
    const METADATA: Metadata = metadata! {
        method: GET, rate_limited: false, authentication: None,
        history: { 1.0 => "/_x/r0/q/:id", 1.4 => "/_x/v3/q/:id", }
    };
    #[request]
    #[derive(PartialEq)]
    pub struct Request {
        #[ruma_api(path)]
        pub id: String,
        #[ruma_api(query_all)]
        pub fields: BTreeMap<String, String>,
    }
    #[response]
    #[derive(PartialEq)]
    pub struct Response {}
}

pub mod ep_raw_body {
    use ruma_common::{api::{request, response, Metadata}, metadata};
    const METADATA: Metadata = metadata! {
        method: PUT, rate_limited: false, authentication: AccessTokenOptional,
        history: { unstable => "/_x/unstable/raw/:name", }
    };
    #[request]
    #[derive(PartialEq)]
    pub struct Request {
        #[ruma_api(path)]
        pub name: String,
        #[ruma_api(query)]
        #[serde(skip_serializing_if = "Option::is_none")]
        pub filename: Option<String>,
        #[ruma_api(raw_body)]
        pub file: Vec<u8>,
    }
    #[response]
    #[derive(PartialEq)]
    pub struct Response {
        #[ruma_api(raw_body)]
        pub file: Vec<u8>,
    }
}

pub mod ep_newtype_body {
    use ruma_common::{api::{request, response, Metadata}, metadata};
    #[derive(Clone, Debug, PartialEq, serde::Deserialize, serde::Serialize)]
    pub struct Inner {
        pub a: String,
        #[serde(default, skip_serializing_if = "Vec::is_empty")]
        pub list: Vec<i32>,
    }
    const METADATA: Metadata = metadata! {
        method: POST, rate_limited: false, authentication: AppserviceToken,
        history: { unstable => "/_x/unstable/nt/:k", 1.2 => "/_x/v1/nt/:k", }
    };
    #[request]
    #[derive(PartialEq)]
    pub struct Request {
        #[ruma_api(path)]
        pub k: String,
        #[ruma_api(body)]
        pub inner: Inner,
    }
    #[response]
    #[derive(PartialEq)]
    pub struct Response {
        #[ruma_api(body)]
        pub inner: Inner,
    }
}

const ATOMS: &[&str] = &["a", "/", "%", "?", "#", "+", "&", "=", " ", "é", "😀", "%2F", "..", ".", "", ";", ":", "@", "\"", "\\", "~", "%25", "x y", "a/b/c", "q?x=1&y=2#f"];

fn gen_string(rng: &mut StdRng) -> String {
    let n = rng.gen_range(0..4);
    (0..n).map(|_| *ATOMS.choose(rng).unwrap()).collect()
}

fn template_of(path: &str) -> Value {
    Value::Array(path.split('/').skip(1).map(|s| if s.starts_with(':') { json!(["arg"]) } else { json!(["lit", cps(s)]) }).collect())
}

/// Standard routing: find the path template of the endpoint matching the request path, percent-decode the placeholders.
fn route(meta: &Metadata, path: &str) -> Option<(&'static str, Vec<String>)> {
    let segs: Vec<&str> = path.split('/').collect();
    'next: for t in meta.history.all_paths() {
        let ts: Vec<&str> = t.split('/').collect();
        if ts.len() != segs.len() {
            continue;
        }
        let mut args = vec![];
        for (a, b) in ts.iter().zip(&segs) {
            if a.starts_with(':') {
                match percent_decode_str(b).decode_utf8() {
                    Ok(d) => args.push(d.into_owned()),
                    Err(_) => continue 'next,
                }
            } else if a != b {
                continue 'next;
            }
        }
        return Some((t, args));
    }
    None
}

struct Wire {
    name: &'static str,
    auth: &'static str,
}

fn send_of(name: &str) -> SendAccessToken<'static> {
    match name {
        "IfRequired" => SendAccessToken::IfRequired("tok"),
        "Always" => SendAccessToken::Always("tok"),
        "Appservice" => SendAccessToken::Appservice("tok"),
        _ => SendAccessToken::None,
    }
}

/// value -> http request -> routed -> value -> http request; logs what TLC needs to judge the codec
fn round_trip<R>(w: &Wire, req: R, norm: R, args_expected: Vec<String>, pairs: Vec<(String, String)>, versions: &[MatrixVersion], send: &str, l: u64)
where
    R: OutgoingRequest + IncomingRequest + Clone + PartialEq + std::fmt::Debug,
{
    let meta = <R as OutgoingRequest>::METADATA;
    let r = guard(|| {
        let out = req.clone().try_into_http_request::<Vec<u8>>("https://h.s", send_of(send), versions);
        let http_req = match out {
            Ok(h) => h,
            Err(e) => {
                let needs = format!("{e:?}").contains("NeedsAuthentication");
                return json!({"kind0": "wire", "l": l, "endpoint": w.name, "encode_error": format!("{e:?}"), "auth": w.auth, "send": send,
                              "auth_header": if needs { "error" } else { "encode-error" }});
            }
        };
        let uri = http_req.uri().clone();
        let path = uri.path().to_owned();
        let query = uri.query().unwrap_or("").to_owned();
        let auth_header = match http_req.headers().get(AUTHORIZATION) {
            Some(v) if v.to_str().ok() == Some("Bearer tok") => "header",
            Some(_) => "wrong-header",
            None => "none",
        };
        let method_ok = http_req.method() == meta.method;
        let routed = route(&meta, &path);
        let (template, args) = match &routed {
            Some((t, a)) => (*t, a.clone()),
            None => ("", vec![]),
        };
        let back = <R as IncomingRequest>::try_from_http_request(http_req.clone(), &args);
        let equal = matches!(&back, Ok(b) if *b == req);
        // the same value with optional query fields holding "" replaced by None (what a form decoder reads)
        let equal_mod_empty_optional = matches!(&back, Ok(b) if *b == norm);
        let reencode_identical = match &back {
            Ok(b) => match b.clone().try_into_http_request::<Vec<u8>>("https://h.s", send_of(send), versions) {
                Ok(h2) => h2.uri() == http_req.uri() && h2.method() == http_req.method() && h2.body() == http_req.body() && h2.headers() == http_req.headers(),
                Err(_) => false,
            },
            Err(_) => false,
        };
        json!({"kind0": "wire", "l": l, "endpoint": w.name, "panic": false, "routed": routed.is_some(), "method_ok": method_ok,
               "path": cps(&path), "template": template_of(template), "args": args_expected.iter().map(|a| cps(a)).collect::<Vec<_>>(),
               "query": cps(&query), "pairs": pairs.iter().map(|(k, v)| json!([cps(k), cps(v)])).collect::<Vec<_>>(),
               "equal": equal && routed.is_some() && method_ok, "equal_mod_empty_optional": equal_mod_empty_optional, "reencode_identical": reencode_identical,
               "auth": w.auth, "send": send, "auth_header": auth_header,
               "content_type": http_req.headers().get(CONTENT_TYPE).and_then(|v| v.to_str().ok()).unwrap_or(""),
               "decode_error": back.as_ref().err().map(|e| format!("{e:?}")),
               "back_debug": if equal { String::new() } else { format!("{:?} <- {:?}", back.as_ref().ok(), req) }})
    });
    put(&r.unwrap_or_else(|p| json!({"kind0": "wire", "l": l, "endpoint": w.name, "panic": true, "msg": p, "path": [], "template": [], "args": [], "query": [], "pairs": [],
                                      "equal": false, "reencode_identical": false, "auth": w.auth, "send": send, "auth_header": "panic"})));
}

fn response_round_trip<R>(name: &str, resp: R, l: u64)
where
    R: OutgoingResponse + IncomingResponse + Clone + PartialEq + std::fmt::Debug,
{
    let r = guard(|| {
        let http = resp.clone().try_into_http_response::<Vec<u8>>();
        match http {
            Err(e) => json!({"kind0": "response", "l": l, "endpoint": name, "ok": false, "error": format!("{e:?}")}),
            Ok(h) => {
                let back = <R as IncomingResponse>::try_from_http_response(h.clone());
                let equal = matches!(&back, Ok(b) if *b == resp);
                let again = back.ok().and_then(|b| b.try_into_http_response::<Vec<u8>>().ok());
                let identical = again.map(|a| a.status() == h.status() && a.headers() == h.headers() && a.body() == h.body()).unwrap_or(false);
                json!({"kind0": "response", "l": l, "endpoint": name, "ok": equal && identical, "equal": equal, "identical": identical})
            }
        }
    });
    put(&r.unwrap_or_else(|p| json!({"kind0": "response", "l": l, "endpoint": name, "ok": false, "panic": p})));
}

pub fn wire(args: &[String]) {
    let n: usize = args.iter().position(|a| a == "--n").and_then(|i| args.get(i + 1)).and_then(|s| s.parse().ok()).unwrap_or(300);
    let seed: u64 = std::env::var("VERIF_SEED").ok().and_then(|s| s.parse().ok()).unwrap_or(1);
    let mut rng = StdRng::seed_from_u64(seed ^ 0x1616);
    let sends = ["None", "IfRequired", "Always", "Appservice"];
    let vsets: [&[MatrixVersion]; 4] = [&[MatrixVersion::V1_0], &[MatrixVersion::V1_1], &[MatrixVersion::V1_0, MatrixVersion::V1_14], &[MatrixVersion::V1_5, MatrixVersion::V1_3]];
    let mut l = 0u64;
    for _ in 0..n {
        let send = *sends.choose(&mut rng).unwrap();
        let versions = *vsets.choose(&mut rng).unwrap();
        // 1. path + query + header + body
        {
            let (first, second, q1) = (gen_string(&mut rng), gen_string(&mut rng), gen_string(&mut rng));
            let q2 = if rng.gen_bool(0.5) { Some(gen_string(&mut rng)) } else { None };
            let many: Vec<String> = (0..rng.gen_range(0..3)).map(|_| gen_string(&mut rng)).collect();
            let lang = if rng.gen_bool(0.5) { Some("en-GB".to_owned()) } else { None };
            let mut pairs = vec![("q1".to_owned(), q1.clone())];
            if let Some(q) = &q2 { pairs.push(("q2".to_owned(), q.clone())); }
            for m in &many { pairs.push(("many".to_owned(), m.clone())); }
            let req = ep_path_query::Request { first: first.clone(), second: second.clone(), q1, q2, many, lang, body_field: gen_string(&mut rng), opt_num: if rng.gen_bool(0.5) { Some(rng.gen()) } else { None } };
            let mut norm = req.clone();
            if norm.q2.as_deref() == Some("") { norm.q2 = None; }
            l += 1;
            round_trip(&Wire { name: "synthetic::path_query", auth: "AccessToken" }, req, norm, vec![first, second], pairs, versions, send, l);
            l += 1;
            response_round_trip("synthetic::path_query", ep_path_query::Response { lang: if rng.gen_bool(0.5) { Some("fr".into()) } else { None }, value: gen_string(&mut rng), flag: if rng.gen_bool(0.5) { Some(rng.gen()) } else { None } }, l);
        }
        // 2. query_all
        {
            let id = gen_string(&mut rng);
            let mut fields = std::collections::BTreeMap::new();
            for _ in 0..rng.gen_range(0..3) {
                let k = gen_string(&mut rng);
                if !k.is_empty() { fields.insert(k, gen_string(&mut rng)); }
            }
            let pairs: Vec<(String, String)> = fields.iter().map(|(k, v)| (k.clone(), v.clone())).collect();
            l += 1;
            let req = ep_query_all::Request { id: id.clone(), fields };
            round_trip(&Wire { name: "synthetic::query_all", auth: "None" }, req.clone(), req, vec![id], pairs, versions, send, l);
        }
        // 3. raw body
        {
            let name = gen_string(&mut rng);
            let filename = if rng.gen_bool(0.5) { Some(gen_string(&mut rng)) } else { None };
            let pairs: Vec<(String, String)> = filename.iter().map(|f| ("filename".to_owned(), f.clone())).collect();
            let file: Vec<u8> = (0..rng.gen_range(0..6)).map(|_| rng.gen()).collect();
            l += 1;
            let req = ep_raw_body::Request { name: name.clone(), filename, file: file.clone() };
            let mut norm = req.clone();
            if norm.filename.as_deref() == Some("") { norm.filename = None; }
            round_trip(&Wire { name: "synthetic::raw_body", auth: "AccessTokenOptional" }, req, norm, vec![name], pairs, versions, send, l);
            l += 1;
            response_round_trip("synthetic::raw_body", ep_raw_body::Response { file }, l);
        }
        // 4. newtype body
        {
            let k = gen_string(&mut rng);
            let inner = ep_newtype_body::Inner { a: gen_string(&mut rng), list: (0..rng.gen_range(0..3)).map(|_| rng.gen()).collect() };
            l += 1;
            let req = ep_newtype_body::Request { k: k.clone(), inner: inner.clone() };
            round_trip(&Wire { name: "synthetic::newtype_body", auth: "AppserviceToken" }, req.clone(), req, vec![k], vec![], versions, send, l);
            l += 1;
            response_round_trip("synthetic::newtype_body", ep_newtype_body::Response { inner }, l);
        }
    }
}

pub fn xmatrix() {
    use ruma_common::{serde::Base64, OwnedServerName, OwnedServerSigningKeyId};
    use ruma_federation_api::authentication::XMatrix;
    let origins = ["s.co", "s.co:8448", "[::1]:80", "1.2.3.4", "a-b.c"];
    let keys = ["ed25519:1", "ed25519:a_b", "ed25519:KEY09"];
    let sigs: [&[u8]; 4] = [b"", b"\x00\x01\x02", b"signature-bytes-with+/=", &[255u8; 64]];
    for o in origins {
        for d in origins {
            for k in keys {
                for s in sigs {
                    let r = guard(|| {
                        let x = XMatrix::new(OwnedServerName::try_from(o).unwrap(), OwnedServerName::try_from(d).unwrap(), OwnedServerSigningKeyId::try_from(k).unwrap(), Base64::new(s.to_vec()));
                        let text = x.to_string();
                        let back = XMatrix::parse(&text);
                        let ok = matches!(&back, Ok(b) if b.origin == x.origin && b.destination == x.destination && b.key == x.key && b.sig.as_bytes() == x.sig.as_bytes());
                        let again = back.ok().map(|b| b.to_string() == text).unwrap_or(false);
                        json!({"kind0": "xmatrix", "text": text, "ok": ok && again})
                    });
                    put(&r.unwrap_or_else(|p| json!({"kind0": "xmatrix", "ok": false, "panic": p})));
                }
            }
        }
    }
}


/// Header and body helpers that the endpoints share: Content-Disposition with every file name over a reserved-character
/// alphabet must survive format -> parse -> format, and a filter in which a single field differs from the default must survive
/// both as a JSON body and as the `filter` query parameter of a real endpoint.
pub fn shared() {
    use ruma_common::http_headers::{ContentDisposition, ContentDispositionType};
    let alpha = ["a", " ", "\"", "\\", "'", ";", "%", "\u{e9}", "\u{20ac}", "*", "=", "/", ".", "\u{5b57}", "(", ","];
    let mut names: Vec<String> = vec!["report.pdf".into(), "l'\u{e9}t\u{e9}.png".into(), "a b;c=d.txt".into(), "100%.txt".into(), "\u{5b57}'\"x\".txt".into()];
    for x in alpha {
        names.push(x.to_string());
        for y in alpha {
            names.push(format!("{x}{y}"));
            names.push(format!("f{x}{y}.txt"));
        }
    }
    for ty in [ContentDispositionType::Inline, ContentDispositionType::Attachment] {
        for n in &names {
            let r = guard(|| {
                let cd = ContentDisposition::new(ty.clone()).with_filename(Some(n.clone()));
                let text = cd.to_string();
                let back = text.parse::<ContentDisposition>();
                let ok = matches!(&back, Ok(b) if b.disposition_type == cd.disposition_type && b.filename == cd.filename);
                let again = back.ok().map(|b| b.to_string() == text).unwrap_or(false);
                json!({"kind0": "shared", "what": "content-disposition", "value": n, "text": text, "ok": ok && again})
            });
            put(&r.unwrap_or_else(|p| json!({"kind0": "shared", "what": "content-disposition", "value": n, "ok": false, "panic": p})));
        }
    }
    // error bodies: every kind that carries fields must come back equal from its own serialization
    {
        use ruma_client_api::error::{ErrorKind, StandardErrorBody};
        let kinds: Vec<(&str, ErrorKind)> = vec![
            ("WrongRoomKeysVersion", ErrorKind::WrongRoomKeysVersion { current_version: Some("42".to_owned()) }),
            ("BadStatus", ErrorKind::BadStatus { status: Some(http::StatusCode::BAD_GATEWAY), body: Some("upstream".to_owned()) }),
            ("BadStatus-empty", ErrorKind::BadStatus { status: None, body: None }),
            ("UnknownToken", ErrorKind::UnknownToken { soft_logout: true }),
            ("IncompatibleRoomVersion", ErrorKind::IncompatibleRoomVersion { room_version: ruma_common::RoomVersionId::V9 }),
            ("ResourceLimitExceeded", ErrorKind::ResourceLimitExceeded { admin_contact: "mailto:a@b".to_owned() }),
            ("LimitExceeded-ms", ErrorKind::LimitExceeded { retry_after: Some(ruma_client_api::error::RetryAfter::Delay(std::time::Duration::from_millis(2000))) }),
            ("NotFound", ErrorKind::NotFound),
        ];
        for (name, kind) in kinds {
            let r = guard(|| {
                let body = StandardErrorBody { kind: kind.clone(), message: "msg".to_owned() };
                let text = serde_json::to_string(&body).unwrap();
                let back: Result<StandardErrorBody, _> = serde_json::from_str(&text);
                let ok = matches!(&back, Ok(b) if b.kind == kind && b.message == "msg");
                json!({"kind0": "shared", "what": format!("error-body-{name}"), "text": text, "ok": ok})
            });
            put(&r.unwrap_or_else(|p| json!({"kind0": "shared", "what": format!("error-body-{name}"), "ok": false, "panic": p})));
        }
    }
    // a raw-body endpoint with an optional Content-Type header field: absent stays absent, every accepted value survives
    {
        use ruma_client_api::media::create_content::v3::Request as Upload;
        for (name, ct) in [("absent", None), ("ascii", Some("image/png")), ("parameter", Some("text/plain; charset=utf-8")), ("non-ascii", Some("text/plain; title=\u{e9}"))] {
            let r = guard(|| {
                let mut req = Upload::new(vec![1, 2, 3]);
                req.content_type = ct.map(|c| c.to_owned());
                req.filename = Some("f.bin".to_owned());
                match req.clone().try_into_http_request::<Vec<u8>>("https://h.s", SendAccessToken::IfRequired("tok"), &[MatrixVersion::V1_11]) {
                    // a value the encoder refuses is not in the scope of the round trip
                    Err(e) => json!({"kind0": "shared", "what": format!("raw-body-content-type-{name}"), "ok": true, "refused": e.to_string()}),
                    Ok(http) => {
                        let back = Upload::try_from_http_request(http, &[] as &[String]);
                        let ok = matches!(&back, Ok(b) if b.content_type == req.content_type && b.file == req.file && b.filename == req.filename);
                        json!({"kind0": "shared", "what": format!("raw-body-content-type-{name}"), "ok": ok, "back": format!("{:?}", back.map(|b| b.content_type))})
                    }
                }
            });
            put(&r.unwrap_or_else(|p| json!({"kind0": "shared", "what": format!("raw-body-content-type-{name}"), "ok": false, "panic": p})));
        }
    }
    // filters: every field alone
    use ruma_client_api::filter::{FilterDefinition, RoomEventFilter};
    let full = json!({"limit": 5, "not_senders": ["@a:s.co"], "not_types": ["m.x"], "senders": ["@b:s.co"], "types": ["m.y"], "not_rooms": ["!a:s.co"], "rooms": ["!b:s.co"],
                      "contains_url": true, "lazy_load_members": true, "include_redundant_members": true, "unread_thread_notifications": true});
    for (k, v) in full.as_object().unwrap() {
        let mut single = serde_json::Map::new();
        single.insert(k.clone(), v.clone());
        if k == "include_redundant_members" {
            single.insert("lazy_load_members".into(), json!(true));
        }
        let single = Value::Object(single);
        let r = guard(|| {
            // as a JSON body inside a filter definition
            let fd: FilterDefinition = serde_json::from_value(json!({"room": {"timeline": single.clone(), "state": single.clone()}})).unwrap();
            let body = serde_json::to_value(&fd).unwrap();
            let body_ok = body["room"]["timeline"] == single && body["room"]["state"] == single;
            // as the `filter` query parameter of GET /rooms/{roomId}/messages
            let f: RoomEventFilter = serde_json::from_value(single.clone()).unwrap();
            let mut req = ruma_client_api::message::get_message_events::v3::Request::backward(ruma_common::OwnedRoomId::try_from("!r:s.co").unwrap());
            req.filter = f.clone();
            let http: http::Request<Vec<u8>> = req.try_into_http_request("https://h.s", SendAccessToken::IfRequired("tok"), &[MatrixVersion::V1_11]).unwrap();
            let query = http.uri().query().unwrap_or("").to_owned();
            let back = ruma_client_api::message::get_message_events::v3::Request::try_from_http_request(http, &["!r:s.co"]).unwrap();
            let query_ok = serde_json::to_value(&back.filter).unwrap() == single;
            json!({"kind0": "shared", "what": format!("filter-field-{k}"), "value": single, "text": query, "ok": body_ok && query_ok, "body": body})
        });
        put(&r.unwrap_or_else(|p| json!({"kind0": "shared", "what": format!("filter-field-{k}"), "ok": false, "panic": p})));
    }
}

//! A plain PDU implementing ruma_state_res::Event, and helpers shared by C06-C09, C20.
use std::collections::HashMap;

use js_int::UInt;
use ruma_common::{
    MilliSecondsSinceUnixEpoch, OwnedEventId, OwnedRoomId, OwnedUserId, RoomId, UserId,
};
use ruma_events::TimelineEventType;
use ruma_signatures::Ed25519KeyPair;
use ruma_state_res::Event;
use serde_json::value::RawValue as RawJsonValue;
use serde_json::{json, Value};

#[derive(Clone, Debug)]
pub struct Pdu {
    pub event_id: OwnedEventId,
    pub room_id: OwnedRoomId,
    pub sender: OwnedUserId,
    pub ts: u64,
    pub ty: TimelineEventType,
    pub content: Box<RawJsonValue>,
    pub state_key: Option<String>,
    pub prev: Vec<OwnedEventId>,
    pub auth: Vec<OwnedEventId>,
    pub redacts: Option<OwnedEventId>,
}

impl Event for Pdu {
    type Id = OwnedEventId;
    fn event_id(&self) -> &Self::Id {
        &self.event_id
    }
    fn room_id(&self) -> &RoomId {
        &self.room_id
    }
    fn sender(&self) -> &UserId {
        &self.sender
    }
    fn origin_server_ts(&self) -> MilliSecondsSinceUnixEpoch {
        MilliSecondsSinceUnixEpoch(UInt::try_from(self.ts).unwrap())
    }
    fn event_type(&self) -> &TimelineEventType {
        &self.ty
    }
    fn content(&self) -> &RawJsonValue {
        &self.content
    }
    fn state_key(&self) -> Option<&str> {
        self.state_key.as_deref()
    }
    fn prev_events(&self) -> Box<dyn DoubleEndedIterator<Item = &Self::Id> + '_> {
        Box::new(self.prev.iter())
    }
    fn auth_events(&self) -> Box<dyn DoubleEndedIterator<Item = &Self::Id> + '_> {
        Box::new(self.auth.iter())
    }
    fn redacts(&self) -> Option<&Self::Id> {
        self.redacts.as_ref()
    }
}

/// PKCS#8 v1 document of an Ed25519 key with the given 32-byte seed.
pub fn pkcs8(seed: u8) -> Vec<u8> {
    let mut der = vec![0x30, 0x2e, 0x02, 0x01, 0x00, 0x30, 0x05, 0x06, 0x03, 0x2b, 0x65, 0x70, 0x04, 0x22, 0x04, 0x20];
    der.extend(std::iter::repeat(seed).take(32));
    der
}

pub fn keypair(seed: u8, version: &str) -> Ed25519KeyPair {
    Ed25519KeyPair::from_der(&pkcs8(seed), version.to_owned()).expect("pkcs8 key")
}

pub fn b64(bytes: &[u8]) -> String {
    use base64::Engine;
    base64::engine::general_purpose::STANDARD_NO_PAD.encode(bytes)
}

fn alnum(id: &str) -> String {
    id.chars().filter(|c| c.is_ascii_alphanumeric()).collect()
}

/// Abstract event id of the model ("$m@a:s1") -> event id; the model's `idserver` is the domain.
pub fn eid(id: &str, server: &str) -> OwnedEventId {
    OwnedEventId::try_from(format!("${}:{}", alnum(id), server)).expect("event id")
}

/// Level value of the compact projection: 50 | {"s":50} | {"bad":true}
fn level(v: &Value) -> Value {
    if let Some(n) = v.as_i64() {
        json!(n)
    } else if let Some(s) = v.get("s") {
        json!(s.as_i64().unwrap().to_string())
    } else {
        // a value that is neither an integer nor a string that is an integer; the caller chooses the spelling
        bad_spellings()[BAD_SPELLING.load(std::sync::atomic::Ordering::Relaxed) % bad_spellings().len()].clone()
    }
}

/// Which spelling `level` uses for a value that is not an integer (index into `bad_spellings`).
pub static BAD_SPELLING: std::sync::atomic::AtomicUsize = std::sync::atomic::AtomicUsize::new(0);

pub fn bad_spellings() -> Vec<Value> {
    vec![json!([1]), json!("++5"), json!("abc"), json!("5.0"), json!(""), json!("0x10"), json!("1e2"), json!(true), json!("+-5"), json!({"n": 1})]
}

fn level_map(m: &Value) -> Value {
    let mut o = serde_json::Map::new();
    if let Some(obj) = m.as_object() {
        for (k, v) in obj {
            o.insert(k.clone(), level(v));
        }
    }
    Value::Object(o)
}

/// Builds the JSON content of a model event (compact projection `c`) for room version `v`.
pub fn content_of(ty: &str, c: &Value, v: u64) -> Value {
    match ty {
        "m.room.create" => {
            let mut o = json!({"room_version": v.to_string(), "m.federate": c["federate"].as_bool().unwrap()});
            if c["hascreator"].as_bool().unwrap() {
                o["creator"] = c["creator"].clone();
            }
            o
        }
        "m.room.member" => {
            let mut o = json!({});
            let m = c["membership"].as_str().unwrap();
            if m != "absent" {
                o["membership"] = json!(m);
            }
            let ja = c["jauth"].as_str().unwrap();
            if !ja.is_empty() {
                o["join_authorised_via_users_server"] = json!(ja);
            }
            let t = &c["tpi"];
            if t["present"].as_bool().unwrap() {
                let mut tp = json!({"display_name": "x"});
                if t["signed"].as_bool().unwrap() {
                    let mut signed = ruma_common::CanonicalJsonObject::new();
                    if t["hasmxid"].as_bool().unwrap() {
                        signed.insert("mxid".into(), t["mxid"].as_str().unwrap().to_owned().into());
                    }
                    if t["hastoken"].as_bool().unwrap() {
                        signed.insert("token".into(), t["token"].as_str().unwrap().to_owned().into());
                    }
                    // signed by one of the identity server's keys k7, k8, k9; which of them the m.room.third_party_invite
                    // event names (top-level public_key, public_keys list) is part of the case
                    let kp = keypair(tpi_key_seed(t["sigkey"].as_str().unwrap_or("k9")), "0");
                    ruma_signatures::sign_json("id.example", &kp, &mut signed).expect("sign");
                    tp["signed"] = serde_json::to_value(&signed).unwrap();
                }
                o["third_party_invite"] = tp;
            }
            o
        }
        "m.room.join_rules" => {
            let jr = c["join_rule"].as_str().unwrap();
            if jr == "absent" {
                json!({})
            } else {
                json!({"join_rule": jr})
            }
        }
        "m.room.power_levels" => {
            let p = &c["pl"];
            let mut o = json!({});
            for f in ["users_default", "events_default", "state_default", "ban", "redact", "kick", "invite"] {
                if let Some(x) = p.get(f) {
                    o[f] = level(x);
                }
            }
            o["users"] = level_map(&p["users"]);
            o["events"] = level_map(&p["events"]);
            o["notifications"] = level_map(&p["notifications"]);
            if !p["userkeysvalid"].as_bool().unwrap() {
                o["users"]["not-a-user-id"] = json!(1);
            }
            o
        }
        "m.room.third_party_invite" => {
            let pk = |name: &str| b64(&keypair(tpi_key_seed(name), "0").public_key());
            let top = c.get("tpikeys").and_then(|k| k["top"].as_str()).unwrap_or("k8");
            let list: Vec<&str> = match c.get("tpikeys") {
                Some(k) => k["list"].as_array().unwrap().iter().map(|x| x.as_str().unwrap()).collect(),
                None => vec!["k7"],
            };
            let mut o = json!({"display_name": "x", "key_validity_url": "https://id.example/valid", "public_key": pk(top)});
            if !list.is_empty() {
                o["public_keys"] = list.iter().map(|n| json!({"public_key": pk(n), "key_validity_url": "https://id.example/valid"})).collect();
            }
            o
        }
        _ => json!({}),
    }
}

fn tpi_key_seed(name: &str) -> u8 {
    match name { "k7" => 7, "k8" => 8, _ => 9 }
}

/// Builds a Pdu from the compact projection of a model event.
pub fn pdu_of(x: &Value, v: u64, ids: &HashMap<String, OwnedEventId>) -> Pdu {
    let ty = x["type"].as_str().unwrap();
    let c = &x["c"];
    let refid = |s: &str| ids.get(s).cloned().unwrap_or_else(|| eid(s, "s1"));
    let content = content_of(ty, c, v);
    Pdu {
        event_id: refid(x["id"].as_str().unwrap()),
        room_id: OwnedRoomId::try_from(format!("!r:{}", x["roomserver"].as_str().unwrap())).unwrap(),
        sender: OwnedUserId::try_from(x["sender"].as_str().unwrap()).expect("sender"),
        ts: x.get("ts").and_then(|t| t.as_u64()).unwrap_or(1),
        ty: TimelineEventType::from(ty),
        content: serde_json::value::to_raw_value(&content).unwrap(),
        state_key: if x["haskey"].as_bool().unwrap() { Some(x["key"].as_str().unwrap().to_owned()) } else { None },
        prev: x["prev"].as_array().map(|a| a.iter().map(|s| refid(s.as_str().unwrap())).collect()).unwrap_or_default(),
        auth: x["auth"].as_array().map(|a| a.iter().map(|s| refid(s.as_str().unwrap())).collect()).unwrap_or_default(),
        redacts: if ty == "m.room.redaction" {
            Some(eid("$redacted", c["redactsserver"].as_str().unwrap_or("s1")))
        } else {
            None
        },
    }
}

pub fn id_map(events: &[&Value]) -> HashMap<String, OwnedEventId> {
    let mut m = HashMap::new();
    for x in events {
        let id = x["id"].as_str().unwrap();
        m.insert(id.to_owned(), eid(id, x["idserver"].as_str().unwrap_or("s1")));
    }
    m
}

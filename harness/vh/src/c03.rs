//! C03 event signatures across redaction / required signers, C05 content & reference hashes.
use std::collections::BTreeMap;

use ruma_common::{
    canonical_json::redact, room_version_rules::RoomVersionRules, serde::Base64, CanonicalJsonObject, CanonicalJsonValue,
    RoomVersionId,
};
use ruma_signatures::{content_hash, hash_and_sign_event, reference_hash, verify_event, PublicKeyMap, PublicKeySet, Verified};
use serde_json::{json, Value};

use crate::pdu::keypair;
use crate::util::*;

fn rules(v: u64) -> RoomVersionRules {
    RoomVersionId::try_from(v.to_string().as_str()).unwrap().rules().unwrap()
}

fn seed(server: &str) -> u8 {
    match server {
        "a.example" => 21,
        "b.example:8448" => 22,
        _ => 23,
    }
}

fn shape_type(shape: &str) -> &'static str {
    match shape {
        "join" | "invite" | "invite3p" | "rjoin" | "join3p" | "leave3ps" | "ban3pe" | "leavej" => "m.room.member",
        "create" => "m.room.create",
        "pl" => "m.room.power_levels",
        "jr" => "m.room.join_rules",
        "aliases" => "m.room.aliases",
        "redaction" => "m.room.redaction",
        "hv" => "m.room.history_visibility",
        _ => "m.room.message",
    }
}

fn top_val(key: &str, bit: u64, shape: &str) -> Value {
    match key {
        "type" => json!(shape_type(shape)),
        "room_id" => json!(format!("!r{bit}:a.example")),
        "sender" => json!("@u:a.example"),
        "event_id" => json!("$ev:b.example:8448"),
        "state_key" => json!(if bit == 0 { "@t:a.example" } else { "@t2:a.example" }),
        "depth" => json!(3 + bit),
        "origin_server_ts" => json!(100 + bit),
        "prev_events" | "auth_events" | "prev_state" => json!([format!("$p{bit}:a.example")]),
        "origin" => json!(format!("a{bit}.example")),
        "unsigned" => json!({"age": 1 + bit, "x": {"y": [bit]}}),
        "membership" => json!(format!("legacy{bit}")),
        "redacts" => json!(format!("$red{bit}:a.example")),
        _ => json!({"k": key, "bit": bit}),
    }
}

fn content_val(key: &str, bit: u64, shape: &str) -> Value {
    match key {
        "membership" => json!(match shape { "join" | "rjoin" | "join3p" => "join", "leave3ps" | "leavej" => "leave", "ban3pe" => "ban", _ => "invite" }),
        "join_authorised_via_users_server" => json!("@auth:c.example"),
        "redacts" => json!(format!("$cred{bit}:a.example")),
        "users" | "events" | "notifications" => json!({"@u:a.example": 50 + bit}),
        "ban" | "kick" | "invite" => json!(50 + bit),
        "aliases" | "allow" => json!([format!("#x{bit}:a.example")]),
        _ => json!(format!("{key}-{bit}")),
    }
}

fn tpi_val(key: &str, bit: u64) -> Value {
    match key {
        "signed" => json!({"mxid": "@t:a.example", "token": format!("tok{bit}"), "signatures": {}}),
        _ => json!(format!("{key}-{bit}")),
    }
}

fn cj(v: Value) -> CanonicalJsonValue {
    CanonicalJsonValue::try_from(v).unwrap()
}

pub fn build(c: &Value) -> CanonicalJsonObject {
    let shape = c["shape"].as_str().unwrap();
    let mut ev = CanonicalJsonObject::new();
    for k in strs(&c["top"]) {
        ev.insert(k.clone(), cj(top_val(&k, 0, shape)));
    }
    let mut content = CanonicalJsonObject::new();
    for k in strs(&c["content"]) {
        if k == "third_party_invite" {
            let mut t = serde_json::Map::new();
            for tk in strs(&c["tpi"]) {
                t.insert(tk.clone(), tpi_val(&tk, 0));
            }
            content.insert(k, cj(Value::Object(t)));
        } else {
            content.insert(k.clone(), cj(content_val(&k, 0, shape)));
        }
    }
    ev.insert("content".into(), CanonicalJsonValue::Object(content));
    ev
}

fn restrict(obj: &CanonicalJsonObject, keys: &[String]) -> serde_json::Map<String, Value> {
    let mut m = serde_json::Map::new();
    for (k, v) in obj {
        if keys.contains(k) {
            m.insert(k.clone(), serde_json::to_value(v).unwrap());
        }
    }
    m
}

fn key_map() -> PublicKeyMap {
    let mut map: PublicKeyMap = BTreeMap::new();
    for s in ["a.example", "b.example:8448", "c.example"] {
        let mut set: PublicKeySet = BTreeMap::new();
        set.insert("ed25519:1".into(), Base64::new(keypair(seed(s), "1").public_key().to_vec()));
        map.insert(s.to_owned(), set);
    }
    map
}

fn run_case(c: &Value) -> Value {
    let v = c["v"].as_u64().unwrap();
    let shape = c["shape"].as_str().unwrap();
    let r = rules(v);
    let mut ev = build(c);
    if c["step"][0] == "prehash" {
        // the event was hashed before and then edited: a stale content hash is present when it is signed
        ev.insert("hashes".into(), cj(json!({"sha256": "c3RhbGUgaGFzaCBvZiBhbiBlYXJsaWVyIHZlcnNpb24gISE", "md5": "kept"})));
    }
    let mut signers = strs(&c["signers"]);
    signers.sort();
    let mut sign_err = false;
    for s in &signers {
        if hash_and_sign_event(s, &keypair(seed(s), "1"), &mut ev, &r.redaction).is_err() {
            sign_err = true;
        }
    }
    let signed = ev.clone();
    // ---- C05 observations on the signed, unmutated event
    let ch = content_hash(&signed).ok().map(|h| h.encode());
    let rh = reference_hash(&signed, &r).ok();
    let stored = signed.get("hashes").and_then(|h| h.as_object()).and_then(|h| h.get("sha256")).and_then(|s| s.as_str()).map(|s| s.to_owned());
    let mut chpre = restrict(&signed, &strs(&c["chtop"]));
    if let Some(content) = signed.get("content") {
        chpre.insert("content".into(), serde_json::to_value(content).unwrap());
    }
    let mut rhpre = restrict(&signed, &strs(&c["rhtop"]));
    if let Some(CanonicalJsonValue::Object(content)) = signed.get("content") {
        let mut cm = restrict(content, &strs(&c["rhcontent"]));
        if let (Some(Value::Object(t)), "obj") = (cm.get("third_party_invite").cloned(), c["rhtpikind"].as_str().unwrap()) {
            let keep = strs(&c["rhtpi"]);
            let t2: serde_json::Map<String, Value> = t.into_iter().filter(|(k, _)| keep.contains(k)).collect();
            cm.insert("third_party_invite".into(), Value::Object(t2));
        }
        rhpre.insert("content".into(), Value::Object(cm));
    }
    // reference hash of the redacted copy and with a different `unsigned` / extra signature: must not change
    let red = redact(signed.clone(), &r.redaction, None).ok();
    let rh_redacted = red.as_ref().and_then(|x| reference_hash(x, &r).ok());
    let mut other_unsigned = signed.clone();
    other_unsigned.insert("unsigned".into(), cj(json!({"age": 99, "redacted_because": {"type": "m.room.redaction"}})));
    let rh_unsigned = reference_hash(&other_unsigned, &r).ok();
    let ch_unsigned = content_hash(&other_unsigned).ok().map(|h| h.encode());
    // the same event carrying `hashes` but neither `signatures` nor `unsigned` (an event re-hashed before it is signed)
    let mut bare = signed.clone();
    bare.remove("signatures");
    bare.remove("unsigned");
    if !bare.contains_key("hashes") {
        bare.insert("hashes".into(), cj(json!({"sha256": "c3RhbGUgaGFzaCBvZiBhbiBlYXJsaWVyIHZlcnNpb24gISE"})));
    }
    let rh_bare = reference_hash(&bare, &r).ok();
    let ch_bare = content_hash(&bare).ok().map(|h| h.encode());
    // ---- the step
    let step = c["step"][0].as_str().unwrap();
    let arg = c["step"][1].as_str().unwrap();
    match step {
        "redact" => {
            if let Some(x) = red.clone() {
                ev = x;
            }
        }
        "unsigned" => {
            ev.insert("unsigned".into(), cj(top_val("unsigned", 1, shape)));
        }
        "top" => {
            if arg == "hashes" {
                ev.insert("hashes".into(), cj(json!({"sha256": "AAAAAAAAAAAAAAAAAAAAAAAAAAAAAAAAAAAAAAAAAAA"})));
            } else {
                ev.insert(arg.to_owned(), cj(top_val(arg, 1, shape)));
            }
        }
        "content" => {
            if let Some(CanonicalJsonValue::Object(cn)) = ev.get_mut("content") {
                cn.insert(arg.to_owned(), cj(content_val(arg, 1, shape)));
            }
        }
        "tpi" => {
            if let Some(CanonicalJsonValue::Object(cn)) = ev.get_mut("content") {
                if let Some(CanonicalJsonValue::Object(t)) = cn.get_mut("third_party_invite") {
                    t.insert(arg.to_owned(), cj(tpi_val(arg, 1)));
                }
            }
        }
        "dropsig" => {
            if let Some(CanonicalJsonValue::Object(sg)) = ev.get_mut("signatures") {
                sg.remove(arg);
            }
        }
        _ => {}
    }
    let res = match verify_event(&key_map(), &ev, &r) {
        Ok(Verified::All) => "all",
        Ok(Verified::Signatures) => "signatures",
        Err(_) => "err",
    };
    json!({
        "verify": res, "sign_err": sign_err,
        "content_hash": ch, "stored_hash": stored, "reference_hash": rh,
        "chpre": serde_json::to_string(&Value::Object(chpre)).unwrap(),
        "rhpre": serde_json::to_string(&Value::Object(rhpre)).unwrap(),
        "rh_redacted": rh_redacted, "rh_unsigned": rh_unsigned, "ch_unsigned": ch_unsigned, "ch_bare": ch_bare, "rh_bare": rh_bare,
    })
}

pub fn replay(_args: &[String]) {
    let mut out = Out::new();
    for_each_case(|i, c| {
        let mut o = match guard(|| run_case(&c)) {
            Ok(o) => o,
            Err(p) => json!({"panic": p}),
        };
        o["i"] = json!(i);
        out.put(&o);
    });
}

/// C05 size boundary: pads one key so that a pre-image has exactly the requested number of bytes.
pub fn size(_args: &[String]) {
    let mut out = Out::new();
    for v in [1u64, 3, 4, 9, 11] {
        let r = rules(v);
        // "bare" shapes contain nothing redaction strips and no unsigned/signatures: whole event = both pre-images
        for (shape, padkey, kept) in [("message", "body", false), ("join", "displayname", false), ("join", "state_key", true), ("create", "creator", true),
                                      ("barejoin", "state_key", true), ("barecreate", "creator", true)] {
            for padchar in ["a", "é", "\u{1F600}"] {
                for which in ["content", "reference"] {
                    for target in [65533usize, 65534, 65535, 65536, 65537, 65539] {
                        let bare = shape.starts_with("bare");
                        let shape = shape.trim_start_matches("bare");
                        let base = json!({"shape": shape, "top": ["type", "room_id", "sender", "depth", "prev_events", "auth_events", "origin_server_ts", "state_key"],
                                          "content": if shape == "message" { json!(["body", "msgtype"]) } else if shape == "create" { if bare { json!(["creator"]) } else { json!(["creator", "room_version"]) } }
                                                     else if bare { json!(["membership"]) } else { json!(["membership", "displayname"]) },
                                          "tpi": []});
                        let o = guard(|| {
                            let set_pad = |ev: &mut CanonicalJsonObject, n: usize| {
                                let s: String = padchar.repeat(n);
                                if padkey == "state_key" {
                                    ev.insert("state_key".into(), cj(json!(s)));
                                } else if let Some(CanonicalJsonValue::Object(cn)) = ev.get_mut("content") {
                                    cn.insert(padkey.to_owned(), cj(json!(s)));
                                }
                            };
                            let len_of = |ev: &CanonicalJsonObject| -> (usize, usize, usize) {
                                let mut c = ev.clone();
                                for k in ["hashes", "signatures", "unsigned"] { c.remove(k); }
                                let lc = serde_json::to_string(&c).unwrap().len();
                                let mut rr = redact(ev.clone(), &r.redaction, None).unwrap();
                                for k in ["signatures", "unsigned"] { rr.remove(k); }
                                let lr = serde_json::to_string(&rr).unwrap().len();
                                (lc, lr, serde_json::to_string(ev).unwrap().len())
                            };
                            let mut ev = build(&base);
                            if !bare {
                                ev.insert("unsigned".into(), cj(json!({"age": 1})));
                            }
                            set_pad(&mut ev, 0);
                            let (c0, r0, _) = len_of(&ev);
                            let base_len = if which == "content" { c0 } else { r0 };
                            if target < base_len { return json!({"skip": "base too long"}); }
                            let n = (target - base_len) / padchar.len();
                            set_pad(&mut ev, n);
                            let (lc, lr, lw) = len_of(&ev);
                            if which == "reference" && lr == r0 { return json!({"skip": "padding is stripped by redaction"}); }
                            let ch = content_hash(&ev).is_ok();
                            let rh = reference_hash(&ev, &r).is_ok();
                            let mut ev2 = ev.clone();
                            let hs = hash_and_sign_event("a.example", &keypair(seed("a.example"), "1"), &mut ev2, &r.redaction).is_ok();
                            json!({"v": v, "shape": shape, "bare": bare, "padkey": padkey, "kept": kept, "padchar_bytes": padchar.len(), "which": which, "target": target,
                                   "content_pre_len": lc, "reference_pre_len": lr, "whole_len": lw,
                                   "content_hash_ok": ch, "reference_hash_ok": rh, "hash_and_sign_ok": hs})
                        });
                        out.put(&o.unwrap_or_else(|p| json!({"panic": p})));
                    }
                }
            }
        }
    }
}

//! verif harness: drives the real ruma API with cases emitted by TLC (spec -> impl replay) and
//! records executions of the real API for validation by TLC (impl -> spec).
mod c01;
mod c02;
mod c03;
mod c04;
mod c07;
mod c08;
mod c10;
mod c11;
mod c12;
mod pdu;
mod c13;
mod c14;
mod c18;
mod c19;
mod c20;
mod fed;
mod util;

fn main() {
    let args: Vec<String> = std::env::args().skip(1).collect();
    if args.len() < 2 {
        eprintln!("usage: vh <replay|record> <id> [options]");
        std::process::exit(2);
    }
    util::quiet_panics();
    let rest = &args[2..];
    match (args[0].as_str(), args[1].to_ascii_lowercase().as_str()) {
        ("replay", "c01") => c01::replay(rest),
        ("record", "c01") => c01::record(rest),
        ("replay", "c02") => c02::replay(rest),
        ("kat", "c02") => c02::kat(rest),
        ("replay", "c03") => c03::replay(rest),
        ("size", "c05") => c03::size(rest),
        ("replay", "c04") => c04::replay(rest),
        ("record", "c04") => c04::record(rest),
        ("replay", "c07") => c07::replay(rest),
        ("topo", "c07") => c07::topo(rest),
        ("probes", "c07") => c07::probes(rest),
        ("replay", "c08") => c08::replay(rest),
        ("replay", "c20") => c20::replay(rest),
        ("replay", "c10") => c10::replay(rest),
        ("record", "c10") => c10::record(rest),
        ("ctors", "c10") => c10::ctors(rest),
        ("replay", "c11") => c11::replay(rest),
        ("mutants", "c11") => c11::mutants(rest),
        ("replay", "c12") => c12::replay(rest),
        ("record", "c12") => c12::record(rest),
        ("record", "c14") => c14::run(rest),
        ("record", "c19") => c19::run(rest),
        ("record", "c18") => c18::run(rest),
        ("replay", "c13") => c13::replay(rest),
        ("replay", "fed") => fed::replay(rest),
        ("record", "c13") => c13::record(rest),
        (m, id) => {
            eprintln!("unknown mode/id {m} {id}");
            std::process::exit(2);
        }
    }
}

//! C06 / C07 state resolution: replays every merge emitted by the Room model through
//! ruma_state_res::resolve, capturing the intermediate lists it already emits through `tracing`.
use std::cell::RefCell;
use std::collections::{HashMap, HashSet};
use std::sync::atomic::{AtomicU64, Ordering};
use std::sync::{Arc, Mutex};

use rand::{seq::SliceRandom, SeedableRng};
use ruma_common::OwnedEventId;
use ruma_events::StateEventType;
use ruma_state_res::{resolve, StateMap};
use serde_json::{json, Value};
use tracing::field::{Field, Visit};

use crate::c08::auth_rules;
use crate::pdu::*;
use crate::util::*;

// ---- a minimal tracing subscriber that keeps (message, list/set/map debug text) of every event
#[derive(Default)]
struct Capture {
    events: Mutex<Vec<(String, String)>>,
    next: AtomicU64,
}
struct V<'a>(&'a mut String, &'a mut String);
impl Visit for V<'_> {
    fn record_debug(&mut self, field: &Field, value: &dyn std::fmt::Debug) {
        match field.name() {
            "message" => *self.0 = format!("{value:?}"),
            "list" | "set" => *self.1 = format!("{value:?}"),
            _ => {}
        }
    }
}
impl tracing::Subscriber for Capture {
    fn enabled(&self, _: &tracing::Metadata<'_>) -> bool {
        true
    }
    fn new_span(&self, _: &tracing::span::Attributes<'_>) -> tracing::span::Id {
        tracing::span::Id::from_u64(self.next.fetch_add(1, Ordering::Relaxed) + 1)
    }
    fn record(&self, _: &tracing::span::Id, _: &tracing::span::Record<'_>) {}
    fn record_follows_from(&self, _: &tracing::span::Id, _: &tracing::span::Id) {}
    fn event(&self, event: &tracing::Event<'_>) {
        let mut msg = String::new();
        let mut val = String::new();
        event.record(&mut V(&mut msg, &mut val));
        if !val.is_empty() {
            self.events.lock().unwrap().push((msg, val));
        }
    }
    fn enter(&self, _: &tracing::span::Id) {}
    fn exit(&self, _: &tracing::span::Id) {}
}

/// event ids in a Debug-formatted list/set, in order of appearance
fn ids_in(text: &str) -> Vec<String> {
    let mut out = vec![];
    let b = text.as_bytes();
    let mut i = 0;
    while i < b.len() {
        if b[i] == b'$' {
            let mut j = i + 1;
            while j < b.len() && (b[j].is_ascii_alphanumeric() || b[j] == b':' || b[j] == b'.') {
                j += 1;
            }
            out.push(text[i..j].to_owned());
            i = j;
        } else {
            i += 1;
        }
    }
    out
}

pub struct Built {
    pub pdus: HashMap<OwnedEventId, Pdu>,
    pub back: HashMap<OwnedEventId, String>, // real id -> model id
    pub sets: Vec<StateMap<OwnedEventId>>,
    pub chains: Vec<HashSet<OwnedEventId>>,
}

pub fn build(c: &Value) -> Built {
    let v = c["v"].as_u64().unwrap();
    let evs: Vec<&Value> = c["events"].as_array().unwrap().iter().collect();
    let ids = id_map(&evs);
    let mut pdus = HashMap::new();
    let mut back = HashMap::new();
    for x in &evs {
        let p = pdu_of(x, v, &ids);
        back.insert(p.event_id.clone(), x["id"].as_str().unwrap().to_owned());
        pdus.insert(p.event_id.clone(), p);
    }
    let sets = c["sets"].as_array().unwrap().iter().map(|s| {
        s.as_array().unwrap().iter().map(|t| {
            ((StateEventType::from(t[0].as_str().unwrap()), t[1].as_str().unwrap().to_owned()), ids[t[2].as_str().unwrap()].clone())
        }).collect::<StateMap<OwnedEventId>>()
    }).collect();
    let chains = c["chains"].as_array().unwrap().iter().map(|s| {
        s.as_array().unwrap().iter().map(|i| ids[i.as_str().unwrap()].clone()).collect::<HashSet<_>>()
    }).collect();
    Built { pdus, back, sets, chains }
}

fn state_list(m: &StateMap<OwnedEventId>, back: &HashMap<OwnedEventId, String>) -> Vec<Value> {
    let mut l: Vec<(String, String, String)> =
        m.iter().map(|((t, k), id)| (t.to_string(), k.clone(), back.get(id).cloned().unwrap_or_else(|| id.to_string()))).collect();
    l.sort();
    l.into_iter().map(|(t, k, i)| json!([t, k, i])).collect()
}

fn run_case(c: &Value, perms: usize) -> Value {
    let b = build(c);
    let rules = auth_rules(c["v"].as_u64().unwrap());
    let cap = Arc::new(Capture::default());
    let res = {
        let d = tracing::Dispatch::new(cap.clone());
        tracing::dispatcher::with_default(&d, || guard(|| resolve(&rules, &b.sets, b.chains.clone(), |id| b.pdus.get(id).cloned())))
    };
    let mut o = json!({});
    match res {
        Err(p) => return json!({"panic": p}),
        Ok(Err(e)) => {
            o["error"] = json!(e.to_string());
        }
        Ok(Ok(m)) => {
            o["resolved"] = json!(state_list(&m, &b.back));
        }
    }
    let back_str: HashMap<String, String> = b.back.iter().map(|(k, v)| (k.to_string(), v.clone())).collect();
    for (msg, val) in cap.events.lock().unwrap().iter() {
        let ids: Vec<String> = ids_in(val).into_iter().map(|i| back_str.get(&i).cloned().unwrap_or(i)).collect();
        if msg.contains("full conflicted set") {
            let mut s = ids;
            s.sort();
            o["full"] = json!(s);
        } else if msg.contains("sorted power events") {
            o["power"] = json!(ids);
        } else if msg.contains("events left, sorted") {
            o["rest"] = json!(ids);
        }
    }
    // ---- C06: every order of the arguments, repeated, on several threads, must give the same map
    let n = b.sets.len();
    let mut orders: Vec<Vec<usize>> = vec![];
    let mut r = rand::rngs::StdRng::seed_from_u64(seed() ^ 0x606);
    let base: Vec<usize> = (0..n).collect();
    for _ in 0..perms {
        let mut p = base.clone();
        p.shuffle(&mut r);
        orders.push(p);
    }
    orders.push(base.iter().rev().cloned().collect());
    let reference = o.get("resolved").cloned();
    let b = Arc::new(b);
    let diverging: RefCell<Vec<Value>> = RefCell::new(vec![]);
    std::thread::scope(|sc| {
        let mut handles = vec![];
        for chunk in orders.chunks(orders.len().div_ceil(4).max(1)) {
            let b = b.clone();
            let rules = rules.clone();
            let chunk: Vec<Vec<usize>> = chunk.to_vec();
            handles.push(sc.spawn(move || {
                let mut out = vec![];
                for p in chunk {
                    for rep in 0..3 {
                        let sets: Vec<StateMap<OwnedEventId>> = p.iter().map(|&i| {
                            // rebuild the map so that it gets a fresh hasher seed and insertion order
                            let mut m = StateMap::new();
                            let mut items: Vec<_> = b.sets[i].iter().collect();
                            if rep % 2 == 1 { items.reverse(); }
                            for (k, v) in items { m.insert(k.clone(), v.clone()); }
                            m
                        }).collect();
                        // auth chain sets in a different order than the state sets
                        let mut cp = p.clone();
                        cp.rotate_left(rep % n.max(1));
                        let chains: Vec<HashSet<OwnedEventId>> = cp.iter().map(|&i| b.chains[i].iter().cloned().collect()).collect();
                        let r = guard(|| resolve(&rules, &sets, chains, |id| b.pdus.get(id).cloned()));
                        let got = match r {
                            Ok(Ok(m)) => json!(state_list(&m, &b.back)),
                            Ok(Err(e)) => json!({"error": e.to_string()}),
                            Err(pn) => json!({"panic": pn}),
                        };
                        out.push((p.clone(), rep, got));
                    }
                }
                out
            }));
        }
        for h in handles {
            for (p, rep, got) in h.join().unwrap() {
                if Some(&got) != reference.as_ref() {
                    diverging.borrow_mut().push(json!({"order": p, "rep": rep, "resolved": got}));
                }
            }
        }
    });
    o["runs"] = json!(orders.len() * 3);
    o["diverging"] = json!(diverging.into_inner());
    o
}

pub fn replay(args: &[String]) {
    let perms = arg_usize(args, "--perms", 5);
    let jobs = arg_usize(args, "--jobs", 12);
    let mut out = Out::new();
    // cases are independent: run them on `jobs` threads, keep the output in input order
    let mut lines: Vec<String> = vec![];
    {
        use std::io::BufRead;
        for line in std::io::stdin().lock().lines() {
            let line = line.expect("stdin");
            if !line.trim().is_empty() {
                lines.push(line);
            }
        }
    }
    let lines = std::sync::Arc::new(lines);
    let next = std::sync::Arc::new(std::sync::atomic::AtomicUsize::new(0));
    let results = std::sync::Arc::new(std::sync::Mutex::new(vec![None; lines.len()]));
    let mut handles = vec![];
    for _ in 0..jobs.max(1) {
        let (lines, next, results) = (lines.clone(), next.clone(), results.clone());
        handles.push(std::thread::Builder::new().stack_size(64 << 20).spawn(move || loop {
            let i = next.fetch_add(1, std::sync::atomic::Ordering::SeqCst);
            if i >= lines.len() {
                break;
            }
            let c: Value = serde_json::from_str(&lines[i]).expect("case is not JSON");
            let mut o = run_case(&c, perms);
            o["i"] = json!(i);
            results.lock().unwrap()[i] = Some(o);
        }).unwrap());
    }
    for h in handles {
        h.join().expect("worker thread");
    }
    for o in results.lock().unwrap().iter() {
        out.put(o.as_ref().expect("missing result"));
    }
}

/// TopoSort cases -> the public lexicographical_topological_sort
pub fn topo(_args: &[String]) {
    use js_int::{Int, UInt};
    use ruma_common::MilliSecondsSinceUnixEpoch;
    let mut out = Out::new();
    for_each_case(|i, c| {
        let n = c["n"].as_u64().unwrap() as usize;
        let rank = |k: usize| c["idrank"][k].as_u64().unwrap();
        let id = |k: usize| OwnedEventId::try_from(format!("${}:s", char::from(b'a' + rank(k) as u8))).unwrap();
        let mut graph: HashMap<OwnedEventId, HashSet<OwnedEventId>> = HashMap::new();
        let mut key: HashMap<OwnedEventId, (i64, u64)> = HashMap::new();
        let mut node_of: HashMap<OwnedEventId, usize> = HashMap::new();
        for k in 0..n {
            let deps: HashSet<OwnedEventId> = c["deps"][k].as_array().unwrap().iter().map(|d| id(d.as_u64().unwrap() as usize - 1)).collect();
            graph.insert(id(k), deps);
            key.insert(id(k), (c["power"][k].as_i64().unwrap(), c["ts"][k].as_u64().unwrap()));
            node_of.insert(id(k), k + 1);
        }
        let r = guard(|| {
            ruma_state_res::lexicographical_topological_sort(&graph, |e| {
                let (p, t) = key[e];
                Ok((Int::try_from(p).unwrap(), MilliSecondsSinceUnixEpoch(UInt::try_from(t).unwrap())))
            })
        });
        let o = match r {
            Ok(Ok(list)) => json!({"i": i, "order": list.iter().map(|e| node_of[e]).collect::<Vec<_>>()}),
            Ok(Err(e)) => json!({"i": i, "error": e.to_string()}),
            Err(p) => json!({"i": i, "panic": p}),
        };
        out.put(&o);
    });
}


/// Hand-made histories that no well-behaved server produces but that the code accepts: resolve must still return.
pub fn probes(_args: &[String]) {
    let mut out = Out::new();
    let ev = |id: &str, ty: &str, sender: &str, key: &str, auth: Vec<&str>, ts: u64, c: Value| {
        json!({"id": id, "type": ty, "sender": sender, "haskey": true, "key": key, "prev": ["$create"], "auth": auth, "roomserver": "s1", "idserver": "s1", "ts": ts, "c": c})
    };
    let pl = |n: i64| json!({"pl": {"users": {"@c:s1": 100, "@a:s1": n}, "events": {}, "notifications": {}, "userkeysvalid": true}});
    // room versions 1 and 2 have server-chosen event IDs: two power-levels events can name each other as auth events
    let case = json!({
        "v": 1,
        "events": [
            {"id": "$create", "type": "m.room.create", "sender": "@c:s1", "haskey": true, "key": "", "prev": [], "auth": [], "roomserver": "s1", "idserver": "s1", "ts": 0,
             "c": {"hascreator": true, "creator": "@c:s1", "federate": true}},
            ev("$ima", "m.room.member", "@c:s1", "@c:s1", vec!["$create"], 1, json!({"membership": "join", "jauth": "", "tpi": {"present": false}})),
            ev("$pl1", "m.room.power_levels", "@c:s1", "", vec!["$create", "$ima", "$pl2"], 2, pl(50)),
            ev("$pl2", "m.room.power_levels", "@c:s1", "", vec!["$create", "$ima", "$pl1"], 3, pl(60)),
            ev("$t1", "m.room.topic", "@c:s1", "", vec!["$create", "$ima", "$pl1"], 4, json!({"tag": 1})),
            ev("$t2", "m.room.topic", "@c:s1", "", vec!["$create", "$ima", "$pl2"], 5, json!({"tag": 2})),
        ],
        "sets": [
            [["m.room.create", "", "$create"], ["m.room.member", "@c:s1", "$ima"], ["m.room.power_levels", "", "$pl1"], ["m.room.topic", "", "$t1"]],
            [["m.room.create", "", "$create"], ["m.room.member", "@c:s1", "$ima"], ["m.room.power_levels", "", "$pl2"], ["m.room.topic", "", "$t2"]],
        ],
        "chains": [["$create", "$ima", "$pl1", "$pl2"], ["$create", "$ima", "$pl1", "$pl2"]],
    });
    let (tx, rx) = std::sync::mpsc::channel();
    std::thread::spawn(move || {
        let b = build(&case);
        let rules = auth_rules(1);
        let r = guard(|| resolve(&rules, &b.sets, b.chains.clone(), |id| b.pdus.get(id).cloned()).map(|_| ()).map_err(|e| e.to_string()));
        let _ = tx.send(match r { Ok(Ok(())) => "ok".to_owned(), Ok(Err(e)) => format!("error: {e}"), Err(p) => format!("panic: {p}") });
    });
    let res = rx.recv_timeout(std::time::Duration::from_secs(20));
    out.put(&json!({"probe": "power-levels-events-that-name-each-other-as-auth-events", "returned": res.is_ok(), "result": res.unwrap_or_else(|_| "no result after 20 s".into()), "distinct": 1}));

    // an event that lists two power-levels events among its auth events (the rule that rejects duplicate entries is not
    // applied by auth_check): which of them gives the sender's power for the ordering must not depend on the run
    let member = |id: &str, u: &str, auth: Vec<&str>, ts: u64| ev(id, "m.room.member", u, u, auth, ts, json!({"membership": "join", "jauth": "", "tpi": {"present": false}}));
    let pls = |users: Value| json!({"pl": {"users": users, "events": {}, "notifications": {}, "userkeysvalid": true}});
    let all = ["$create", "$ima", "$pl0", "$ijr", "$imb", "$imc", "$pla"];
    let base_state = |jr: &str| json!([["m.room.create", "", "$create"], ["m.room.member", "@c:s1", "$ima"], ["m.room.member", "@a:s1", "$imb"], ["m.room.member", "@b:s1", "$imc"],
                                       ["m.room.power_levels", "", "$pla"], ["m.room.join_rules", "", jr]]);
    let case2 = json!({
        "v": 7,
        "events": [
            {"id": "$create", "type": "m.room.create", "sender": "@c:s1", "haskey": true, "key": "", "prev": [], "auth": [], "roomserver": "s1", "idserver": "s1", "ts": 1,
             "c": {"hascreator": true, "creator": "@c:s1", "federate": true}},
            member("$ima", "@c:s1", vec!["$create"], 2),
            ev("$pl0", "m.room.power_levels", "@c:s1", "", vec!["$create", "$ima"], 3, pls(json!({"@c:s1": 100, "@b:s1": 50}))),
            ev("$ijr", "m.room.join_rules", "@c:s1", "", vec!["$create", "$ima", "$pl0"], 4, json!({"join_rule": "public"})),
            member("$imb", "@a:s1", vec!["$create", "$ijr", "$pl0"], 5),
            member("$imc", "@b:s1", vec!["$create", "$ijr", "$pl0"], 6),
            ev("$pla", "m.room.power_levels", "@c:s1", "", vec!["$create", "$ima", "$pl0"], 7, pls(json!({"@c:s1": 100, "@a:s1": 100, "@b:s1": 50}))),
            ev("$x", "m.room.join_rules", "@a:s1", "", vec!["$pla", "$pl0", "$create", "$imb"], 8, json!({"join_rule": "invite"})),
            ev("$y", "m.room.join_rules", "@b:s1", "", vec!["$create", "$imc", "$pla"], 9, json!({"join_rule": "knock"})),
        ],
        "sets": [base_state("$x"), base_state("$y")],
        "chains": [all, all],
    });
    let b = build(&case2);
    let rules = auth_rules(7);
    let mut seen: std::collections::BTreeSet<String> = Default::default();
    for k in 0..300 {
        let sets: Vec<_> = if k % 2 == 0 { b.sets.clone() } else { b.sets.iter().rev().cloned().collect() };
        let r = guard(|| resolve(&rules, &sets, b.chains.clone(), |id| b.pdus.get(id).cloned()));
        seen.insert(match r {
            Ok(Ok(m)) => serde_json::to_string(&state_list(&m, &b.back)).unwrap(),
            Ok(Err(e)) => format!("error: {e}"),
            Err(p) => format!("panic: {p}"),
        });
    }
    out.put(&json!({"probe": "two-power-levels-events-among-the-auth-events-of-one-event", "returned": true, "distinct": seen.len(),
                    "result": seen.iter().next().cloned().unwrap_or_default(), "results": seen.iter().collect::<Vec<_>>()}));
}

//! C11 Matrix URIs: format / parse round trips for model values, stability under mutation of texts.
use rand::{seq::SliceRandom, Rng};
use ruma_common::{
    matrix_uri::{MatrixId, UriAction},
    EventId, MatrixToUri, MatrixUri, OwnedEventId, OwnedServerName, RoomAliasId, RoomId, UserId,
};
use serde_json::{json, Value};

use crate::util::*;

fn id_text(id: &MatrixId) -> (String, String, String) {
    match id {
        MatrixId::User(u) => ("user".into(), u.to_string(), String::new()),
        MatrixId::Room(r) => ("room".into(), r.to_string(), String::new()),
        MatrixId::RoomAlias(a) => ("alias".into(), a.to_string(), String::new()),
        MatrixId::Event(r, e) => (if r.is_room_id() { "event_room".into() } else { "event_alias".into() }, r.to_string(), e.to_string()),
        _ => ("other".into(), String::new(), String::new()),
    }
}

/// projection of a parsed / constructed URI to the model's value shape
fn project_to(u: &MatrixToUri) -> Value {
    let (kind, id, ev) = id_text(u.id());
    json!({"form": "matrix_to", "kind": kind, "id": cps(&id), "ev": cps(&ev), "via": u.via().iter().map(|s| cps(s.as_str())).collect::<Vec<_>>(),
           "action": "none", "custom": []})
}
fn project_m(u: &MatrixUri) -> Value {
    let (kind, id, ev) = id_text(u.id());
    let (action, custom) = match u.action() {
        None => ("none", String::new()),
        Some(UriAction::Join) => ("join", String::new()),
        Some(UriAction::Chat) => ("chat", String::new()),
        Some(a) => ("custom", a.as_str().to_owned()),
    };
    json!({"form": "matrix", "kind": kind, "id": cps(&id), "ev": cps(&ev), "via": u.via().iter().map(|s| cps(s.as_str())).collect::<Vec<_>>(),
           "action": action, "custom": cps(&custom)})
}

enum Uri {
    To(MatrixToUri),
    M(MatrixUri),
}
impl Uri {
    fn text(&self) -> String {
        match self { Uri::To(u) => u.to_string(), Uri::M(u) => u.to_string() }
    }
    fn project(&self) -> Value {
        match self { Uri::To(u) => project_to(u), Uri::M(u) => project_m(u) }
    }
    fn parse(form: &str, s: &str) -> Option<Uri> {
        if form == "matrix_to" { MatrixToUri::parse(s).ok().map(Uri::To) } else { MatrixUri::parse(s).ok().map(Uri::M) }
    }
    fn same(&self, o: &Uri) -> bool {
        match (self, o) { (Uri::To(a), Uri::To(b)) => a == b, (Uri::M(a), Uri::M(b)) => a == b, _ => false }
    }
}

/// value through the public constructors, when they can express it
fn construct(v: &Value) -> Option<Uri> {
    let form = v["form"].as_str().unwrap();
    let kind = v["kind"].as_str().unwrap();
    let id = from_cps(&v["id"]);
    let ev = from_cps(&v["ev"]);
    let via: Vec<OwnedServerName> = v["via"].as_array().unwrap().iter().map(|s| OwnedServerName::try_from(from_cps(s)).unwrap()).collect();
    let action = v["action"].as_str().unwrap();
    let evid: Option<OwnedEventId> = <&EventId>::try_from(ev.as_str()).ok().map(OwnedEventId::from);
    match (form, kind) {
        ("matrix_to", "user") if via.is_empty() => Some(Uri::To(<&UserId>::try_from(id.as_str()).ok()?.matrix_to_uri())),
        ("matrix_to", "room") => Some(Uri::To(<&RoomId>::try_from(id.as_str()).ok()?.matrix_to_uri_via(via))),
        ("matrix_to", "alias") if via.is_empty() => Some(Uri::To(<&RoomAliasId>::try_from(id.as_str()).ok()?.matrix_to_uri())),
        ("matrix_to", "event_room") => Some(Uri::To(<&RoomId>::try_from(id.as_str()).ok()?.matrix_to_event_uri_via(evid.clone()?, via))),
        ("matrix_to", "event_alias") if via.is_empty() => Some(Uri::To(<&RoomAliasId>::try_from(id.as_str()).ok()?.matrix_to_event_uri(evid.clone()?))),
        ("matrix", "user") if via.is_empty() && matches!(action, "none" | "chat") => Some(Uri::M(<&UserId>::try_from(id.as_str()).ok()?.matrix_uri(action == "chat"))),
        ("matrix", "room") if matches!(action, "none" | "join") => Some(Uri::M(<&RoomId>::try_from(id.as_str()).ok()?.matrix_uri_via(via, action == "join"))),
        ("matrix", "alias") if via.is_empty() && matches!(action, "none" | "join") => Some(Uri::M(<&RoomAliasId>::try_from(id.as_str()).ok()?.matrix_uri(action == "join"))),
        ("matrix", "event_room") if action == "none" => Some(Uri::M(<&RoomId>::try_from(id.as_str()).ok()?.matrix_event_uri_via(evid.clone()?, via))),
        ("matrix", "event_alias") if via.is_empty() && action == "none" => Some(Uri::M(<&RoomAliasId>::try_from(id.as_str()).ok()?.matrix_event_uri(evid.clone()?))),
        _ => None,
    }
}

fn round_trip(u: &Uri, form: &str) -> Value {
    let text = u.text();
    let back = Uri::parse(form, &text);
    let same_value = back.as_ref().map(|b| b.same(u)).unwrap_or(false);
    let same_text = back.as_ref().map(|b| b.text() == text).unwrap_or(false);
    json!({"text": cps(&text), "value": u.project(), "parse_ok": back.is_some(), "same_value": same_value, "same_text": same_text})
}

pub fn replay(_args: &[String]) {
    let mut out = Out::new();
    let mut l = 0u64;
    for_each_case(|i, c| {
        let v = &c["v"];
        let form = v["form"].as_str().unwrap();
        let r = guard(|| {
            let mut o = json!({});
            let a = construct(v);
            if let Some(u) = &a {
                o["ctor"] = round_trip(u, form);
            }
            let b = Uri::parse(form, &from_cps(&c["ref"]));
            if let Some(u) = &b {
                o["parsed"] = round_trip(u, form);
            } else {
                o["ref_rejected"] = json!(true);
            }
            if let (Some(x), Some(y)) = (&a, &b) {
                o["ctor_equals_parsed"] = json!(x.same(y));
            }
            o
        });
        let mut o = match r { Ok(o) => o, Err(p) => json!({"panic": p}) };
        l += 1;
        o["i"] = json!(i);
        out.put(&o);
    });
    let _ = l;
}

/// mutated texts: parsing never panics, and what parses re-formats to something that parses to the same value
pub fn mutants(args: &[String]) {
    let n = arg_usize(args, "--n", 5000);
    let mut rng = rng(11);
    let mut out = Out::new();
    let seeds = [
        "https://matrix.to/#/%40a%3As.co", "https://matrix.to/#/!r:s.co/$e:s.co?via=s.co&via=b.co", "https://matrix.to/#/%23a%3As.co/%24e",
        "matrix:u/a:s.co?action=chat", "matrix:r/a:s.co?action=join", "matrix:roomid/r:s.co/e/ev:s.co?via=s.co&action=x%26y",
        "matrix:roomid/r:s.co?via=s.co", "matrix:u/a%2Fb%25:s.co", "https://matrix.to/#/@a:s.co", "matrix:r/a%23b:s.co/e/abc%2Fdef",
    ];
    let inserts = ["/", "//", "?", "#", "%", "%2", "%zz", "%2F", "%25", "%00", "&", "=", "&&", "?via=", "&action=", "&action=a&action=b", " ", "é", "$", "!", "@", ":", "e/", "/e/", "u/", "via=[::1"];
    let (mut parsed, mut errors) = (0u64, 0u64);
    // systematic part: every single insertion at every position of every seed, and runs of slashes after the base
    let mut texts: Vec<String> = vec![];
    for seed in seeds {
        let chars: Vec<char> = seed.chars().collect();
        for k in 0..=chars.len() {
            for ins in inserts {
                let mut t: String = chars[..k].iter().collect();
                t.push_str(ins);
                t.extend(chars[k..].iter());
                texts.push(t);
            }
            if k < chars.len() {
                let mut t: String = chars[..k].iter().collect();
                t.extend(chars[k + 1..].iter());
                texts.push(t);
            }
        }
    }
    for base in ["https://matrix.to/#", "https://matrix.to/", "matrix:", "matrix:u", "matrix:roomid/r:s.co/e"] {
        for k in 0..7 {
            for suffix in ["", "?via=s.co", "!r:s.co", "%40a:s.co/", "$e", "?", "#", "%", "a:s.co"] {
                texts.push(format!("{base}{}{suffix}", "/".repeat(k)));
            }
        }
    }
    let nsys = texts.len();
    for i in 0..(nsys + n) {
        let mut s: Vec<char> = seeds.choose(&mut rng).unwrap().chars().collect();
        for _ in 0..rng.gen_range(1..4) {
            match rng.gen_range(0..4) {
                0 => { let k = rng.gen_range(0..=s.len()); for (j, ch) in inserts.choose(&mut rng).unwrap().chars().enumerate() { s.insert(k + j, ch); } }
                1 => { if !s.is_empty() { let k = rng.gen_range(0..s.len()); s.remove(k); } }
                2 => { if s.len() > 2 { let k = rng.gen_range(0..s.len() - 1); let e = (k + rng.gen_range(1..6)).min(s.len()); s.drain(k..e); } }
                _ => { if !s.is_empty() { let k = rng.gen_range(0..s.len()); let c = s[k]; s.insert(k, c); } }
            }
        }
        let text: String = if i < nsys { texts[i].clone() } else { s.into_iter().collect() };
        for form in ["matrix_to", "matrix"] {
            let r = guard(|| {
                match Uri::parse(form, &text) {
                    None => json!({"res": "err"}),
                    Some(u) => {
                        let rt = round_trip(&u, form);
                        json!({"res": "ok", "stable": rt["parse_ok"] == json!(true) && rt["same_value"] == json!(true), "reformatted": rt["text"]})
                    }
                }
            });
            match r {
                Err(p) => out.put(&json!({"i": i, "form": form, "text": text, "panic": p})),
                Ok(o) => {
                    if o["res"] == "ok" {
                        parsed += 1;
                        if o["stable"] != json!(true) {
                            out.put(&json!({"i": i, "form": form, "text": text, "unstable": o}));
                        }
                    } else {
                        errors += 1;
                    }
                }
            }
        }
    }
    out.put(&json!({"summary": {"texts": n + nsys, "systematic": nsys, "parsed": parsed, "errors": errors}}));
}

//! C08 authorization rules, C09 auth-event selection and non-interference.
use std::cell::RefCell;
use std::collections::{BTreeSet, HashMap};

use ruma_common::{room_version_rules::AuthorizationRules, RoomVersionId};
use ruma_events::StateEventType;
use ruma_state_res::{auth_check, auth_types_for_event, Event};
use serde_json::{json, Value};

use crate::pdu::*;
use crate::util::*;

pub fn auth_rules(v: u64) -> AuthorizationRules {
    RoomVersionId::try_from(v.to_string().as_str()).unwrap().rules().unwrap().authorization
}

/// Runs auth_check of `e` against `state`; returns (outcome, keys read through fetch_state).
fn run_auth(rules: &AuthorizationRules, e: &Pdu, state: &HashMap<(String, String), Pdu>) -> (String, BTreeSet<(String, String)>) {
    let reads: RefCell<BTreeSet<(String, String)>> = RefCell::new(BTreeSet::new());
    let r = guard(|| {
        auth_check(rules, e, |ty: &StateEventType, key: &str| {
            reads.borrow_mut().insert((ty.to_string(), key.to_owned()));
            state.get(&(ty.to_string(), key.to_owned())).cloned()
        })
    });
    let out = match r {
        Ok(Ok(())) => "allow".to_owned(),
        Ok(Err(_)) => "reject".to_owned(),
        Err(p) => format!("panic: {p}"),
    };
    (out, reads.into_inner())
}

pub fn run_case(c: &Value) -> Value {
    let v = c["v"].as_u64().unwrap();
    let rules = auth_rules(v);
    let st: Vec<&Value> = c["st"].as_array().unwrap().iter().collect();
    let mut all = st.clone();
    all.push(&c["e"]);
    let ids = id_map(&all);
    let mut state: HashMap<(String, String), Pdu> = HashMap::new();
    for x in &st {
        let p = pdu_of(x, v, &ids);
        state.insert((p.ty.to_string(), p.state_key.clone().unwrap_or_default()), p);
    }
    let e = pdu_of(&c["e"], v, &ids);
    let (out, reads) = run_auth(&rules, &e, &state);
    // selection as computed by ruma
    let sel = guard(|| auth_types_for_event(e.event_type(), e.sender(), e.state_key(), e.content(), &rules));
    let sel_json = match &sel {
        Ok(Ok(list)) => json!({"ok": list.iter().map(|(t, k)| json!([t.to_string(), k])).collect::<Vec<_>>()}),
        Ok(Err(_)) => json!({"err": true}),
        Err(p) => json!({"panic": p}),
    };
    // non-interference: restrict the state to the model's selection; outcome must not change
    let model_sel: BTreeSet<(String, String)> = c["sel"]
        .as_array()
        .unwrap()
        .iter()
        .map(|p| (p[0].as_str().unwrap().to_owned(), p[1].as_str().unwrap().to_owned()))
        .collect();
    let restricted: HashMap<(String, String), Pdu> =
        state.iter().filter(|(k, _)| model_sel.contains(*k)).map(|(k, p)| (k.clone(), p.clone())).collect();
    let (out_restricted, _) = run_auth(&rules, &e, &restricted);
    // ... and with every unselected entry replaced by a hostile variant (a ban / different content)
    let mut hostile = restricted.clone();
    for (k, p) in &state {
        if !model_sel.contains(k) {
            let mut q = p.clone();
            q.content = serde_json::value::to_raw_value(&json!({"membership": "ban", "join_rule": "public", "users_default": 100})).unwrap();
            hostile.insert(k.clone(), q);
        }
    }
    let (out_hostile, _) = run_auth(&rules, &e, &hostile);
    json!({
        "out": out, "reads": reads.iter().map(|(t, k)| json!([t, k])).collect::<Vec<_>>(),
        "sel": sel_json, "out_restricted": out_restricted, "out_hostile": out_hostile,
    })
}

pub fn replay(_args: &[String]) {
    let mut out = Out::new();
    for_each_case(|i, c| {
        let mut o = run_case(&c);
        // a level that is not an integer: every spelling of such a value must get the same verdict
        if c.to_string().contains("\"bad\"") {
            let n = bad_spellings().len();
            for k in 1..n {
                BAD_SPELLING.store(k, std::sync::atomic::Ordering::Relaxed);
                let other = run_case(&c);
                if other["out"] != o["out"] {
                    o["out"] = json!(format!("{} but {} when the value is spelt {}", o["out"].as_str().unwrap_or("?"), other["out"].as_str().unwrap_or("?"), bad_spellings()[k]));
                    break;
                }
            }
            BAD_SPELLING.store(0, std::sync::atomic::Ordering::Relaxed);
        }
        o["i"] = json!(i);
        out.put(&o);
    });
}

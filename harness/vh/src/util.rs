//! Shared helpers: ndjson I/O, seeded RNG, panic capture, tagged JSON values.
use std::io::{self, BufRead, Write};
use std::panic::{catch_unwind, AssertUnwindSafe};

use rand::{rngs::StdRng, SeedableRng};
use serde_json::Value;

pub fn seed() -> u64 {
    std::env::var("VERIF_SEED").ok().and_then(|s| s.parse().ok()).unwrap_or(1)
}

pub fn rng(salt: u64) -> StdRng {
    StdRng::seed_from_u64(seed().wrapping_mul(0x9E37_79B9_7F4A_7C15).wrapping_add(salt))
}

/// Iterate over ndjson records on stdin.
pub fn for_each_case(mut f: impl FnMut(usize, Value)) {
    let stdin = io::stdin();
    let mut n = 0usize;
    for line in stdin.lock().split(b'\n') {
        let line = line.expect("stdin");
        if line.iter().all(|b| b.is_ascii_whitespace()) {
            continue;
        }
        let v: Value = serde_json::from_slice(&line).expect("case is not JSON");
        f(n, v);
        n += 1;
    }
}

pub struct Out {
    w: io::BufWriter<io::Stdout>,
}

impl Out {
    pub fn new() -> Self {
        Out { w: io::BufWriter::with_capacity(1 << 20, io::stdout()) }
    }
    pub fn put(&mut self, v: &Value) {
        serde_json::to_writer(&mut self.w, v).unwrap();
        self.w.write_all(b"\n").unwrap();
    }
    pub fn flush(&mut self) {
        self.w.flush().unwrap();
    }
}

impl Drop for Out {
    fn drop(&mut self) {
        let _ = self.w.flush();
    }
}

thread_local! {
    static GUARD_DEPTH: std::cell::Cell<u32> = const { std::cell::Cell::new(0) };
}

/// Run `f`, turning a panic into Err(message).
pub fn guard<T>(f: impl FnOnce() -> T) -> Result<T, String> {
    GUARD_DEPTH.with(|d| d.set(d.get() + 1));
    let r = catch_unwind(AssertUnwindSafe(f));
    GUARD_DEPTH.with(|d| d.set(d.get() - 1));
    match r {
        Ok(v) => Ok(v),
        Err(e) => {
            let msg = if let Some(s) = e.downcast_ref::<&str>() {
                s.to_string()
            } else if let Some(s) = e.downcast_ref::<String>() {
                s.clone()
            } else {
                "panic".to_owned()
            };
            Err(msg)
        }
    }
}

/// Panics of the code under test (inside `guard`) are data and stay silent; harness bugs are printed.
pub fn quiet_panics() {
    let default = std::panic::take_hook();
    std::panic::set_hook(Box::new(move |info| {
        if GUARD_DEPTH.with(|d| d.get()) == 0 {
            default(info);
        }
    }));
}

pub fn cps(s: &str) -> Vec<u32> {
    s.chars().map(|c| c as u32).collect()
}

pub fn from_cps(v: &Value) -> String {
    v.as_array()
        .expect("cp array")
        .iter()
        .map(|c| char::from_u32(c.as_u64().expect("cp") as u32).expect("scalar"))
        .collect()
}

pub fn strs(v: &Value) -> Vec<String> {
    v.as_array().map(|a| a.iter().map(|s| s.as_str().unwrap().to_owned()).collect()).unwrap_or_default()
}

pub fn arg_val(args: &[String], name: &str) -> Option<String> {
    args.iter().position(|a| a == name).and_then(|i| args.get(i + 1).cloned())
}

pub fn arg_usize(args: &[String], name: &str, default: usize) -> usize {
    arg_val(args, name).and_then(|s| s.parse().ok()).unwrap_or(default)
}

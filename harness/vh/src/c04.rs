//! C04 redaction: the three entry points against the TLA+ table.
use rand::{seq::SliceRandom, Rng};
use ruma_common::{
    canonical_json::{redact, redact_content_in_place, redact_in_place, RedactedBecause},
    room_version_rules::RedactionRules,
    CanonicalJsonObject, CanonicalJsonValue, RoomVersionId,
};
use serde_json::{json, Value};

use crate::util::*;

pub fn rules_for(v: u64) -> RedactionRules {
    let id = RoomVersionId::try_from(v.to_string().as_str()).expect("room version id");
    id.rules().expect("rules of known version").redaction
}

fn cj(v: Value) -> CanonicalJsonValue {
    CanonicalJsonValue::try_from(v).expect("canonical value")
}

/// A nested sentinel value for key `k` at `place`.
fn sentinel(place: &str, k: &str, salt: u64) -> Value {
    json!({"place": place, "key": k, "salt": salt, "nested": {"a": [1, {"b": null}, "x"], "signed": {"deep": true}}, "unsigned": 7})
}

struct Built {
    event: CanonicalJsonObject,
}

fn top_value(k: &str, salt: u64) -> Value {
    // type-correct where ruma or later stages may look at the shape, arbitrary otherwise
    match k {
        "hashes" => json!({"sha256": format!("h{salt}"), "nested": {"x": [1, 2]}}),
        "signatures" => json!({"example.org": {"ed25519:1": format!("s{salt}")}}),
        "unsigned" => json!({"age": salt, "prev_content": {"a": 1}}),
        "depth" | "origin_server_ts" | "age_ts" => json!(salt),
        "prev_events" | "auth_events" => json!([format!("$e{salt}:example.org"), ["$x:y", {"sha256": "z"}]]),
        _ => sentinel("top", k, salt),
    }
}

fn build(case: &Value, salt: u64) -> Built {
    let mut ev = CanonicalJsonObject::new();
    ev.insert("type".into(), cj(json!(case["type"].as_str().unwrap())));
    for k in strs(&case["top"]) {
        ev.insert(k.clone(), cj(top_value(&k, salt)));
    }
    if case["hascontent"].as_bool().unwrap() {
        let mut content = CanonicalJsonObject::new();
        for k in strs(&case["content"]) {
            if k == "third_party_invite" {
                let v = match case["tpikind"].as_str().unwrap() {
                    "atom" => json!("not-an-object"),
                    _ => {
                        let mut m = serde_json::Map::new();
                        for t in strs(&case["tpi"]) {
                            m.insert(t.clone(), sentinel("tpi", &t, salt));
                        }
                        Value::Object(m)
                    }
                };
                content.insert(k, cj(v));
            } else {
                content.insert(k.clone(), cj(sentinel("content", &k, salt)));
            }
        }
        ev.insert("content".into(), CanonicalJsonValue::Object(content));
    }
    Built { event: ev }
}

fn keys(o: &CanonicalJsonObject) -> Vec<String> {
    o.keys().cloned().collect()
}

/// Observation of one redaction: which keys survived, and whether every survivor is identical to the input.
fn observe(input: &CanonicalJsonObject, out: &CanonicalJsonObject, because: Option<&CanonicalJsonObject>) -> Value {
    let mut top: Vec<String> = vec![];
    let mut untouched = true;
    let mut added: Vec<String> = vec![];
    let mut because_ok = true;
    for (k, v) in out {
        if k == "content" {
            continue;
        }
        if k == "unsigned" {
            if let Some(b) = because {
                // the only permitted addition: unsigned = {redacted_because: <given>}
                let want: CanonicalJsonObject =
                    [("redacted_because".to_owned(), CanonicalJsonValue::Object(b.clone()))].into_iter().collect();
                if v != &CanonicalJsonValue::Object(want) {
                    because_ok = false;
                }
                continue;
            }
        }
        top.push(k.clone());
        match input.get(k) {
            Some(iv) => {
                if iv != v {
                    untouched = false;
                }
            }
            None => added.push(format!("top:{k}")),
        }
    }
    if because.is_some() && !out.contains_key("unsigned") {
        because_ok = false;
    }
    let mut content: Vec<String> = vec![];
    let mut tpikind = "none".to_owned();
    let mut tpi: Vec<String> = vec![];
    let hascontent = out.contains_key("content");
    if let Some(CanonicalJsonValue::Object(c)) = out.get("content") {
        let ic = match input.get("content") {
            Some(CanonicalJsonValue::Object(ic)) => Some(ic),
            _ => None,
        };
        for (k, v) in c {
            content.push(k.clone());
            let iv = ic.and_then(|ic| ic.get(k));
            if iv.is_none() {
                added.push(format!("content:{k}"));
            }
            if k == "third_party_invite" {
                match v {
                    CanonicalJsonValue::Object(t) => {
                        tpikind = "obj".into();
                        tpi = keys(t);
                        let it = match iv {
                            Some(CanonicalJsonValue::Object(it)) => Some(it),
                            _ => None,
                        };
                        for (tk, tv) in t {
                            match it.and_then(|it| it.get(tk)) {
                                Some(x) if x == tv => {}
                                Some(_) => untouched = false,
                                None => added.push(format!("tpi:{tk}")),
                            }
                        }
                    }
                    _ => {
                        tpikind = "atom".into();
                        if iv != Some(v) {
                            untouched = false;
                        }
                    }
                }
            } else if iv.is_some() && iv != Some(v) {
                untouched = false;
            }
        }
    } else if hascontent {
        untouched = untouched && input.get("content") == out.get("content");
    }
    json!({"top": top, "hascontent": hascontent, "content": content, "tpikind": tpikind, "tpi": tpi,
           "untouched": untouched, "added": added, "because_ok": because_ok})
}

fn run_case(case: &Value, salt: u64) -> Value {
    let v = case["v"].as_u64().unwrap();
    let built = build(case, salt);
    let input = built.event.clone();
    let r = guard(|| {
        let rules = rules_for(v);
        let because: CanonicalJsonObject = [
            ("type".to_owned(), cj(json!("m.room.redaction"))),
            ("event_id".to_owned(), cj(json!("$r:example.org"))),
            ("content".to_owned(), cj(json!({"reason": "x"}))),
        ]
        .into_iter()
        .collect();
        // 1. copying entry point, no redacted_because
        let a = redact(input.clone(), &rules, None);
        // 2. in place
        let mut bobj = input.clone();
        let b = redact_in_place(&mut bobj, &rules, None);
        // 3. content only
        let mut cobj = match input.get("content") {
            Some(CanonicalJsonValue::Object(c)) => Some(c.clone()),
            _ => None,
        };
        let c = cobj.as_mut().map(|c| redact_content_in_place(c, &rules, case["type"].as_str().unwrap()));
        // 4. with redacted_because
        let d = redact(input.clone(), &rules, Some(RedactedBecause::from_json(because.clone())));
        let mut o = json!({"a_ok": a.is_ok(), "b_ok": b.is_ok(), "c_ok": c.as_ref().map(|r| r.is_ok()), "d_ok": d.is_ok()});
        if let Ok(a) = &a {
            o["obs"] = observe(&input, a, None);
            // twice == once
            let twice = redact(a.clone(), &rules, None);
            o["idempotent"] = json!(matches!(&twice, Ok(t) if t == a));
            let mut agree = true;
            if b.is_ok() && &bobj != a {
                agree = false;
            }
            if !b.is_ok() {
                agree = false;
            }
            match (&cobj, &c, a.get("content")) {
                (Some(co), Some(Ok(())), Some(CanonicalJsonValue::Object(ac))) => {
                    if co != ac {
                        agree = false;
                    }
                }
                (None, None, _) => {}
                _ => agree = false,
            }
            o["agree"] = json!(agree);
        }
        if let Ok(d) = &d {
            let od = observe(&input, d, Some(&because));
            o["obs_because"] = od;
            // apart from unsigned, identical to the plain redaction
            if let Ok(a) = &a {
                let mut d2 = d.clone();
                d2.remove("unsigned");
                let mut a2 = a.clone();
                a2.remove("unsigned");
                o["because_same"] = json!(d2 == a2);
            }
        }
        o
    });
    match r {
        Ok(o) => o,
        Err(p) => json!({"panic": p}),
    }
}

pub fn replay(_args: &[String]) {
    let mut out = Out::new();
    for_each_case(|i, case| {
        let mut o = run_case(&case, i as u64);
        o["i"] = json!(i);
        out.put(&o);
    });
}

const TYPES: &[&str] = &[
    "m.room.member", "m.room.create", "m.room.join_rules", "m.room.power_levels", "m.room.history_visibility",
    "m.room.redaction", "m.room.aliases", "m.room.message", "m.room.topic", "m.room.server_acl", "org.example.custom",
    "m.room.name", "m.room.member ", "M.ROOM.MEMBER", "m.room.create.x",
];
const TOP: &[&str] = &[
    "event_id", "room_id", "sender", "state_key", "hashes", "signatures", "depth", "prev_events", "auth_events",
    "origin_server_ts", "origin", "membership", "prev_state", "unsigned", "age_ts", "x.unspec", "redacts", "Type",
    "contents", "event_id ", "prev_content", "replaces_state", "outlier",
];
const CONTENT: &[&str] = &[
    "membership", "join_authorised_via_users_server", "third_party_invite", "creator", "join_rule", "allow", "invite",
    "history_visibility", "redacts", "aliases", "ban", "events", "events_default", "kick", "redact", "state_default",
    "users", "users_default", "body", "x.unspec", "room_version", "reason", "notifications", "displayname",
    "avatar_url", "is_direct", "m.federate", "predecessor", "type", "Membership", "signed", "alias", "deny",
    "allow_ip_literals", "name", "topic",
];
const TPI: &[&str] = &["signed", "display_name", "Signed", "mxid", "token"];

/// impl -> spec: random events, logged with the abstract projection the TLA+ model needs.
pub fn record(args: &[String]) {
    let n = arg_usize(args, "--n", 1000);
    let mut rng = rng(4);
    let mut out = Out::new();
    for i in 0..n {
        let v = rng.gen_range(1..=11u64);
        let ty = *TYPES.choose(&mut rng).unwrap();
        let density = [0.1, 0.5, 0.9][rng.gen_range(0..3)];
        let top: Vec<&str> = TOP.iter().copied().filter(|_| rng.gen_bool(density)).collect();
        let hascontent = rng.gen_bool(0.9);
        let cd = [0.1, 0.4, 0.9][rng.gen_range(0..3)];
        let content: Vec<&str> =
            if hascontent { CONTENT.iter().copied().filter(|_| rng.gen_bool(cd)).collect() } else { vec![] };
        let has_tpi = content.contains(&"third_party_invite");
        let tpikind = if !has_tpi { "none" } else if rng.gen_bool(0.15) { "atom" } else { "obj" };
        let tpi: Vec<&str> = if tpikind == "obj" { TPI.iter().copied().filter(|_| rng.gen_bool(0.4)).collect() } else { vec![] };
        let case = json!({"v": v, "type": ty, "top": top, "hascontent": hascontent, "content": content,
                          "tpikind": tpikind, "tpi": tpi});
        let o = run_case(&case, 1000 + i as u64);
        let mut rec = case;
        rec["i"] = json!(i + 1);
        rec["ok"] = json!(o.get("a_ok").and_then(|b| b.as_bool()).unwrap_or(false));
        rec["panic"] = json!(o.get("panic").is_some());
        let obs = o.get("obs").cloned().unwrap_or(json!({"top": [], "hascontent": false, "content": [], "tpikind": "none", "tpi": [], "untouched": false, "added": [], "because_ok": false}));
        rec["otop"] = obs["top"].clone();
        rec["ohascontent"] = obs["hascontent"].clone();
        rec["ocontent"] = obs["content"].clone();
        rec["otpikind"] = obs["tpikind"].clone();
        rec["otpi"] = obs["tpi"].clone();
        rec["untouched"] = obs["untouched"].clone();
        rec["nadded"] = json!(obs["added"].as_array().map(|a| a.len()).unwrap_or(0));
        rec["idempotent"] = o.get("idempotent").cloned().unwrap_or(json!(false));
        rec["agree"] = o.get("agree").cloned().unwrap_or(json!(false));
        rec["because_ok"] = json!(o.get("obs_because").map(|b| b["because_ok"] == json!(true)).unwrap_or(false)
            && o.get("because_same") == Some(&json!(true)));
        out.put(&rec);
    }
}

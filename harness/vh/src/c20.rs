//! C20 power-level helpers vs authorization: both real functions evaluated on every model configuration.
use std::collections::HashMap;

use js_int::uint;
use ruma_common::{
    push::{PushCondition, PushConditionPowerLevelsCtx, PushConditionRoomCtx},
    serde::Raw,
    OwnedRoomId, OwnedUserId, UserId,
};
use ruma_events::{
    room::power_levels::{RoomPowerLevels, RoomPowerLevelsEventContent},
    MessageLikeEventType, StateEventType,
};
use ruma_state_res::auth_check;
use serde_json::{json, Value};

use crate::c08::auth_rules;
use crate::pdu::*;
use crate::util::*;

fn member(id: &str, sender: &str, target: &str, m: &str) -> Value {
    json!({"id": id, "type": "m.room.member", "sender": sender, "haskey": true, "key": target, "prev": ["$p"],
           "auth": ["$create"], "roomserver": "s1", "idserver": "s1",
           "c": {"membership": m, "jauth": "", "tpi": {"present": false}}})
}

pub fn run_case(c: &Value) -> Value {
    let v = c["v"].as_u64().unwrap();
    let a: &UserId = <&UserId>::try_from("@a:s1").unwrap();
    let b: &UserId = <&UserId>::try_from("@b:s1").unwrap();
    let plc = json!({"pl": c["pl"]});
    let mut content_json = content_of("m.room.power_levels", &plc, v);
    let red = c.get("red").and_then(|r| r.as_bool()).unwrap_or(false);
    if red {
        // the event has been redacted: both sides read what ruma's redaction leaves of the content
        let rv = ruma_common::RoomVersionId::try_from(v.to_string().as_str()).unwrap().rules().unwrap();
        let mut obj: ruma_common::CanonicalJsonObject = serde_json::from_value(content_json.clone()).unwrap();
        ruma_common::canonical_json::redact_content_in_place(&mut obj, &rv.redaction, "m.room.power_levels");
        content_json = serde_json::to_value(&obj).unwrap();
    }
    let r = guard(|| {
        let mut o = json!({});
        // ---- helpers
        let helper = if red {
            serde_json::from_value::<ruma_events::room::power_levels::RedactedRoomPowerLevelsEventContent>(content_json.clone()).map(RoomPowerLevels::from)
        } else {
            serde_json::from_value::<RoomPowerLevelsEventContent>(content_json.clone()).map(RoomPowerLevels::from)
        };
        match helper {
            Ok(pl) => {
                o["h"] = json!({
                    "ban": pl.user_can_ban_user(a, b), "kick": pl.user_can_kick_user(a, b),
                    "unban": pl.user_can_unban_user(a, b), "invite": pl.user_can_invite(a),
                    "msg": pl.user_can_send_message(a, MessageLikeEventType::RoomMessage),
                    "topic": pl.user_can_send_state(a, StateEventType::RoomTopic),
                    "topicmsg": pl.user_can_send_message(a, MessageLikeEventType::from("m.room.topic")),
                    "tpi": pl.user_can_send_state(a, StateEventType::RoomThirdPartyInvite),
                    "aliases": pl.user_can_send_state(a, StateEventType::RoomAliases),
                    "notif": pl.user_can_trigger_room_notification(a),
                    "la": i64::from(pl.for_user(a)), "lb": i64::from(pl.for_user(b)),
                });
                // the push condition the notification helper stands for
                let ctx = PushConditionRoomCtx {
                    room_id: OwnedRoomId::try_from("!r:s1").unwrap(),
                    member_count: uint!(3),
                    user_id: OwnedUserId::try_from("@z:s1").unwrap(),
                    user_display_name: "z".into(),
                    power_levels: Some(PushConditionPowerLevelsCtx::from(pl.clone())),
                };
                let ev: Raw<Value> = Raw::new(&json!({"sender": "@a:s1", "type": "m.room.message", "content": {"body": "@room"}})).unwrap().cast();
                let flat = ruma_common::push::FlattenedJson::from_raw(&ev);
                o["h"]["notif_condition"] =
                    json!(PushCondition::SenderNotificationPermission { key: "room".into() }.applies(&flat, &ctx));
            }
            Err(e) => {
                o["h_err"] = json!(e.to_string());
            }
        }
        // ---- authorization of the corresponding events
        let rules = auth_rules(v);
        let create = json!({"id": "$create", "type": "m.room.create", "sender": "@c:s1", "haskey": true, "key": "", "prev": [],
                            "auth": [], "roomserver": "s1", "idserver": "s1", "c": {"hascreator": true, "creator": "@c:s1", "federate": true}});
        let ple = json!({"id": "$pl", "type": "m.room.power_levels", "sender": "@c:s1", "haskey": true, "key": "", "prev": ["$p"],
                         "auth": ["$create"], "roomserver": "s1", "idserver": "s1", "c": plc});
        let mut st = vec![create, ple, member("$ma", "@a:s1", "@a:s1", "join")];
        let tm = c["tm"].as_str().unwrap();
        if tm != "absent" {
            st.push(member("$mb", "@b:s1", "@b:s1", tm));
        }
        let cands = [
            ("a_ban", member("$e", "@a:s1", "@b:s1", "ban")),
            ("a_leave", member("$e", "@a:s1", "@b:s1", "leave")),
            ("a_invite", member("$e", "@a:s1", "@b:s1", "invite")),
            ("a_msg", json!({"id": "$e", "type": "m.room.message", "sender": "@a:s1", "haskey": false, "key": "", "prev": ["$p"],
                             "auth": ["$create"], "roomserver": "s1", "idserver": "s1", "c": {"none": true}})),
            ("a_topic", json!({"id": "$e", "type": "m.room.topic", "sender": "@a:s1", "haskey": true, "key": "", "prev": ["$p"],
                               "auth": ["$create"], "roomserver": "s1", "idserver": "s1", "c": {"none": true}})),
            ("a_topicmsg", json!({"id": "$e", "type": "m.room.topic", "sender": "@a:s1", "haskey": false, "key": "", "prev": ["$p"],
                                  "auth": ["$create"], "roomserver": "s1", "idserver": "s1", "c": {"none": true}})),
            ("a_aliases", json!({"id": "$e", "type": "m.room.aliases", "sender": "@a:s1", "haskey": true, "key": "s1", "prev": ["$p"],
                                 "auth": ["$create"], "roomserver": "s1", "idserver": "s1", "c": {"none": true}})),
            ("a_tpi", json!({"id": "$e", "type": "m.room.third_party_invite", "sender": "@a:s1", "haskey": true, "key": "tok9", "prev": ["$p"],
                             "auth": ["$create"], "roomserver": "s1", "idserver": "s1", "c": {"none": true}})),
        ];
        let mut refs: Vec<&Value> = st.iter().collect();
        refs.push(&cands[0].1);
        let ids = id_map(&refs);
        let mut state: HashMap<(String, String), Pdu> = HashMap::new();
        for x in &st {
            let mut p = pdu_of(x, v, &ids);
            if red && x["type"] == "m.room.power_levels" {
                p.content = serde_json::value::to_raw_value(&content_json).unwrap();
            }
            state.insert((p.ty.to_string(), p.state_key.clone().unwrap_or_default()), p);
        }
        for (name, ev) in &cands {
            let e = pdu_of(ev, v, &ids);
            let res = auth_check(&rules, &e, |ty: &StateEventType, key: &str| state.get(&(ty.to_string(), key.to_owned())).cloned());
            o[*name] = json!(if res.is_ok() { "allow" } else { "reject" });
        }
        o
    });
    match r {
        Ok(o) => o,
        Err(p) => json!({"panic": p}),
    }
}

pub fn replay(_args: &[String]) {
    let mut out = Out::new();
    for_each_case(|i, c| {
        let mut o = run_case(&c);
        o["i"] = json!(i);
        out.put(&o);
    });
}

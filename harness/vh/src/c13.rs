//! C13 push ruleset edits: replay of every (state, operation) pair emitted by TLC, and recording of
//! long random operation sequences on a real `Ruleset` for trace validation.
use rand::{seq::SliceRandom, Rng};
use ruma_common::{
    push::{
        Action, ConditionalPushRule, NewConditionalPushRule, NewPatternedPushRule, NewPushRule, NewSimplePushRule,
        PatternedPushRule, PushCondition, RuleKind, Ruleset, SimplePushRule,
    },
    OwnedRoomId, OwnedUserId, RoomId, UserId,
};
use serde_json::{json, Value};

use crate::util::*;

fn actions(n: u64) -> Vec<Action> {
    (0..n).map(|_| Action::Notify).collect()
}
fn conditions(n: u64) -> Vec<PushCondition> {
    (0..n).map(|i| PushCondition::EventMatch { key: "k".into(), pattern: format!("p{i}") }).collect()
}

/// (id, default, enabled, payload, act)
type Row = (String, bool, bool, u64, u64);

fn rows_of(v: &Value) -> Vec<Row> {
    v.as_array()
        .unwrap()
        .iter()
        .map(|r| {
            let r = r.as_array().unwrap();
            (from_cps(&r[0]), r[1].as_bool().unwrap(), r[2].as_bool().unwrap(), r[3].as_u64().unwrap(), r[4].as_u64().unwrap())
        })
        .collect()
}

fn cond_rule(r: &Row) -> ConditionalPushRule {
    let mut x = ConditionalPushRule::from(NewConditionalPushRule::new(r.0.clone(), conditions(r.3), actions(r.4)));
    x.default = r.1;
    x.enabled = r.2;
    x
}
fn pat_rule(r: &Row) -> PatternedPushRule {
    let mut x = PatternedPushRule::from(NewPatternedPushRule::new(r.0.clone(), "p".repeat(r.3 as usize), actions(r.4)));
    x.default = r.1;
    x.enabled = r.2;
    x
}

pub fn project(rs: &Ruleset, kind: &str) -> Vec<Row> {
    match kind {
        "override" => rs.override_.iter().map(|r| (r.rule_id.clone(), r.default, r.enabled, r.conditions.len() as u64, r.actions.len() as u64)).collect(),
        "underride" => rs.underride.iter().map(|r| (r.rule_id.clone(), r.default, r.enabled, r.conditions.len() as u64, r.actions.len() as u64)).collect(),
        "content" => rs.content.iter().map(|r| (r.rule_id.clone(), r.default, r.enabled, r.pattern.chars().count() as u64, r.actions.len() as u64)).collect(),
        "room" => rs.room.iter().map(|r| (r.rule_id.to_string(), r.default, r.enabled, 0, r.actions.len() as u64)).collect(),
        "sender" => rs.sender.iter().map(|r| (r.rule_id.to_string(), r.default, r.enabled, 0, r.actions.len() as u64)).collect(),
        _ => unreachable!(),
    }
}

fn kind_of(kind: &str) -> RuleKind {
    match kind {
        "override" => RuleKind::Override,
        "underride" => RuleKind::Underride,
        "content" => RuleKind::Content,
        "room" => RuleKind::Room,
        "sender" => RuleKind::Sender,
        _ => unreachable!(),
    }
}

fn build(kind: &str, rows: &[Row]) -> Ruleset {
    let mut rs = Ruleset::new();
    for r in rows {
        match kind {
            "override" => {
                rs.override_.insert(cond_rule(r));
            }
            "underride" => {
                rs.underride.insert(cond_rule(r));
            }
            "content" => {
                rs.content.insert(pat_rule(r));
            }
            _ => unreachable!(),
        }
    }
    rs
}

pub struct Op {
    pub op: String,
    pub id: String,
    pub p: u64,
    pub after: Option<String>,
    pub before: Option<String>,
    pub en: bool,
}

fn anchor(v: &Value) -> Option<String> {
    let s = from_cps(v);
    if s == "\0" {
        None
    } else {
        Some(s)
    }
}

/// Build the NewPushRule for `kind`; None when the id is not representable for the kind (room / sender ids).
fn new_rule(kind: &str, id: &str, p: u64) -> Option<NewPushRule> {
    Some(match kind {
        "override" => NewPushRule::Override(NewConditionalPushRule::new(id.to_owned(), conditions(p), actions(p))),
        "underride" => NewPushRule::Underride(NewConditionalPushRule::new(id.to_owned(), conditions(p), actions(p))),
        "content" => NewPushRule::Content(NewPatternedPushRule::new(id.to_owned(), "p".repeat(p as usize), actions(p))),
        "room" => NewPushRule::Room(NewSimplePushRule::new(OwnedRoomId::from(<&RoomId>::try_from(id).ok()?), actions(p))),
        "sender" => NewPushRule::Sender(NewSimplePushRule::new(OwnedUserId::from(<&UserId>::try_from(id).ok()?), actions(p))),
        _ => unreachable!(),
    })
}

/// Perform `op` on `rs`; returns "ok" | "err" | "panic".
pub fn perform(rs: &mut Ruleset, kind: &str, op: &Op) -> &'static str {
    let r = guard(|| match op.op.as_str() {
        "insert" => {
            let rule = new_rule(kind, &op.id, op.p).expect("representable id");
            rs.insert(rule, op.after.as_deref(), op.before.as_deref()).is_ok()
        }
        "remove" => rs.remove(kind_of(kind), &op.id).is_ok(),
        "enable" => rs.set_enabled(kind_of(kind), &op.id, op.en).is_ok(),
        "actions" => rs.set_actions(kind_of(kind), &op.id, actions(op.p)).is_ok(),
        _ => unreachable!(),
    });
    match r {
        Ok(true) => "ok",
        Ok(false) => "err",
        Err(_) => "panic",
    }
}

pub fn replay(_args: &[String]) {
    let mut out = Out::new();
    let mut n = 0u64;
    let mut nbad = 0u64;
    for_each_case(|i, c| {
        let kinds: &[&str] = if c["ovr"].as_bool().unwrap() { &["override"] } else { &["underride", "content"] };
        let pre = rows_of(&c["pre"]);
        let posts: Vec<Vec<Row>> = c["posts"].as_array().unwrap().iter().map(rows_of).collect();
        let err = c["err"].as_str().unwrap();
        let op = Op {
            op: c["op"].as_str().unwrap().to_owned(),
            id: from_cps(&c["id"]),
            p: c["p"].as_u64().unwrap(),
            after: anchor(&c["after"]),
            before: anchor(&c["before"]),
            en: c["en"].as_bool().unwrap(),
        };
        for kind in kinds {
            n += 1;
            let mut rs = build(kind, &pre);
            let res = perform(&mut rs, kind, &op);
            let post = project(&rs, kind);
            let other_kinds_empty = ["override", "underride", "content", "room", "sender"]
                .iter()
                .all(|k| k == kind || project(&rs, k).is_empty());
            let class = if res == "panic" {
                Some("panic")
            } else if !other_kinds_empty {
                Some("other-kind-touched")
            } else {
                match err {
                    "ok" => {
                        if res != "ok" {
                            Some("error-on-valid-call")
                        } else if !posts.contains(&post) {
                            Some("wrong-result-state")
                        } else {
                            None
                        }
                    }
                    "any" => {
                        if res == "err" && post != pre {
                            Some("error-not-atomic")
                        } else if res == "ok" && !posts.contains(&post) {
                            Some("wrong-result-state")
                        } else {
                            None
                        }
                    }
                    _ => {
                        if res != "err" {
                            Some("invalid-call-accepted")
                        } else if post != pre {
                            Some("error-not-atomic")
                        } else {
                            None
                        }
                    }
                }
            };
            if let Some(class) = class {
                nbad += 1;
                out.put(&json!({"i": i, "kind": kind, "class": format!("{}/{}", op.op, class), "case": c, "res": res,
                                "post": post.iter().map(|r| json!([r.0, r.1, r.2, r.3, r.4])).collect::<Vec<_>>()}));
            }
        }
    });
    out.put(&json!({"summary": {"executed": n, "mismatches": nbad}}));
}

fn rows_json(rows: &[Row], simple: bool) -> Value {
    Value::Array(
        rows.iter()
            .map(|r| json!({"id": cps(&r.0), "default": r.1, "enabled": r.2, "payload": if simple { 0 } else { r.3 }, "act": r.4}))
            .collect(),
    )
}

const KINDS: &[&str] = &["override", "underride", "content", "room", "sender"];

/// The rule `get_match` selects for the probe event: payload 1 is the only payload whose conditions / pattern match it
/// (conditions(1) = [k == "p0"], pattern "p" against the body "p"); room and sender rules match by their id.
fn first_match(rs: &Ruleset) -> Value {
    use ruma_common::push::{AnyPushRuleRef, PushConditionRoomCtx};
    let ev: ruma_common::serde::Raw<Value> = ruma_common::serde::Raw::new(&json!({
        "type": "m.room.message", "room_id": "!a:s.co", "sender": "@a:s.co", "event_id": "$e", "k": "p0",
        "content": {"msgtype": "m.text", "body": "p"}})).unwrap();
    let ctx = PushConditionRoomCtx {
        room_id: OwnedRoomId::try_from("!a:s.co").unwrap(),
        member_count: js_int::uint!(3),
        user_id: OwnedUserId::try_from("@me:s.co").unwrap(),
        user_display_name: "zz".into(),
        power_levels: None,
    };
    match guard(|| rs.get_match(&ev, &ctx).map(|r| {
        let kind = match &r {
            AnyPushRuleRef::Override(_) => "override",
            AnyPushRuleRef::Content(_) => "content",
            AnyPushRuleRef::Room(_) => "room",
            AnyPushRuleRef::Sender(_) => "sender",
            AnyPushRuleRef::Underride(_) => "underride",
            _ => "other",
        };
        (kind.to_owned(), r.rule_id().to_owned())
    })) {
        Ok(Some((k, id))) => json!({"kind": k, "id": cps(&id)}),
        Ok(None) => json!({"kind": "none", "id": [0]}),
        Err(_) => json!({"kind": "panic", "id": [0]}),
    }
}

/// impl -> spec: long random walks on one Ruleset; every call is logged with its arguments, result class
/// and the projected list of the kind it addressed.
pub fn record(args: &[String]) {
    let runs = arg_usize(args, "--runs", 20);
    let steps = arg_usize(args, "--steps", 200);
    let mut rng = rng(13);
    let mut out = Out::new();
    let plain_ids = ["a", "b", "c", "d", "e", "", "a.b", "é", "A"];
    let bad_ids = ["a/b", "a\\", "/", ".x", ".m.rule.master", ".m.rule.suppress_notices", ".m.rule.message", ".m.rule.contains_user_name"];
    let room_ids = ["!a:s.co", "!b:s.co", "!c:s.co", "!d/e:s.co", "!e\\f:s.co"];
    let user_ids = ["@a:s.co", "@b:s.co", "@c:s.co", "@d/e:s.co", "@f:s.co"];
    let mut l = 0u64;
    for run in 0..runs {
        let mut rs = if run % 2 == 0 { Ruleset::new() } else { Ruleset::server_default(<&UserId>::try_from("@u:s.co").unwrap()) };
        l += 1;
        let mut init = json!({"l": l, "ev": "reset", "plain": run % 2 == 0, "match": first_match(&rs)});
        for k in KINDS {
            init[*k] = rows_json(&project(&rs, k), matches!(*k, "room" | "sender"));
        }
        out.put(&init);
        for _ in 0..steps {
            let kind = *KINDS.choose(&mut rng).unwrap();
            let simple = matches!(kind, "room" | "sender");
            let existing: Vec<String> = project(&rs, kind).into_iter().map(|r| r.0).collect();
            let pick_id = |rng: &mut rand::rngs::StdRng, for_rule: bool| -> String {
                if !existing.is_empty() && rng.gen_bool(0.45) {
                    return existing.choose(rng).unwrap().clone();
                }
                match kind {
                    "room" if for_rule || rng.gen_bool(0.7) => room_ids.choose(rng).unwrap().to_string(),
                    "sender" if for_rule || rng.gen_bool(0.7) => user_ids.choose(rng).unwrap().to_string(),
                    _ => {
                        if rng.gen_bool(0.8) {
                            plain_ids.choose(rng).unwrap().to_string()
                        } else {
                            bad_ids.choose(rng).unwrap().to_string()
                        }
                    }
                }
            };
            let opname = *["insert", "insert", "insert", "remove", "enable", "actions"].choose(&mut rng).unwrap();
            let mut id = pick_id(&mut rng, opname == "insert");
            if opname == "insert" && simple && new_rule(kind, &id, 1).is_none() {
                id = if kind == "room" { "!a:s.co".into() } else { "@a:s.co".into() };
            }
            let after = if opname == "insert" && rng.gen_bool(0.45) { Some(pick_id(&mut rng, false)) } else { None };
            let before = if opname == "insert" && rng.gen_bool(0.35) { Some(pick_id(&mut rng, false)) } else { None };
            let op = Op { op: opname.to_owned(), id, p: rng.gen_range(1..=3), after, before, en: rng.gen_bool(0.5) };
            let res = perform(&mut rs, kind, &op);
            l += 1;
            let none = vec![0u32];
            out.put(&json!({
                "l": l, "ev": "call", "kind": kind, "ovr": kind == "override", "simple": simple,
                "op": op.op, "id": cps(&op.id), "p": op.p,
                "after": op.after.as_deref().map(cps).unwrap_or(none.clone()),
                "before": op.before.as_deref().map(cps).unwrap_or(none.clone()),
                "en": op.en, "res": res,
                "post": rows_json(&project(&rs, kind), simple),
                "match": first_match(&rs),
            }));
        }
    }
}

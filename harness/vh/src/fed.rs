//! Federation.tla receipts replayed through real PDUs: every event of the registry becomes real JSON, hashed and signed by its
//! sender's server (hash_and_sign_event), its event ID is its reference hash; the receiving server holds its copies in full or
//! redacted (redact); the incoming PDU is altered as the model says and then goes through verify_event, redact (on a content
//! hash mismatch), reference_hash and three auth_check calls (own auth events, state before, current state).
use std::collections::{BTreeMap, HashMap};

use ruma_common::{
    canonical_json::redact, room_version_rules::RoomVersionRules, serde::Base64, CanonicalJsonObject, CanonicalJsonValue,
    OwnedEventId, OwnedRoomId, OwnedUserId, RoomVersionId,
};
use ruma_events::{StateEventType, TimelineEventType};
use ruma_signatures::{hash_and_sign_event, reference_hash, verify_event, PublicKeyMap, Verified};
use ruma_state_res::auth_check;
use serde_json::{json, Value};

use crate::pdu::*;
use crate::util::*;

fn rules(v: u64) -> RoomVersionRules {
    RoomVersionId::try_from(v.to_string().as_str()).unwrap().rules().unwrap()
}

fn seed_of(server: &str) -> u8 {
    if server == "s1" { 21 } else { 22 }
}

fn server_of(user: &str) -> &str {
    user.split_once(':').map(|x| x.1).unwrap_or("s1")
}

fn key_map() -> PublicKeyMap {
    let mut m: PublicKeyMap = BTreeMap::new();
    for s in ["s1", "s2"] {
        let mut set = BTreeMap::new();
        set.insert("ed25519:1".to_owned(), Base64::new(keypair(seed_of(s), "1").public_key().to_vec()));
        m.insert(s.to_owned(), set);
    }
    m
}

fn cj(v: Value) -> CanonicalJsonValue {
    CanonicalJsonValue::try_from(v).expect("canonical")
}

/// A Pdu read back from the JSON a server holds (full or redacted).
fn pdu_from_json(o: &CanonicalJsonObject, id: &OwnedEventId) -> Result<Pdu, String> {
    let v = serde_json::to_value(o).map_err(|e| e.to_string())?;
    let s = |k: &str| v.get(k).and_then(|x| x.as_str()).ok_or_else(|| format!("missing {k}"));
    let ids = |k: &str| -> Vec<OwnedEventId> {
        v.get(k).and_then(|x| x.as_array()).map(|l| l.iter().filter_map(|x| x.as_str()).filter_map(|x| OwnedEventId::try_from(x).ok()).collect()).unwrap_or_default()
    };
    Ok(Pdu {
        event_id: id.clone(),
        room_id: OwnedRoomId::try_from(s("room_id")?).map_err(|e| e.to_string())?,
        sender: OwnedUserId::try_from(s("sender")?).map_err(|e| e.to_string())?,
        ts: v.get("origin_server_ts").and_then(|x| x.as_u64()).unwrap_or(0),
        ty: TimelineEventType::from(s("type")?),
        content: serde_json::value::to_raw_value(v.get("content").unwrap_or(&json!({}))).map_err(|e| e.to_string())?,
        state_key: v.get("state_key").and_then(|x| x.as_str()).map(|x| x.to_owned()),
        prev: ids("prev_events"),
        auth: ids("auth_events"),
        redacts: None,
    })
}

fn check(r: &RoomVersionRules, e: &Pdu, state: &HashMap<(String, String), Pdu>) -> String {
    match guard(|| auth_check(&r.authorization, e, |ty: &StateEventType, key: &str| state.get(&(ty.to_string(), key.to_owned())).cloned())) {
        Ok(Ok(())) => "allow".to_owned(),
        Ok(Err(_)) => "reject".to_owned(),
        Err(p) => format!("panic: {p}"),
    }
}

fn run_case(c: &Value) -> Result<Value, String> {
    let v = c["v"].as_u64().unwrap();
    let r = rules(v);
    let events: Vec<&Value> = c["events"].as_array().unwrap().iter().collect();
    // real PDUs in an order in which every referenced event exists already
    let mut real: HashMap<String, (CanonicalJsonObject, OwnedEventId)> = HashMap::new();
    let mut depth = 0u64;
    while real.len() < events.len() {
        let before = real.len();
        for x in &events {
            let id = x["id"].as_str().unwrap();
            if real.contains_key(id) {
                continue;
            }
            let refs = |k: &str| -> Option<Vec<String>> {
                x[k].as_array().unwrap().iter().map(|p| real.get(p.as_str().unwrap()).map(|(_, rid)| rid.to_string())).collect()
            };
            let (Some(prev), Some(auth)) = (refs("prev"), refs("auth")) else { continue };
            depth += 1;
            let ty = x["type"].as_str().unwrap();
            let sender = x["sender"].as_str().unwrap();
            let mut content = content_of(ty, &x["c"], v);
            if ty == "m.room.topic" {
                content = json!({"topic": format!("topic {}", x["c"]["tag"])});
            }
            let mut o = json!({"type": ty, "room_id": "!r:s1", "sender": sender, "origin_server_ts": x["ts"].as_u64().unwrap_or(0) + 1_700_000_000_000,
                               "content": content, "depth": depth, "prev_events": prev, "auth_events": auth, "unsigned": {"age": 1}});
            if x["haskey"].as_bool().unwrap() {
                o["state_key"] = x["key"].clone();
            }
            let mut obj: CanonicalJsonObject = serde_json::from_value(o).map_err(|e| e.to_string())?;
            let server = server_of(sender).to_owned();
            hash_and_sign_event(&server, &keypair(seed_of(&server), "1"), &mut obj, &r.redaction).map_err(|e| format!("sign: {e}"))?;
            // a restricted join is also signed by the server of the authorising user
            let ja = x["c"].get("jauth").and_then(|j| j.as_str()).unwrap_or("");
            if !ja.is_empty() && server_of(ja) != server {
                let s2 = server_of(ja).to_owned();
                hash_and_sign_event(&s2, &keypair(seed_of(&s2), "1"), &mut obj, &r.redaction).map_err(|e| format!("sign: {e}"))?;
            }
            let rid = OwnedEventId::try_from(format!("${}", reference_hash(&obj, &r).map_err(|e| format!("hash: {e}"))?)).map_err(|e| e.to_string())?;
            real.insert(id.to_owned(), (obj, rid));
        }
        if real.len() == before {
            return Err("events are not well founded".into());
        }
    }
    // what the receiving server holds
    let mut held: HashMap<String, Pdu> = HashMap::new();
    for (id, form) in c["view"].as_object().unwrap() {
        let (obj, rid) = &real[id];
        let copy = if form == "redacted" { redact(obj.clone(), &r.redaction, None).map_err(|e| format!("redact: {e}"))? } else { obj.clone() };
        held.insert(id.clone(), pdu_from_json(&copy, rid)?);
    }
    // the incoming PDU, altered in flight
    let id = c["id"].as_str().unwrap();
    let (orig, rid) = &real[id];
    let mut inc = orig.clone();
    let sender_server = server_of(inc["sender"].as_str().unwrap()).to_owned();
    match c["tamper"].as_str().unwrap() {
        "unsigned" => { inc.insert("unsigned".into(), cj(json!({"age": 99, "prev_content": {"evil": true}}))); }
        "unprotected" => {
            inc.insert("x_added_in_flight".into(), cj(json!(1)));
            if let Some(CanonicalJsonValue::Object(content)) = inc.get_mut("content") {
                let ty = c["events"].as_array().unwrap().iter().find(|x| x["id"] == id).unwrap()["type"].as_str().unwrap().to_owned();
                match ty.as_str() {
                    "m.room.member" => { content.insert("displayname".into(), cj(json!("evil"))); }
                    "m.room.power_levels" => {
                        content.insert("notifications".into(), cj(json!({"room": 0})));
                        if !r.redaction.keep_room_power_levels_invite {
                            content.insert("invite".into(), cj(json!(100)));
                        }
                    }
                    "m.room.create" => {
                        if !r.redaction.keep_room_create_content {
                            content.insert("m.federate".into(), cj(json!(false)));
                        }
                    }
                    "m.room.topic" => { content.insert("topic".into(), cj(json!("evil"))); }
                    _ => { content.insert("x".into(), cj(json!(1))); }
                }
            }
        }
        "protected" => { inc.insert("origin_server_ts".into(), cj(json!(1_700_000_009_999u64))); }
        "nosig" => {
            if let Some(CanonicalJsonValue::Object(sigs)) = inc.get_mut("signatures") {
                sigs.remove(&sender_server);
            }
        }
        _ => {}
    }
    let verdict = guard(|| verify_event(&key_map(), &inc, &r));
    let (form, inc) = match verdict {
        Err(p) => return Ok(json!({"result": "panic", "panic": p})),
        Ok(Err(_)) => return Ok(json!({"result": "dropped"})),
        Ok(Ok(Verified::All)) => ("full", inc),
        Ok(Ok(Verified::Signatures)) => ("redacted", redact(inc, &r.redaction, None).map_err(|e| format!("redact: {e}"))?),
    };
    // the event ID does not depend on what was altered
    let rid2 = reference_hash(&inc, &r).map(|h| format!("${h}")).unwrap_or_default();
    let e = pdu_from_json(&inc, rid)?;
    let state_of = |list: &Value| -> HashMap<(String, String), Pdu> {
        list.as_array().unwrap().iter().filter_map(|t| {
            let p = held.get(t[2].as_str().unwrap())?;
            Some(((t[0].as_str().unwrap().to_owned(), t[1].as_str().unwrap().to_owned()), p.clone()))
        }).collect()
    };
    let mut own: HashMap<(String, String), Pdu> = HashMap::new();
    for a in &e.auth {
        if let Some(p) = held.values().find(|p| &p.event_id == a) {
            own.insert((p.ty.to_string(), p.state_key.clone().unwrap_or_default()), p.clone());
        }
    }
    let by_auth = check(&r, &e, &own);
    let by_before = check(&r, &e, &state_of(&c["before"]));
    let by_cur = check(&r, &e, &state_of(&c["current"]));
    let result = if by_auth != "allow" { "rejected_by_auth_events" } else if by_before != "allow" { "rejected_by_state_before" }
                 else if by_cur != "allow" { "soft_failed" } else { "accepted" };
    Ok(json!({"result": result, "form": form, "id_stable": rid2 == rid.as_str(), "byAuth": by_auth, "byBefore": by_before, "byCur": by_cur}))
}

pub fn replay(_args: &[String]) {
    let mut out = Out::new();
    for_each_case(|i, c| {
        let mut o = match guard(|| run_case(&c)) {
            Ok(Ok(o)) => o,
            Ok(Err(e)) => json!({"result": "harness-error", "error": e}),
            Err(p) => json!({"result": "panic", "panic": p}),
        };
        o["i"] = json!(i);
        out.put(&o);
    });
}

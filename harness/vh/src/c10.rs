//! C10 identifier parsing: all parse forms, accessors, recomposition, constructors.
use std::str::FromStr;

use rand::{seq::SliceRandom, Rng};
use ruma_common::{
    DeviceKeyId, EventId, MxcUri, OwnedDeviceKeyId, OwnedEventId, OwnedMxcUri, OwnedRoomAliasId, OwnedRoomId,
    OwnedRoomOrAliasId, OwnedServerName, OwnedServerSigningKeyId, OwnedUserId, RoomAliasId, RoomId, RoomOrAliasId,
    RoomVersionId, ServerName, ServerSigningKeyId, UserId,
};
use serde_json::{json, Value};

use crate::util::*;

fn expand(runs: &Value) -> String {
    let mut s = String::new();
    for r in runs.as_array().unwrap() {
        let c = char::from_u32(r[0].as_u64().unwrap() as u32).unwrap();
        for _ in 0..r[1].as_u64().unwrap() {
            s.push(c);
        }
    }
    s
}

fn runs_of(s: &str) -> Value {
    let mut out: Vec<(u32, u64)> = vec![];
    for c in s.chars() {
        match out.last_mut() {
            Some((x, n)) if *x == c as u32 => *n += 1,
            _ => out.push((c as u32, 1)),
        }
    }
    Value::Array(out.into_iter().map(|(c, n)| json!([c, n])).collect())
}

/// Result of one parse form: Ok(stored string) / Err / panic
fn form(name: &str, f: impl FnOnce() -> Option<String>) -> (String, Value) {
    let v = match guard(f) {
        Ok(Some(s)) => json!({"ok": s}),
        Ok(None) => json!({"err": 1}),
        Err(p) => json!({"panic": p}),
    };
    (name.to_owned(), v)
}

macro_rules! forms {
    ($s:expr, $t:ty, $owned:ty) => {{
        let s: &str = $s;
        vec![
            form("borrowed", || <&$t>::try_from(s).ok().map(|x| x.as_str().to_owned())),
            form("owned", || <$t>::parse(s).ok().map(|x| x.as_str().to_owned())),
            form("boxed", || <$t>::parse_box(s).ok().map(|x| x.as_str().to_owned())),
            form("rc", || <$t>::parse_rc(s).ok().map(|x| x.as_str().to_owned())),
            form("arc", || <$t>::parse_arc(s).ok().map(|x| x.as_str().to_owned())),
            form("fromstr", || <$owned>::from_str(s).ok().map(|x| x.as_str().to_owned())),
            form("tryfrom_string", || <$owned>::try_from(s.to_owned()).ok().map(|x| x.as_str().to_owned())),
            form("serde_owned", || serde_json::from_value::<$owned>(json!(s)).ok().map(|x| x.as_str().to_owned())),
            form("serde_box", || serde_json::from_value::<Box<$t>>(json!(s)).ok().map(|x| x.as_str().to_owned())),
        ]
    }};
}

/// accessors of an accepted identifier: parts + whether they recompose to the original string
fn acc(f: impl FnOnce() -> Value) -> Value {
    match guard(f) {
        Ok(v) => v,
        Err(p) => json!({"panic": p}),
    }
}

fn sn_parts(sn: &ServerName) -> Value {
    let host = sn.host().to_owned();
    let port = sn.port();
    let re = match port {
        Some(p) => {
            // the port text is not stored separately: recompose with the original spelling
            let tail = &sn.as_str()[host.len()..];
            tail.strip_prefix(':').map(|t| t.parse::<u16>().ok() == Some(p)).unwrap_or(false)
        }
        None => host == sn.as_str(),
    };
    json!({"host": host, "port": port, "ip": sn.is_ip_literal(), "recompose": re})
}

pub fn observe(kind: &str, s: &str) -> Value {
    let (forms, accessors): (Vec<(String, Value)>, Value) = match kind {
        "server" => (forms!(s, ServerName, OwnedServerName), acc(|| match <&ServerName>::try_from(s) {
            Ok(x) => sn_parts(x),
            Err(_) => json!(null),
        })),
        "user" => (forms!(s, UserId, OwnedUserId), acc(|| match <&UserId>::try_from(s) {
            Ok(x) => {
                let lp = x.localpart().to_owned();
                let sn = x.server_name();
                let _ = x.is_historical();
                let _ = x.validate_strict();
                let _ = x.validate_historical();
                json!({"localpart": lp, "server": sn.as_str(), "sn": sn_parts(sn), "recompose": format!("@{}:{}", lp, sn) == s})
            }
            Err(_) => json!(null),
        })),
        "alias" => (forms!(s, RoomAliasId, OwnedRoomAliasId), acc(|| match <&RoomAliasId>::try_from(s) {
            Ok(x) => {
                let lp = x.alias().to_owned();
                let sn = x.server_name();
                json!({"localpart": lp, "server": sn.as_str(), "sn": sn_parts(sn), "recompose": format!("#{}:{}", lp, sn) == s})
            }
            Err(_) => json!(null),
        })),
        "room" => (forms!(s, RoomId, OwnedRoomId), acc(|| match <&RoomId>::try_from(s) {
            Ok(x) => {
                let sn = x.server_name().map(|n| n.as_str().to_owned());
                let re = match &sn { Some(n) => s.ends_with(&format!(":{n}")), None => true };
                json!({"server": sn, "recompose": re})
            }
            Err(_) => json!(null),
        })),
        "roomoralias" => (forms!(s, RoomOrAliasId, OwnedRoomOrAliasId), acc(|| match <&RoomOrAliasId>::try_from(s) {
            Ok(x) => {
                let sn = x.server_name().map(|n| n.as_str().to_owned());
                let re = x.is_room_id() != x.is_room_alias_id()
                    && x.is_room_id() == s.starts_with('!')
                    && match &sn { Some(n) => s.ends_with(&format!(":{n}")), None => true };
                json!({"server": sn, "recompose": re})
            }
            Err(_) => json!(null),
        })),
        "event" => (forms!(s, EventId, OwnedEventId), acc(|| match <&EventId>::try_from(s) {
            Ok(x) => {
                let lp = x.localpart().to_owned();
                let sn = x.server_name().map(|n| n.as_str().to_owned());
                let re = match &sn { Some(n) => format!("${}:{}", lp, n) == s, None => format!("${}", lp) == s };
                json!({"localpart": lp, "server": sn, "recompose": re})
            }
            Err(_) => json!(null),
        })),
        "serverkey" => (forms!(s, ServerSigningKeyId, OwnedServerSigningKeyId), acc(|| match <&ServerSigningKeyId>::try_from(s) {
            Ok(x) => {
                let a = x.algorithm().to_string();
                let k = x.key_name().as_str().to_owned();
                json!({"algorithm": a, "name": k, "recompose": format!("{a}:{k}") == s})
            }
            Err(_) => json!(null),
        })),
        "devicekey" => (forms!(s, DeviceKeyId, OwnedDeviceKeyId), acc(|| match <&DeviceKeyId>::try_from(s) {
            Ok(x) => {
                let a = x.algorithm().to_string();
                let k = x.key_name().as_str().to_owned();
                json!({"algorithm": a, "name": k, "recompose": format!("{a}:{k}") == s})
            }
            Err(_) => json!(null),
        })),
        "clientsecret" => (forms!(s, ruma_common::ClientSecret, ruma_common::OwnedClientSecret), acc(|| match <&ruma_common::ClientSecret>::try_from(s) {
            Ok(x) => json!({"recompose": x.as_str() == s}),
            Err(_) => json!(null),
        })),
        "sessionid" => (forms!(s, ruma_common::SessionId, ruma_common::OwnedSessionId), acc(|| match <&ruma_common::SessionId>::try_from(s) {
            Ok(x) => json!({"recompose": x.as_str() == s}),
            Err(_) => json!(null),
        })),
        "b64key" => {
            // a public key as the name of a cross-signing key ID, by itself and behind the algorithm
            let full = format!("ed25519:{s}");
            let mut f = forms!(s, ruma_common::Base64PublicKey, ruma_common::OwnedBase64PublicKey);
            f.push(form("cross_signing_key_id", || <&ruma_common::CrossSigningKeyId>::try_from(full.as_str()).ok().map(|x| x.key_name().as_str().to_owned())));
            (f, acc(|| match <&ruma_common::Base64PublicKey>::try_from(s) {
                Ok(x) => json!({"recompose": x.as_str() == s}),
                Err(_) => json!(null),
            }))
        }
        "mxc" => {
            // MxcUri is unchecked at construction: acceptance is validate()
            let f = vec![
                form("validate", || { let m: &MxcUri = s.into(); m.validate().ok().map(|_| m.as_str().to_owned()) }),
                form("is_valid", || { let m: OwnedMxcUri = s.into(); if m.is_valid() { Some(m.as_str().to_owned()) } else { None } }),
                form("parts", || { let m: &MxcUri = s.into(); m.parts().ok().map(|_| m.as_str().to_owned()) }),
                form("serde_owned", || serde_json::from_value::<OwnedMxcUri>(json!(s)).ok().and_then(|m| if m.is_valid() { Some(m.as_str().to_owned()) } else { None })),
            ];
            (f, acc(|| { let m: &MxcUri = s.into(); match m.parts() {
                Ok((sn, media)) => {
                    let same = m.server_name().ok().map(|x| x.as_str()) == Some(sn.as_str()) && m.media_id().ok() == Some(media);
                    json!({"server": sn.as_str(), "sn": sn_parts(sn), "media": media, "recompose": same && format!("mxc://{}/{}", sn, media) == s})
                }
                Err(_) => json!(null),
            }}))
        }
        "version" => {
            let f = vec![
                form("tryfrom_str", || RoomVersionId::try_from(s).ok().map(|v| v.as_str().to_owned())),
                form("tryfrom_string", || RoomVersionId::try_from(s.to_owned()).ok().map(|v| v.as_str().to_owned())),
                form("fromstr", || RoomVersionId::from_str(s).ok().map(|v| v.as_str().to_owned())),
                form("serde_owned", || serde_json::from_value::<RoomVersionId>(json!(s)).ok().map(|v| v.as_str().to_owned())),
            ];
            (f, acc(|| match RoomVersionId::try_from(s) {
                Ok(v) => { let _ = v.rules(); json!({"recompose": v.to_string() == s && String::from(v) == s}) }
                Err(_) => json!(null),
            }))
        }
        _ => unreachable!(),
    };
    let mut fo = serde_json::Map::new();
    for (k, v) in forms {
        fo.insert(k, v);
    }
    json!({"forms": fo, "acc": accessors})
}

pub fn replay(_args: &[String]) {
    let mut out = Out::new();
    for_each_case(|i, c| {
        let s = expand(&c["runs"]);
        let mut o = observe(c["kind"].as_str().unwrap(), &s);
        o["i"] = json!(i);
        out.put(&o);
    });
}

fn short_id(s: &str) -> String {
    if s.len() > 60 { format!("{}..({} bytes)..{}", &s[..20], s.len(), &s[s.len() - 12..]) } else { s.to_owned() }
}

/// Constructors fed with valid components must produce identifiers their own parser accepts.
pub fn ctors(_args: &[String]) {
    let mut out = Out::new();
    let servers = ["s.co", "s.co:8448", "[::1]", "[::1]:80", "1.2.3.4", "a-b.c"];
    let mut n = 0;
    let mut put = |what: &str, r: Result<(String, bool), String>| {
        n += 1;
        out.put(&match r {
            Ok((s, ok)) => json!({"ctor": what, "id": s, "accepted": ok}),
            Err(p) => json!({"ctor": what, "panic": p}),
        });
    };
    for sv in servers {
        let sn: &ServerName = <&ServerName>::try_from(sv).unwrap();
        put("UserId::new", guard(|| { let x = UserId::new(sn); (x.to_string(), <&UserId>::try_from(x.as_str()).is_ok()) }));
        put("RoomId::new", guard(|| { let x = RoomId::new(sn); (x.to_string(), <&RoomId>::try_from(x.as_str()).is_ok()) }));
        put("EventId::new", guard(|| { let x = EventId::new(sn); (x.to_string(), <&EventId>::try_from(x.as_str()).is_ok()) }));
        for lp in ["a", "a.b=_-/+", "0", "A", "é"] {
            put("UserId::parse_with_server_name", guard(|| match UserId::parse_with_server_name(lp, sn) {
                Ok(x) => (x.to_string(), <&UserId>::try_from(x.as_str()).is_ok() && x.localpart() == lp && x.server_name() == sn),
                Err(_) => (format!("(rejected {lp})"), true),
            }));
            let full = format!("@{lp}:{sv}");
            put("UserId::parse_with_server_name(full)", guard(|| match UserId::parse_with_server_name(full.as_str(), sn) {
                Ok(x) => (x.to_string(), x.as_str() == full),
                Err(_) => (format!("(rejected {full})"), true),
            }));
        }
    }
    // components that are valid by themselves but long: the result must still be an identifier of at most 255 bytes
    // (or the constructor must refuse)
    for n in [200usize, 230, 236, 242, 250, 255] {
        let host = format!("{}.co", "a".repeat(n - 3));
        let sn: &ServerName = <&ServerName>::try_from(host.as_str()).unwrap();
        let tag = if n <= 230 { "server-name-of-up-to-230-bytes" } else { "server-name-longer-than-230-bytes" };
        put(&format!("UserId::new/{tag}"), guard(|| { let x = UserId::new(sn); (short_id(x.as_str()), <&UserId>::try_from(x.as_str()).is_ok()) }));
        put(&format!("RoomId::new/{tag}"), guard(|| { let x = RoomId::new(sn); (short_id(x.as_str()), <&RoomId>::try_from(x.as_str()).is_ok()) }));
        put(&format!("EventId::new/{tag}"), guard(|| { let x = EventId::new(sn); (short_id(x.as_str()), <&EventId>::try_from(x.as_str()).is_ok()) }));
    }
    let sn: &ServerName = <&ServerName>::try_from("s.co").unwrap();
    for n in [10usize, 249, 250, 251, 300, 600] {
        let lp = "a".repeat(n);
        // "@" + localpart + ":s.co" has n + 6 bytes
        let fits = n + 6 <= 255;
        let ok_of = |r: Result<String, ()>| -> (String, bool) {
            match r {
                Ok(x) => (short_id(&x), <&UserId>::try_from(x.as_str()).is_ok()),
                Err(()) => (format!("(rejected localpart of {n} bytes)"), !fits),     // refusing a localpart that fits is wrong too
            }
        };
        put("UserId::parse_with_server_name/long-localpart", guard(|| ok_of(UserId::parse_with_server_name(lp.as_str(), sn).map(|x| x.to_string()).map_err(|_| ()))));
        put("UserId::parse_with_server_name_rc/long-localpart", guard(|| ok_of(UserId::parse_with_server_name_rc(lp.as_str(), sn).map(|x| x.to_string()).map_err(|_| ()))));
        put("UserId::parse_with_server_name_arc/long-localpart", guard(|| ok_of(UserId::parse_with_server_name_arc(lp.as_str(), sn).map(|x| x.to_string()).map_err(|_| ()))));
    }
    // key IDs from an algorithm and a key name: every value of the (open) algorithm enums is a component
    for alg in ["ed25519", "org.example.alg", "", "a:b"] {
        let tag = if alg.is_empty() || alg.contains(':') { "custom-algorithm-empty-or-with-colon" } else { "algorithm-name" };
        put(&format!("DeviceKeyId::from_parts/{tag}"), guard(|| {
            let x = ruma_common::DeviceKeyId::from_parts(ruma_common::DeviceKeyAlgorithm::from(alg), <&ruma_common::DeviceId>::from("DEV"));
            (x.to_string(), <&ruma_common::DeviceKeyId>::try_from(x.as_str()).is_ok_and(|y| y.algorithm().as_ref() == alg && y.key_name() == "DEV"))
        }));
        put(&format!("ServerSigningKeyId::from_parts/{tag}"), guard(|| {
            let v = <&ruma_common::ServerSigningKeyVersion>::try_from("1").unwrap();
            let x = ServerSigningKeyId::from_parts(ruma_common::SigningKeyAlgorithm::from(alg), v);
            (x.to_string(), <&ServerSigningKeyId>::try_from(x.as_str()).is_ok_and(|y| y.algorithm().as_ref() == alg && y.key_name() == "1"))
        }));
    }
    for (alg, name) in [("ed25519", "1"), ("ed25519", "a_b"), ("ed25519", "AAAA")] {
        put("ServerSigningKeyId::from_parts", guard(|| {
            let v = <&ruma_common::ServerSigningKeyVersion>::try_from(name).unwrap();
            let x = ServerSigningKeyId::from_parts(alg.into(), v);
            (x.to_string(), <&ServerSigningKeyId>::try_from(x.as_str()).is_ok() && x.as_str() == format!("{alg}:{name}"))
        }));
    }
}

/// impl -> spec: single-edit mutants of valid seeds and unstructured strings; TLC recomputes the verdict.
pub fn record(args: &[String]) {
    let n = arg_usize(args, "--n", 2000);
    let mut rng = rng(10);
    let mut out = Out::new();
    let seeds: &[(&str, &[&str])] = &[
        ("server", &["example.org", "example.org:8448", "1.2.3.4:80", "[::1]", "[1234:5678::abcd]:8448", "a"]),
        ("user", &["@alice:example.org", "@a.b=_-/+:s.co:80", "@Alice:[::1]", "@a:1.2.3.4"]),
        ("alias", &["#room:example.org", "#a b:s.co", "#é:[::1]:80"]),
        ("room", &["!abc:example.org", "!abc", "!a:b:c"]),
        ("roomoralias", &["!abc:example.org", "#room:example.org"]),
        ("event", &["$abc:example.org", "$acR1XbJFEEwrjHKWgxGRrsmBOtNqsCdxZx3I4AXNdKw", "$a:s.co:80"]),
        ("serverkey", &["ed25519:1", "ed25519:a_b"]),
        ("devicekey", &["ed25519:DEVICE", "curve25519:ABC DEF"]),
        ("mxc", &["mxc://example.org/abc", "mxc://s.co:80/A-Z_09", "mxc://[::1]/x"]),
        ("version", &["1", "11", "org.matrix.msc1234"]),
    ];
    let pool: Vec<char> = "@!#$:[]/.-+=_ aZ09\0\x1f\x7fé\u{FF18}\u{1F600}%".chars().collect();
    for i in 0..n {
        let (kind, list) = seeds.choose(&mut rng).unwrap();
        let seed: Vec<char> = list.choose(&mut rng).unwrap().chars().collect();
        let mut s: Vec<char> = seed.clone();
        match rng.gen_range(0..6) {
            0 => { if !s.is_empty() { let k = rng.gen_range(0..s.len()); s.remove(k); } }
            1 => { if !s.is_empty() { let k = rng.gen_range(0..s.len()); let c = s[k]; s.insert(k, c); } }
            2 => { if !s.is_empty() { let k = rng.gen_range(0..s.len()); s[k] = *pool.choose(&mut rng).unwrap(); } }
            3 => { let k = rng.gen_range(0..=s.len()); s.insert(k, *pool.choose(&mut rng).unwrap()); }
            4 => {
                // stretch one character so that the byte length lands near 255 / 256 / 512
                if !s.is_empty() {
                    let k = rng.gen_range(0..s.len());
                    let c = if rng.gen_bool(0.5) { s[k] } else { 'a' };
                    let cur: usize = s.iter().map(|c| c.len_utf8()).sum();
                    let target = *[253usize, 254, 255, 256, 257, 258, 511, 512, 513].choose(&mut rng).unwrap();
                    let add = target.saturating_sub(cur) / c.len_utf8();
                    for _ in 0..add { s.insert(k, c); }
                }
            }
            _ => { s = (0..rng.gen_range(0..12)).map(|_| *pool.choose(&mut rng).unwrap()).collect(); }
        }
        let text: String = s.into_iter().collect();
        let o = observe(kind, &text);
        // summarise: accepted by the primary form, all forms agree, stored byte-for-byte, accessors fine
        let forms = o["forms"].as_object().unwrap();
        let oks: Vec<bool> = forms.values().map(|v| v.get("ok").is_some()).collect();
        let panic = forms.values().any(|v| v.get("panic").is_some()) || o["acc"].get("panic").is_some();
        let agree = oks.iter().all(|b| *b == oks[0]);
        let stored = forms.values().all(|v| v.get("ok").map(|s| s.as_str() == Some(text.as_str())).unwrap_or(true));
        let recompose = o["acc"].get("recompose").and_then(|b| b.as_bool()).unwrap_or(true)
            && o["acc"].get("sn").and_then(|sn| sn.get("recompose")).and_then(|b| b.as_bool()).unwrap_or(true);
        out.put(&json!({"i": i + 1, "kind": kind, "runs": runs_of(&text), "accepted": oks[0], "agree": agree, "stored": stored,
                        "recompose": recompose, "panic": panic}));
    }
}

//! C01 canonical JSON: every spelling of a value through every entry point.
use std::collections::BTreeMap;
use std::fmt::Write as _;

use rand::{seq::SliceRandom, Rng};
use ruma_common::{
    canonical_json::{to_canonical_value, try_from_json_map},
    CanonicalJsonObject, CanonicalJsonValue,
};
use serde_json::{json, Value};

use crate::util::*;

pub const BAD_NUMBERS: &[&str] = &["0", "1.0", "1e2", "-0", "0.5", "1E+2", "-0.0", "1.5e300", "1e-2"];

fn push_char(out: &mut String, cp: u32, spelling: u32) {
    let c = char::from_u32(cp).expect("scalar");
    let short = match c {
        '"' => Some("\\\""),
        '\\' => Some("\\\\"),
        '\u{8}' => Some("\\b"),
        '\u{c}' => Some("\\f"),
        '\n' => Some("\\n"),
        '\r' => Some("\\r"),
        '\t' => Some("\\t"),
        _ => None,
    };
    let u_escape = |out: &mut String, upper: bool| {
        let mut buf = [0u16; 2];
        for unit in c.encode_utf16(&mut buf) {
            if upper {
                write!(out, "\\u{:04X}", unit).unwrap();
            } else {
                write!(out, "\\u{:04x}", unit).unwrap();
            }
        }
    };
    match spelling {
        // 0: raw wherever JSON allows it, lower-case \u00xx for the controls without short escape
        0 => match short {
            Some(s) => out.push_str(s),
            None if cp < 0x20 => u_escape(out, false),
            None => out.push(c),
        },
        // 1: short escapes, everything outside printable ASCII as upper-case \uXXXX (surrogate pairs), "\/"
        1 => match short {
            Some(s) => out.push_str(s),
            None if c == '/' => out.push_str("\\/"),
            None if cp < 0x20 || cp > 0x7e => u_escape(out, true),
            None => out.push(c),
        },
        // 2: every character as lower-case \uXXXX
        2 => u_escape(out, false),
        // 3: like 0 but the mandatory escapes spelled \u00XX (upper-case) where that is legal
        _ => {
            if cp < 0x20 || c == '"' || c == '\\' {
                u_escape(out, true)
            } else {
                out.push(c)
            }
        }
    }
}

fn ws(out: &mut String, spelling: u32, k: usize) {
    match spelling {
        1 => out.push_str([" ", "\n", "\t", "\r\n "][k % 4]),
        2 => out.push_str(["  ", " \t", "\n\n", " "][k % 4]),
        _ => {}
    }
}

/// Renders the tagged value of the model as JSON text in the given spelling.
pub fn render(v: &Value, spelling: u32, out: &mut String) {
    if let Some(o) = v.get("o") {
        out.push('{');
        ws(out, spelling, 1);
        for (i, m) in o.as_array().unwrap().iter().enumerate() {
            if i > 0 {
                out.push(',');
                ws(out, spelling, i);
            }
            out.push('"');
            for c in m["k"].as_array().unwrap() {
                push_char(out, c.as_u64().unwrap() as u32, spelling);
            }
            out.push('"');
            ws(out, spelling, 2);
            out.push(':');
            ws(out, spelling, 3);
            render(&m["v"], spelling, out);
            ws(out, spelling, 0);
        }
        out.push('}');
    } else if let Some(a) = v.get("a") {
        out.push('[');
        ws(out, spelling, 2);
        for (i, x) in a.as_array().unwrap().iter().enumerate() {
            if i > 0 {
                out.push(',');
                ws(out, spelling, i + 1);
            }
            render(x, spelling, out);
        }
        ws(out, spelling, 1);
        out.push(']');
    } else if let Some(s) = v.get("s") {
        out.push('"');
        for c in s.as_array().unwrap() {
            push_char(out, c.as_u64().unwrap() as u32, spelling);
        }
        out.push('"');
    } else if let Some(d) = v.get("i") {
        if v["neg"].as_bool().unwrap() {
            out.push('-');
        }
        for x in d.as_array().unwrap() {
            out.push(char::from(b'0' + x.as_u64().unwrap() as u8));
        }
    } else if let Some(n) = v.get("bad") {
        out.push_str(BAD_NUMBERS[n.as_u64().unwrap() as usize]);
    } else if let Some(b) = v.get("b") {
        out.push_str(if b.as_bool().unwrap() { "true" } else { "false" });
    } else if v.get("z").is_some() {
        out.push_str("null");
    } else {
        panic!("bad tagged value");
    }
}

fn outcome<T: AsRef<[u8]>>(r: Result<Option<T>, String>) -> String {
    match r {
        Ok(Some(b)) => format!("ok:{}", b.as_ref().iter().map(|x| x.to_string()).collect::<Vec<_>>().join(",")),
        Ok(None) => "err".to_owned(),
        Err(p) => format!("panic:{p}"),
    }
}

/// All entry points on one text: returns (entry name, outcome) pairs.
pub fn entry_points(text: &str) -> Vec<(String, String)> {
    let mut res = vec![];
    // (a) Deserialize for CanonicalJsonValue, then Display / Serialize / to_canonical_value
    let parsed = guard(|| serde_json::from_str::<CanonicalJsonValue>(text).ok());
    match &parsed {
        Ok(Some(v)) => {
            res.push(("de+display".into(), outcome(guard(|| Some(v.to_string().into_bytes())))));
            res.push(("de+serialize".into(), outcome(guard(|| serde_json::to_vec(v).ok()))));
            res.push(("de+to_canonical_value".into(), outcome(guard(|| to_canonical_value(v).ok().map(|c| c.to_string().into_bytes())))));
            // parsing the output back gives an equal value
            res.push(("de+parseback".into(), outcome(guard(|| {
                let out = v.to_string();
                match serde_json::from_str::<CanonicalJsonValue>(&out) {
                    Ok(w) if &w == v => Some(out.into_bytes()),
                    _ => Some(b"PARSEBACK-DIFFERS".to_vec()),
                }
            }))));
        }
        Ok(None) => res.push(("de".into(), "err".into())),
        Err(p) => res.push(("de".into(), format!("panic:{p}"))),
    }
    // (b) serde_json::Value first, then TryFrom / to_canonical_value
    res.push(("value+try_from".into(), outcome(guard(|| {
        let v: Value = serde_json::from_str(text).ok()?;
        CanonicalJsonValue::try_from(v).ok().map(|c| c.to_string().into_bytes())
    }))));
    res.push(("value+to_canonical_value".into(), outcome(guard(|| {
        let v: Value = serde_json::from_str(text).ok()?;
        to_canonical_value(v).ok().map(|c| c.to_string().into_bytes())
    }))));
    // (c) objects: CanonicalJsonObject, try_from_json_map, ruma_signatures::canonical_json
    if text.trim_start().starts_with('{') {
        res.push(("sign:signatures::canonical_json".into(), outcome(guard(|| {
            let o: CanonicalJsonObject = serde_json::from_str(text).ok()?;
            ruma_signatures::canonical_json(&o).ok().map(|s| s.into_bytes())
        }))));
        res.push(("map+try_from_json_map".into(), outcome(guard(|| {
            let m: serde_json::Map<String, Value> = serde_json::from_str(text).ok()?;
            try_from_json_map(m).ok().map(|o| CanonicalJsonValue::Object(o).to_string().into_bytes())
        }))));
    }
    res
}

pub fn replay(_args: &[String]) {
    let mut out = Out::new();
    for_each_case(|i, c| {
        let mut distinct: BTreeMap<String, Vec<String>> = BTreeMap::new();
        let mut signing: BTreeMap<String, Vec<String>> = BTreeMap::new();
        let mut texts = vec![];
        for sp in 0..4u32 {
            let mut text = String::new();
            render(&c["v"], sp, &mut text);
            for (name, oc) in entry_points(&text) {
                // the signing form has its own expected bytes
                if name.starts_with("sign:") {
                    signing.entry(oc).or_default().push(format!("{sp}:{name}"));
                } else {
                    distinct.entry(oc).or_default().push(format!("{sp}:{name}"));
                }
            }
            texts.push(text);
        }
        out.put(&json!({"i": i, "outcomes": distinct, "signing": signing, "text0": texts[0], "text1": texts[1]}));
    });
}

// ---------------------------------------------------------------------------------------------
// impl -> spec: random nested values and spellings; the value travels in the tagged form so that TLC
// recomputes Canon.
fn gen_str(rng: &mut rand::rngs::StdRng) -> Vec<u32> {
    let pool: &[u32] = &[97, 98, 66, 34, 92, 47, 0, 1, 8, 9, 10, 12, 13, 31, 32, 127, 128, 233, 0x7ff, 0x800, 0x2028, 0xd7ff, 0xe000,
                         0xfffd, 0xffff, 0x10000, 0x1f600, 0x10ffff];
    let n = rng.gen_range(0..5);
    (0..n).map(|_| if rng.gen_bool(0.8) { *pool.choose(rng).unwrap() } else {
        loop { let c = rng.gen_range(0..0x110000u32); if char::from_u32(c).is_some() { break c; } }
    }).collect()
}

fn gen_val(rng: &mut rand::rngs::StdRng, depth: u32) -> Value {
    let k = if depth >= 4 { rng.gen_range(0..5) } else { rng.gen_range(0..8) };
    match k {
        0 => json!({"z": 0}),
        1 => json!({"b": rng.gen_bool(0.5)}),
        2 | 3 => {
            let choices: &[&str] = &["0", "1", "7", "42", "9007199254740990", "9007199254740991", "9007199254740992", "9007199254740993",
                                     "9223372036854775807", "9223372036854775808", "18446744073709551615", "18446744073709551616",
                                     "18446744073709551614", "100000000000000000000000"];
            let d: String = if rng.gen_bool(0.6) { choices.choose(rng).unwrap().to_string() } else { rng.gen_range(0..u64::MAX).to_string() };
            json!({"i": d.bytes().map(|b| (b - b'0') as u32).collect::<Vec<_>>(), "neg": rng.gen_bool(0.4)})
        }
        4 => {
            if rng.gen_bool(0.15) { json!({"bad": rng.gen_range(1..BAD_NUMBERS.len())}) } else { json!({"s": gen_str(rng)}) }
        }
        5 => json!({"a": (0..rng.gen_range(0..4)).map(|_| gen_val(rng, depth + 1)).collect::<Vec<_>>()}),
        _ => {
            let n = rng.gen_range(0..5);
            let mut keys: Vec<Vec<u32>> = (0..n).map(|_| {
                // the members that signing removes at the top level, and their neighbours in the sort order
                if rng.gen_bool(0.25) { ["signatures", "unsigned", "s", "t", "hashes", "v"].choose(rng).unwrap().chars().map(|c| c as u32).collect() } else { gen_str(rng) }
            }).collect();
            if n >= 2 && rng.gen_bool(0.3) {
                let dup = keys[0].clone();
                keys[n - 1] = dup;
            }
            json!({"o": keys.into_iter().map(|k| json!({"k": k, "v": gen_val(rng, depth + 1)})).collect::<Vec<_>>()})
        }
    }
}

pub fn record(args: &[String]) {
    let n = arg_usize(args, "--n", 1000);
    let mut rng = rng(1);
    let mut out = Out::new();
    for i in 0..n {
        let v = gen_val(&mut rng, 0);
        let sp = rng.gen_range(0..4u32);
        let mut text = String::new();
        render(&v, sp, &mut text);
        let mut eps = entry_points(&text);
        let panic = eps.iter().any(|(_, o)| o.starts_with("panic"));
        let signed: Vec<String> = eps.iter().filter(|(n, _)| n.starts_with("sign:")).map(|(_, o)| o.clone()).collect();
        eps.retain(|(n, _)| !n.starts_with("sign:"));
        let (sign, sbytes): (&str, Vec<u32>) = match signed.first() {
            Some(f) if f.starts_with("ok:") => ("ok", if f.len() > 3 { f[3..].split(',').map(|x| x.parse().unwrap()).collect() } else { vec![] }),
            _ => ("none", vec![]),
        };
        let mut oks: Vec<&String> = eps.iter().map(|(_, o)| o).filter(|o| o.starts_with("ok:")).collect();
        oks.sort();
        oks.dedup();
        let nerr = eps.iter().filter(|(_, o)| o.as_str() == "err").count();
        let kind = if oks.len() > 1 { "diverge" } else if oks.len() == 1 && nerr == 0 { "ok" } else if oks.len() == 1 { "mixed" } else { "err" };
        let bytes: Vec<u32> = match oks.first() {
            Some(f) if f.len() > 3 => f[3..].split(',').map(|x| x.parse().unwrap()).collect(),
            _ => vec![],
        };
        out.put(&json!({"i": i + 1, "v": v, "spelling": sp, "kind": kind, "bytes": bytes, "panic": panic, "sign": sign, "sbytes": sbytes}));
    }
}

//! C19 string enums: conversions and pairwise order/equality of every listed enum type.
use std::fmt::Debug;

use rand::{seq::SliceRandom, Rng};
use serde::{de::DeserializeOwned, Serialize};
use serde_json::{json, Value};

use crate::util::*;

const CUSTOM_PROBE: &str = "\u{1}definitely.not.a.known.spelling";

fn conv<T>(name: &str, s: &str) -> Value
where
    T: for<'a> From<&'a str> + From<String> + ToString + Serialize + DeserializeOwned + Debug + PartialEq,
{
    let r = guard(|| {
        let v = T::from(s);
        let out = v.to_string();
        let custom = std::mem::discriminant(&v) == std::mem::discriminant(&T::from(CUSTOM_PROBE));
        let ser = serde_json::to_value(&v).ok().and_then(|j| j.as_str().map(|x| x.to_owned())).unwrap_or_else(|| "<not a string>".into());
        let de = serde_json::from_value::<T>(json!(s)).map(|d| d.to_string()).unwrap_or_else(|e| format!("<error {e}>"));
        let again = T::from(out.as_str());
        let idem = again == v && again.to_string() == out;
        let fromstring = T::from(s.to_owned()).to_string();
        let dbg = format!("{v:?}");
        json!({"kind": "conv", "enum": name, "s": s, "out": out, "custom": custom, "display": format!("{v}", v = v.to_string()), "ser": ser, "de": de,
               "idem": idem, "fromstring": fromstring, "debug_has_string": dbg.contains(&out) || out.is_empty() || dbg.contains("\\"), "panic": false})
    });
    r.unwrap_or_else(|p| json!({"kind": "conv", "enum": name, "s": s, "out": "", "custom": false, "display": "", "ser": "", "de": "", "idem": false,
                                "fromstring": "", "panic": true, "msg": p}))
}

fn pair_ord<T>(name: &str, a: &str, b: &str) -> Value
where
    T: for<'a> From<&'a str> + ToString + Ord,
{
    let r = guard(|| {
        let (x, y) = (T::from(a), T::from(b));
        let (sa, sb) = (x.to_string(), y.to_string());
        let cmp = match x.cmp(&y) { std::cmp::Ordering::Less => -1, std::cmp::Ordering::Equal => 0, std::cmp::Ordering::Greater => 1 };
        let partial = match x.partial_cmp(&y) { Some(std::cmp::Ordering::Less) => -1, Some(std::cmp::Ordering::Equal) => 0, Some(std::cmp::Ordering::Greater) => 1, None => 9 };
        json!({"kind": "pair", "enum": name, "a": sa, "b": sb, "eq": x == y, "lt": x < y, "cmp": cmp, "partial": partial, "strless": sa < sb, "panic": false})
    });
    r.unwrap_or_else(|p| json!({"kind": "pair", "enum": name, "a": a, "b": b, "eq": false, "lt": false, "cmp": 9, "partial": 9, "strless": false, "panic": true, "msg": p}))
}

fn pair_eq<T>(name: &str, a: &str, b: &str) -> Value
where
    T: for<'a> From<&'a str> + ToString + PartialEq,
{
    let r = guard(|| {
        let (x, y) = (T::from(a), T::from(b));
        let (sa, sb) = (x.to_string(), y.to_string());
        let less = sa < sb;
        // no Ord: only equality is observable; the order fields repeat the string order so that PairLaw reduces to eq
        json!({"kind": "pair", "enum": name, "a": sa, "b": sb, "eq": x == y, "lt": less, "cmp": if sa == sb { 0 } else if less { -1 } else { 1 },
               "partial": if sa == sb { 0 } else if less { -1 } else { 1 }, "strless": less, "panic": false})
    });
    r.unwrap_or_else(|p| json!({"kind": "pair", "enum": name, "a": a, "b": b, "eq": false, "lt": false, "cmp": 9, "partial": 9, "strless": false, "panic": true, "msg": p}))
}

type ConvFn = fn(&str, &str) -> Value;
type PairFn = fn(&str, &str, &str) -> Value;
pub struct EnumOps {
    pub name: &'static str,
    pub conv: ConvFn,
    pub pair: PairFn,
    pub has_ord: bool,
}

macro_rules! e_ord {
    ($name:literal, $t:ty) => { EnumOps { name: $name, conv: conv::<$t>, pair: pair_ord::<$t>, has_ord: true } };
}
macro_rules! e_eq {
    ($name:literal, $t:ty) => { EnumOps { name: $name, conv: conv::<$t>, pair: pair_eq::<$t>, has_ord: false } };
}

pub fn enums() -> Vec<EnumOps> {
    use ruma_common as c;
    use ruma_events as ev;
    vec![
        e_eq!("MembershipState", ev::room::member::MembershipState),
        e_eq!("HistoryVisibility", ev::room::history_visibility::HistoryVisibility),
        e_eq!("GuestAccess", ev::room::guest_access::GuestAccess),
        e_eq!("PresenceState", c::presence::PresenceState),
        e_ord!("RuleKind", c::push::RuleKind),
        e_eq!("PushFormat", c::push::PushFormat),
        e_eq!("RoomType", c::room::RoomType),
        e_ord!("EventEncryptionAlgorithm", c::EventEncryptionAlgorithm),
        e_ord!("SigningKeyAlgorithm", c::SigningKeyAlgorithm),
        e_ord!("DeviceKeyAlgorithm", c::DeviceKeyAlgorithm),
        e_ord!("OneTimeKeyAlgorithm", c::OneTimeKeyAlgorithm),
        e_ord!("ReceiptType", ev::receipt::ReceiptType),
        e_ord!("TagName", ev::tag::TagName),
        e_eq!("RelationType", ev::relation::RelationType),
        e_eq!("Medium", c::thirdparty::Medium),
        e_eq!("CancelCode", ev::key::verification::cancel::CancelCode),
        e_ord!("StateEventType", ev::StateEventType),
        e_ord!("MessageLikeEventType", ev::MessageLikeEventType),
        e_ord!("TimelineEventType", ev::TimelineEventType),
        e_ord!("GlobalAccountDataEventType", ev::GlobalAccountDataEventType),
        e_ord!("RoomAccountDataEventType", ev::RoomAccountDataEventType),
        e_ord!("EphemeralRoomEventType", ev::EphemeralRoomEventType),
        e_ord!("ToDeviceEventType", ev::ToDeviceEventType),
        e_eq!("VerificationMethod", ev::key::verification::VerificationMethod),
        e_eq!("KeyAgreementProtocol", ev::key::verification::KeyAgreementProtocol),
        e_eq!("HashAlgorithm", ev::key::verification::HashAlgorithm),
        e_eq!("MessageAuthenticationCode", ev::key::verification::MessageAuthenticationCode),
        e_eq!("ShortAuthenticationString", ev::key::verification::ShortAuthenticationString),
        e_ord!("PredefinedOverrideRuleId", c::push::PredefinedOverrideRuleId),
        e_ord!("PredefinedContentRuleId", c::push::PredefinedContentRuleId),
        e_ord!("PredefinedUnderrideRuleId", c::push::PredefinedUnderrideRuleId),
        e_eq!("StreamPurpose", ev::call::StreamPurpose),
        e_eq!("HangupReason", ev::call::hangup::Reason),
        e_eq!("KeyUsage", c::encryption::KeyUsage),
        e_ord!("SecretName", ev::secret::request::SecretName),
        e_ord!("KeyDerivationAlgorithm", c::KeyDerivationAlgorithm),
        e_eq!("KeyRequestAction", ev::room_key_request::Action),
        e_eq!("TokenType", c::authentication::TokenType),
        e_eq!("PublicRoomJoinRule", c::directory::PublicRoomJoinRule),
        e_eq!("SpaceRoomJoinRule", c::space::SpaceRoomJoinRule),
        e_eq!("StateResJoinRule", ruma_state_res::events::JoinRule),
        e_ord!("ThumbnailMethod", c::media::Method),
        e_eq!("MessageFormat", ev::room::message::MessageFormat),
        e_eq!("ServerNoticeType", ev::room::message::ServerNoticeType),
        e_eq!("LimitType", ev::room::message::LimitType),
        e_eq!("Recommendation", ev::policy::rule::Recommendation),
    ]
}

fn near_misses(s: &str, rng: &mut rand::rngs::StdRng) -> Vec<String> {
    let mut v = vec![s.to_uppercase(), format!("{s} "), format!(" {s}"), format!("{s}."), format!("{s}.x"), format!("x{s}"), s.replace('.', "_"), s.replace('_', "."),
                     s.chars().rev().collect(), format!("{s}\u{0}")];
    let chars: Vec<char> = s.chars().collect();
    if !chars.is_empty() {
        let k = rng.gen_range(0..chars.len());
        let mut c = chars.clone();
        c.remove(k);
        v.push(c.into_iter().collect());
        let mut c = chars.clone();
        c[k] = if c[k] == 'x' { 'y' } else { 'x' };
        v.push(c.into_iter().collect());
        let mut c = chars.clone();
        let up: Vec<char> = c[0].to_uppercase().collect();
        c[0] = up[0];
        v.push(c.into_iter().collect());
    }
    v
}

pub fn run(args: &[String]) {
    // stdin: table cases {enum, s}; extra alias strings via --aliases file (one JSON array)
    let nrand = arg_usize(args, "--random", 30);
    let aliases: Vec<String> = arg_val(args, "--aliases").map(|p| serde_json::from_str(&std::fs::read_to_string(p).unwrap()).unwrap()).unwrap_or_default();
    let mut table: std::collections::BTreeMap<String, Vec<String>> = Default::default();
    for_each_case(|_, c| {
        table.entry(c["enum"].as_str().unwrap().to_owned()).or_default().push(c["s"].as_str().unwrap().to_owned());
    });
    let mut rng = rng(19);
    let mut out = Out::new();
    let wild = ["m.secret_storage.key.abc", "m.secret_storage.key.org.example.backup", "m.secret_storage.key.", "m.secret_storage.key", "m.secret_storage.keys",
                "m.secret_storage.key.a.b.c.", "m.secret_storage.key.\u{e9}"];
    let pool: Vec<char> = "abmM._-:*? \u{e9}\u{1F600}0\"\\/".chars().collect();
    for e in enums() {
        let mut strings: Vec<String> = table.get(e.name).cloned().unwrap_or_default();
        let specified = strings.clone();
        for s in &specified {
            strings.extend(near_misses(s, &mut rng));
        }
        strings.extend(aliases.iter().cloned());
        strings.extend(wild.iter().map(|s| s.to_string()));
        strings.push(String::new());
        for _ in 0..nrand {
            let n = rng.gen_range(0..12);
            strings.push((0..n).map(|_| *pool.choose(&mut rng).unwrap()).collect());
        }
        strings.sort();
        strings.dedup();
        for s in &strings {
            out.put(&(e.conv)(e.name, s));
        }
        // pairs: all pairs of specified spellings + custom strings around them, and a sample of the rest
        let mut base: Vec<String> = specified.clone();
        base.extend(["a.custom".to_owned(), "m.zzz.custom".to_owned(), "M.ROOM".to_owned(), "zzzz".to_owned(), "".to_owned(), "m.secret_storage.key.a".to_owned(), "m.secret_storage.key.b".to_owned()]);
        base.extend(aliases.iter().take(6).cloned());
        for a in &base {
            for b in &base {
                out.put(&(e.pair)(e.name, a, b));
            }
        }
    }
    // the join rule of m.room.join_rules is a string enum that carries data for two of its values: through JSON only
    {
        use ruma_events::room::join_rules::JoinRule;
        let mut strings: Vec<String> = table.get("JoinRule").cloned().unwrap_or_default();
        let specified = strings.clone();
        for s in &specified {
            strings.extend(near_misses(s, &mut rng));
        }
        strings.extend(["org.example.custom".to_owned(), "".to_owned(), "\u{e9}".to_owned()]);
        strings.sort();
        strings.dedup();
        for s in &strings {
            let r = guard(|| {
                let v: JoinRule = serde_json::from_value(json!({"join_rule": s, "allow": []})).map_err(|e| e.to_string())?;
                let out = v.as_str().to_owned();
                let custom = matches!(v, JoinRule::_Custom(_));
                let ser = serde_json::to_value(&v).ok().and_then(|j| j.get("join_rule").and_then(|x| x.as_str()).map(|x| x.to_owned())).unwrap_or_else(|| "<cannot be serialized>".into());
                let again: Result<JoinRule, _> = serde_json::from_value(json!({"join_rule": out, "allow": []}));
                let idem = again.as_ref().map(|a| a == &v).unwrap_or(false);
                Ok::<Value, String>(json!({"kind": "conv", "enum": "JoinRule", "s": s, "out": out, "custom": custom, "display": out, "ser": ser, "de": out,
                                          "idem": idem, "fromstring": out, "debug_has_string": true, "panic": false}))
            });
            out.put(&match r {
                Ok(Ok(v)) => v,
                Ok(Err(e)) => json!({"kind": "conv", "enum": "JoinRule", "s": s, "out": format!("<error {e}>"), "custom": true, "display": "", "ser": "", "de": "", "idem": false, "fromstring": "", "panic": false}),
                Err(p) => json!({"kind": "conv", "enum": "JoinRule", "s": s, "out": "", "custom": false, "display": "", "ser": "", "de": "", "idem": false, "fromstring": "", "panic": true, "msg": p}),
            });
        }
    }
    // the same string through the event-type enum of another kind: a timeline type that is converted from a state or
    // message-like type must equal the timeline type made from the string itself
    let mut all: Vec<String> = table.get("StateEventType").cloned().unwrap_or_default();
    all.extend(table.get("MessageLikeEventType").cloned().unwrap_or_default());
    all.extend(["org.example.custom".to_owned(), "m.secret_storage.key.a".to_owned()]);
    all.sort();
    all.dedup();
    for s in &all {
        use ruma_events::{MessageLikeEventType, StateEventType, TimelineEventType};
        let direct = TimelineEventType::from(s.as_str());
        let via: [(&str, Result<TimelineEventType, String>); 2] = [
            ("TimelineEventType(from MessageLikeEventType)", guard(|| TimelineEventType::from(MessageLikeEventType::from(s.as_str())))),
            ("TimelineEventType(from StateEventType)", guard(|| TimelineEventType::from(StateEventType::from(s.as_str())))),
        ];
        for (name, r) in via {
            out.put(&match r {
                Ok(y) => {
                    let (sa, sb) = (direct.to_string(), y.to_string());
                    let cmp = match direct.cmp(&y) { std::cmp::Ordering::Less => -1, std::cmp::Ordering::Equal => 0, std::cmp::Ordering::Greater => 1 };
                    json!({"kind": "pair", "enum": name, "a": sa, "b": sb, "eq": direct == y, "lt": direct < y, "cmp": cmp, "partial": cmp, "strless": sa < sb, "panic": false})
                }
                Err(p) => json!({"kind": "pair", "enum": name, "a": s, "b": s, "eq": false, "lt": false, "cmp": 9, "partial": 9, "strless": false, "panic": true, "msg": p}),
            });
        }
    }
}

//! C02 JSON signing / verification: one implementation test per call of the Signing state machine.
use std::collections::BTreeMap;

use ed25519_dalek::{Signer, SigningKey};
use ruma_common::{serde::Base64, CanonicalJsonObject, CanonicalJsonValue};
use ruma_signatures::{sign_json, verify_json, Ed25519KeyPair, PublicKeyMap, PublicKeySet};
use serde_json::{json, Value};

use crate::pdu::{b64, pkcs8};
use crate::util::*;

/// canonical JSON of the two payloads, written by hand (independent of every library)
fn payload_canonical(p: &str) -> String {
    let z = if BIG.with(|b| b.get()) { format!(r#","z":"{}""#, "a".repeat(70000)) } else { String::new() };
    let n = if LATE.with(|b| b.get()) { ["t", "v", "w"] } else { ["a", "b", "n"] };
    let a = if p == "p0" { 0 } else { 1 };
    format!(r#"{{"{}":{a},"{}":"const","{}":{{"x":[1,{{"y":null}}]}}{z}}}"#, n[0], n[1], n[2])
}

/// The key version as it appears in the key ID: key "2" has a long one (no length limit applies to signing key versions here).
fn version_of(key: &str) -> String {
    if key == "2" { format!("2{}", "_long".repeat(50)) } else { key.to_owned() }
}

thread_local! {
    /// whether the object under test carries a large member (canonical JSON beyond 65535 bytes)
    static BIG: std::cell::Cell<bool> = const { std::cell::Cell::new(false) };
    /// whether the members of the object under test all sort after "signatures"
    static LATE: std::cell::Cell<bool> = const { std::cell::Cell::new(false) };
}

fn seed_of(key: &str) -> u8 {
    if key == "1" { 11 } else { 12 }
}

/// Reference signature: ed25519-dalek called directly on the hand-written canonical bytes.
fn ref_sig(key: &str, msg: &str) -> Vec<u8> {
    let sk = SigningKey::from_bytes(&[seed_of(key); 32]);
    sk.sign(payload_canonical(msg).as_bytes()).to_bytes().to_vec()
}

fn ref_pub(key: &str) -> Vec<u8> {
    SigningKey::from_bytes(&[seed_of(key); 32]).verifying_key().to_bytes().to_vec()
}

fn cj(v: Value) -> CanonicalJsonValue {
    CanonicalJsonValue::try_from(v).unwrap()
}

/// The ways a signature that is "not intact" in the model is realised: a flipped bit early / in the last byte, one byte
/// appended, the last byte dropped, the signature written twice, a signature of the right length for other content.
const DAMAGE_MODES: usize = 6;

/// Concrete object for a model state.
fn build(obj: &Value) -> CanonicalJsonObject {
    build_with(obj, 0)
}

fn build_with(obj: &Value, damage: usize) -> CanonicalJsonObject {
    let mut o = CanonicalJsonObject::new();
    // member names before "signatures" in the sort order, or (LATE) all after it, on both sides of "unsigned"
    let names = if LATE.with(|b| b.get()) { ["t", "v", "w"] } else { ["a", "b", "n"] };
    o.insert(names[0].into(), cj(json!(if obj["payload"] == "p0" { 0 } else { 1 })));
    o.insert(names[1].into(), cj(json!("const")));
    o.insert(names[2].into(), cj(json!({"x": [1, {"y": null}]})));
    if BIG.with(|b| b.get()) {
        o.insert("z".into(), cj(json!("a".repeat(70000))));
    }
    match obj["unsigned"].as_str().unwrap() {
        "u0" => { o.insert("unsigned".into(), cj(json!({"age": 1}))); }
        "u1" => { o.insert("unsigned".into(), cj(json!({"age": 2, "x": "y"}))); }
        _ => {}
    }
    let sigs = &obj["sigs"];
    match sigs["kind"].as_str().unwrap() {
        "bad" => { o.insert("signatures".into(), cj(json!(5))); }
        "map" => {
            let mut m = CanonicalJsonObject::new();
            for (e, ent) in sigs["m"].as_object().unwrap() {
                match ent["kind"].as_str().unwrap() {
                    "bad" => { m.insert(e.clone(), cj(json!(5))); }
                    "map" => {
                        let mut set = CanonicalJsonObject::new();
                        for (k, slot) in ent["slots"].as_object().unwrap() {
                            if slot["present"].as_bool().unwrap() {
                                let mut sig = ref_sig(slot["key"].as_str().unwrap(), slot["msg"].as_str().unwrap());
                                if !slot["intact"].as_bool().unwrap() {
                                    match damage {
                                        0 => sig[5] ^= 1,
                                        1 => sig[63] ^= 0x80,
                                        2 => sig.push(0),
                                        3 => { sig.pop(); }
                                        4 => { let c = sig.clone(); sig.extend(c); }
                                        _ => sig = SigningKey::from_bytes(&[seed_of(slot["key"].as_str().unwrap()); 32]).sign(b"{\"some\":\"other content\"}").to_bytes().to_vec(),
                                    }
                                }
                                set.insert(format!("ed25519:{}", version_of(k)), cj(json!(b64(&sig))));
                            }
                        }
                        if ent["alien"].as_bool().unwrap() {
                            set.insert("x25519:1".into(), cj(json!("AAAA")));
                        }
                        m.insert(e.clone(), CanonicalJsonValue::Object(set));
                    }
                    _ => {}
                }
            }
            o.insert("signatures".into(), CanonicalJsonValue::Object(m));
        }
        _ => {}
    }
    o
}

fn run_case(c: &Value) -> Value {
    let pre = build(&c["pre"]);
    match c["call"].as_str().unwrap() {
        "sign" => {
            let key = c["key"].as_str().unwrap();
            let kp = Ed25519KeyPair::from_der(&pkcs8(seed_of(key)), version_of(key)).unwrap();
            let mut obj = pre.clone();
            let r = guard(|| sign_json(c["entity"].as_str().unwrap(), &kp, &mut obj).is_ok());
            let want = build(&c["post"]);
            match r {
                Ok(ok) => json!({"res": if ok { "ok" } else { "err" }, "post_matches": obj == want,
                                 "post": if obj == want { Value::Null } else { serde_json::to_value(&obj).unwrap() },
                                 "expected_post": if obj == want { Value::Null } else { serde_json::to_value(&want).unwrap() }}),
                Err(p) => json!({"res": "panic", "panic": p}),
            }
        }
        "verify" => {
            let mut map: PublicKeyMap = BTreeMap::new();
            for (e, ks) in c["keys"].as_object().unwrap() {
                let mut set: PublicKeySet = BTreeMap::new();
                for (k, which) in ks.as_object().unwrap() {
                    let w = which.as_str().unwrap();
                    if w != "missing" {
                        set.insert(format!("ed25519:{}", version_of(k)), Base64::new(ref_pub(w)));
                    }
                }
                map.insert(e.clone(), set);
            }
            // every realisation of a damaged signature must be judged alike: the most permissive answer is reported
            let damaged = c["pre"].to_string().contains("\"intact\":false");
            let mut res = json!({"res": "err"});
            for mode in 0..(if damaged { DAMAGE_MODES } else { 1 }) {
                let pre = build_with(&c["pre"], mode);
                match guard(|| verify_json(&map, &pre).is_ok()) {
                    Ok(true) => { res = json!({"res": "ok", "damage_mode": mode}); break; }
                    Ok(false) => {}
                    Err(p) => { res = json!({"res": "panic", "panic": p, "damage_mode": mode}); break; }
                }
            }
            res
        }
        _ => unreachable!(),
    }
}

pub fn replay(_args: &[String]) {
    let mut out = Out::new();
    for_each_case(|i, c| {
        let mut o = run_case(&c);
        // the same case on an object whose canonical form exceeds 65535 bytes (no size limit applies to signed JSON objects);
        // the stricter of the two answers is reported
        if i % 7 == 0 {
            BIG.with(|b| b.set(true));
            let big = run_case(&c);
            BIG.with(|b| b.set(false));
            if big != o {
                o = json!({"res": format!("big-object-differs: {} vs {}", big["res"], o["res"]), "small": o, "big": big});
            }
        }
        // ... and on an object all of whose members sort after "signatures"
        if i % 5 == 0 {
            LATE.with(|b| b.set(true));
            let late = run_case(&c);
            LATE.with(|b| b.set(false));
            let small = if o.get("small").is_some() { o["small"].clone() } else { o.clone() };
            if late != small && o.get("small").is_none() {
                o = json!({"res": format!("late-keys-object-differs: {} vs {}", late["res"], o["res"]), "small": o, "big": late});
            }
        }
        o["i"] = json!(i);
        out.put(&o);
    });
}

/// Known answers binding the primitive: the signature of `{}` published in the ruma documentation, and
/// agreement of ruma's key pair with ed25519-dalek used directly.
pub fn kat(_args: &[String]) {
    let mut out = Out::new();
    // known answer (interoperability): a signature of `{}` made by another implementation's key must verify
    let r = guard(|| {
        let object: CanonicalJsonObject = serde_json::from_str(
            r#"{"signatures":{"domain":{"ed25519:1":"K8280/U9SSy9IVtjBuVeLr+HpOB4BQFWbg+UZaADMtTdGYI7Geitb76LTrr5QV/7Xg4ahLwYGYZzuHGZKM5ZAQ"}}}"#,
        ).unwrap();
        let mut set: PublicKeySet = BTreeMap::new();
        set.insert("ed25519:1".into(), Base64::parse("XGX0JRS2Af3be3knz2fBiRbApjm2Dh61gXDJA8kcJNI").unwrap());
        let mut map: PublicKeyMap = BTreeMap::new();
        map.insert("domain".into(), set);
        verify_json(&map, &object).is_ok()
    });
    out.put(&json!({"kat": "published-signature-of-empty-object-verifies", "got": r.unwrap_or(false), "want": true}));
    for key in ["1", "2"] {
        let kp = Ed25519KeyPair::from_der(&pkcs8(seed_of(key)), key.to_owned()).unwrap();
        out.put(&json!({"kat": format!("pubkey-{key}"), "got": b64(&kp.public_key()), "want": b64(&ref_pub(key))}));
    }
}

//! C14 / C15 HTML sanitiser: grammar-generated documents, trees before / after / re-parsed.
use rand::{seq::SliceRandom, Rng};
use ruma_html::{
    ElementAttributesReplacement, ElementAttributesSchemes, Html, ListBehavior, NameReplacement, NodeData, NodeRef,
    PropertiesNames, SanitizerConfig,
};
use serde_json::{json, Value};

use crate::util::*;

pub const CONFIGS: &[&str] = &[
    "strict", "compat", "strict+noreply", "compat+noreply", "none+noreply", "none", "strict.remove(b)", "strict.ignore(a,i)",
    "strict.allow+(x-foo)", "strict.allow=(b,a)", "compat.noreply.remove(hr)", "compat.remove(hr).noreply", "strict.attrs+(a:data-x)",
    "strict.attrs=(a:href)", "strict.rmattrs(a:target)", "strict.schemes+(a.href:tel)", "strict.schemes=(a.href:tel)",
    "strict.deny(a.href:http)", "strict.classes+(code:x*)", "strict.rmclasses(code:language-evil*)", "strict.depth2", "none.depth3",
    "strict.replace(b->strong)", "none.allow=(b,a).attrs=(a:href).schemes=(a.href:https)", "strict.replaceattrs(a:title->data-x)",
    "compat.schemes=(a.href:tel)", "compat.schemes+(a.href:tel)", "compat.deny(a.href:matrix)", "compat.attrs=(a:href)", "compat.allow=(b,a)",
    "compat.classes=(code:x*)",
];

pub fn config(name: &str) -> SanitizerConfig {
    use ListBehavior::{Add, Override};
    match name {
        "strict" => SanitizerConfig::strict(),
        "compat" => SanitizerConfig::compat(),
        "strict+noreply" => SanitizerConfig::strict().remove_reply_fallback(),
        "compat+noreply" => SanitizerConfig::compat().remove_reply_fallback(),
        "none+noreply" => SanitizerConfig::new().remove_reply_fallback(),
        "none" => SanitizerConfig::new(),
        "strict.remove(b)" => SanitizerConfig::strict().remove_elements(["b"]),
        "strict.ignore(a,i)" => SanitizerConfig::strict().ignore_elements(["a", "i"]),
        "strict.allow+(x-foo)" => SanitizerConfig::strict().allow_elements(["x-foo"], Add),
        "strict.allow=(b,a)" => SanitizerConfig::strict().allow_elements(["b", "a"], Override),
        "compat.noreply.remove(hr)" => SanitizerConfig::compat().remove_reply_fallback().remove_elements(["hr"]),
        "compat.remove(hr).noreply" => SanitizerConfig::compat().remove_elements(["hr"]).remove_reply_fallback(),
        "strict.attrs+(a:data-x)" => SanitizerConfig::strict().allow_attributes([PropertiesNames { parent: "a", properties: &["data-x"] }], Add),
        "strict.attrs=(a:href)" => SanitizerConfig::strict().allow_attributes([PropertiesNames { parent: "a", properties: &["href"] }], Override),
        "strict.rmattrs(a:target)" => SanitizerConfig::strict().remove_attributes([PropertiesNames { parent: "a", properties: &["target"] }]),
        "strict.schemes+(a.href:tel)" => SanitizerConfig::strict().allow_schemes(
            [ElementAttributesSchemes { element: "a", attr_schemes: &[PropertiesNames { parent: "href", properties: &["tel"] }] }], Add),
        "strict.schemes=(a.href:tel)" => SanitizerConfig::strict().allow_schemes(
            [ElementAttributesSchemes { element: "a", attr_schemes: &[PropertiesNames { parent: "href", properties: &["tel"] }] }], Override),
        "strict.deny(a.href:http)" => SanitizerConfig::strict().deny_schemes(
            [ElementAttributesSchemes { element: "a", attr_schemes: &[PropertiesNames { parent: "href", properties: &["http"] }] }]),
        "strict.classes+(code:x*)" => SanitizerConfig::strict().allow_classes([PropertiesNames { parent: "code", properties: &["x*"] }], Add),
        "strict.rmclasses(code:language-evil*)" => SanitizerConfig::strict().remove_classes([PropertiesNames { parent: "code", properties: &["language-evil*"] }]),
        "strict.depth2" => SanitizerConfig::strict().max_depth(2),
        "none.depth3" => SanitizerConfig::new().max_depth(3),
        "strict.replace(b->strong)" => SanitizerConfig::strict().replace_elements([NameReplacement { old: "b", new: "strong" }], Add),
        "none.allow=(b,a).attrs=(a:href).schemes=(a.href:https)" => SanitizerConfig::new()
            .allow_elements(["b", "a"], Override)
            .allow_attributes([PropertiesNames { parent: "a", properties: &["href"] }], Override)
            .allow_schemes([ElementAttributesSchemes { element: "a", attr_schemes: &[PropertiesNames { parent: "href", properties: &["https"] }] }], Override),
        "strict.replaceattrs(a:title->data-x)" => SanitizerConfig::strict().replace_attributes(
            [ElementAttributesReplacement { element: "a", replacements: &[NameReplacement { old: "title", new: "data-x" }] }], Add),
        "compat.schemes=(a.href:tel)" => SanitizerConfig::compat().allow_schemes(
            [ElementAttributesSchemes { element: "a", attr_schemes: &[PropertiesNames { parent: "href", properties: &["tel"] }] }], Override),
        "compat.schemes+(a.href:tel)" => SanitizerConfig::compat().allow_schemes(
            [ElementAttributesSchemes { element: "a", attr_schemes: &[PropertiesNames { parent: "href", properties: &["tel"] }] }], Add),
        "compat.deny(a.href:matrix)" => SanitizerConfig::compat().deny_schemes(
            [ElementAttributesSchemes { element: "a", attr_schemes: &[PropertiesNames { parent: "href", properties: &["matrix"] }] }]),
        "compat.attrs=(a:href)" => SanitizerConfig::compat().allow_attributes([PropertiesNames { parent: "a", properties: &["href"] }], Override),
        "compat.allow=(b,a)" => SanitizerConfig::compat().allow_elements(["b", "a"], Override),
        "compat.classes=(code:x*)" => SanitizerConfig::compat().allow_classes([PropertiesNames { parent: "code", properties: &["x*"] }], Override),
        _ => panic!("unknown config {name}"),
    }
}

/// Tree of a node through the public node API (iterative over siblings, recursive over depth).
fn dump(node: &NodeRef) -> Value {
    match node.data() {
        NodeData::Text(t) => json!({"k": "text", "name": "", "attrs": [], "kids": [], "text": cps(&t.borrow()), "foreign": false}),
        NodeData::Element(e) => {
            let attrs: Vec<Value> = e.attrs.borrow().iter().map(|a| json!({"n": &*a.name.local, "ns": !a.name.ns.is_empty(), "v": cps(&a.value)})).collect();
            let kids: Vec<Value> = node.children().map(|c| dump(&c)).collect();
            json!({"k": "el", "name": &*e.name.local, "attrs": attrs, "kids": kids, "text": [], "foreign": &*e.name.ns != "http://www.w3.org/1999/xhtml"})
        }
        _ => json!({"k": "other", "name": "", "attrs": [], "kids": [], "text": [], "foreign": false}),
    }
}
fn dump_doc(h: &Html) -> Value {
    Value::Array(h.children().map(|c| dump(&c)).collect())
}

const ELEMENTS: &[&str] = &["b", "i", "a", "img", "code", "span", "div", "p", "ul", "li", "ol", "pre", "h1", "hr", "br", "blockquote",
                            "table", "tr", "td", "font", "strike", "script", "style", "x-foo", "svg", "mx-reply", "details", "summary", "del", "em",
                            "h2", "h3", "h4", "h5", "h6", "sup", "sub", "u", "strong", "s", "thead", "tbody", "th", "caption", "center", "form", "iframe", "math"];
const ATTRS: &[&str] = &["href", "src", "class", "data-x", "alt", "target", "title", "color", "width", "data-mx-color", "data-mx-maths",
                         "onclick", "start", "style", "zzz", "height", "id", "aaa", "xlink:href", "xml:lang"];
const VALUES: &[&str] = &["http://x/", "https://x/", "javascript:alert(1)", "JAVASCRIPT:x", " javascript:x", "mxc://s/m", "matrix:u/a:b", "ftp://x", "mailto:a@b",
                          "magnet:?x", "tel:1", "/rel", "", "x", "language-rust", "language-rust evil", "evil", "language-evil1 language-c", "xy language-a",
                          "1", "#fff", "data:text/html,x", "http:", "httpx://y", "java\tscript:x",
                          // class lists separated by other white space than a space
                          "language-rust\thljs", "language-a\nevil", "evil\x0clanguage-c", "language-x\revil  language-y", "xa\txb"];

fn gen_node(rng: &mut rand::rngs::StdRng, depth: u32, out: &mut String) {
    match rng.gen_range(0..10) {
        0 | 1 => out.push_str(["text", "a &amp; b", " ", "x<y", "&lt;b&gt;", "é"].choose(rng).unwrap()),
        2 => out.push_str(["<!-- c -->", "<!doctype html>", "<![CDATA[x]]>", "<?pi?>"].choose(rng).unwrap()),
        _ => {
            let el = *ELEMENTS.choose(rng).unwrap();
            out.push('<');
            out.push_str(el);
            let mut names: Vec<&str> = ATTRS.iter().copied().filter(|_| rng.gen_bool(0.12)).collect();
            names.shuffle(rng);
            for n in names {
                out.push(' ');
                out.push_str(n);
                out.push_str("=\"");
                out.push_str(VALUES.choose(rng).unwrap());
                out.push('"');
            }
            out.push('>');
            if !matches!(el, "hr" | "br" | "img") {
                if depth < 5 {
                    for _ in 0..rng.gen_range(0..3) {
                        gen_node(rng, depth + 1, out);
                    }
                }
                if rng.gen_bool(0.9) {
                    out.push_str("</");
                    out.push_str(el);
                    out.push('>');
                }
            }
        }
    }
}

/// documents built only from the allow-list (C15 preservation), well nested
fn gen_clean(rng: &mut rand::rngs::StdRng, depth: u32, out: &mut String) {
    if depth > 4 || rng.gen_bool(0.3) {
        out.push_str(["text", "a b", "x"].choose(rng).unwrap());
        return;
    }
    type Spec = (&'static str, &'static [(&'static str, &'static [&'static str])]);
    const CLEAN: &[Spec] = &[
        ("b", &[]), ("i", &[]), ("em", &[]), ("del", &[]), ("span", &[("data-mx-color", &["#fff"]), ("data-mx-spoiler", &["x"])]),
        ("a", &[("href", &["https://x/", "mailto:a@b", "magnet:?x"]), ("target", &["_blank"])]),
        ("code", &[("class", &["language-rust", "language-c language-d"])]), ("blockquote", &[]), ("div", &[("data-mx-maths", &["x"])]),
        ("ol", &[("start", &["3"])]), ("details", &[]), ("sup", &[]), ("sub", &[]), ("u", &[]), ("strong", &[]), ("s", &[]), ("p", &[]),
        ("h1", &[]), ("h2", &[]), ("h3", &[]), ("h4", &[]), ("h5", &[]), ("h6", &[]), ("ul", &[]), ("pre", &[]), ("summary", &[]),
    ];
    let (el, attrs) = *CLEAN.choose(rng).unwrap();
    out.push('<');
    out.push_str(el);
    for (n, vals) in attrs {
        if rng.gen_bool(0.6) {
            out.push_str(&format!(" {n}=\"{}\"", vals.choose(rng).unwrap()));
        }
    }
    out.push('>');
    for _ in 0..rng.gen_range(1..3) {
        gen_clean(rng, depth + 1, out);
    }
    out.push_str(&format!("</{el}>"));
}

fn record(i: usize, doc: &str, cname: &str, kind: &str) -> Value {
    let r = guard(|| {
        let cfg = config(cname);
        let html = Html::parse(doc);
        let before = dump_doc(&html);
        html.sanitize_with(&cfg);
        let after = dump_doc(&html);
        let out = html.to_string();
        let re = Html::parse(&out);
        let reparsed = dump_doc(&re);
        let reser = re.to_string();
        html.sanitize_with(&cfg);
        let twice = dump_doc(&html);
        re.sanitize_with(&cfg);
        let sanre = dump_doc(&re);
        // the convenience entry points must be the named configuration applied to the same text
        let helper_eq = match cname {
            "strict" => ruma_html::sanitize_html(doc, ruma_html::HtmlSanitizerMode::Strict, ruma_html::RemoveReplyFallback::No) == out,
            "compat" => ruma_html::sanitize_html(doc, ruma_html::HtmlSanitizerMode::Compat, ruma_html::RemoveReplyFallback::No) == out,
            "strict+noreply" => ruma_html::sanitize_html(doc, ruma_html::HtmlSanitizerMode::Strict, ruma_html::RemoveReplyFallback::Yes) == out,
            "compat+noreply" => ruma_html::sanitize_html(doc, ruma_html::HtmlSanitizerMode::Compat, ruma_html::RemoveReplyFallback::Yes) == out
                && { let h = Html::parse(doc); h.sanitize(); h.to_string() == out },
            "none+noreply" => ruma_html::remove_html_reply_fallback(doc) == out,
            _ => true,
        };
        json!({"before": before, "after": after, "reparsed": reparsed, "twice_eq": twice == after, "sanre_eq": sanre == reparsed,
               "reser_eq": reser == out, "sanre_text_eq": re.to_string() == reser, "helper_eq": helper_eq, "out": out})
    });
    match r {
        Ok(mut o) => {
            o["i"] = json!(i);
            o["cfg"] = json!(cname);
            o["kind"] = json!(kind);
            o["panic"] = json!(false);
            o
        }
        Err(p) => json!({"i": i, "cfg": cname, "kind": kind, "panic": true, "msg": p, "doc": doc, "before": [], "after": [], "reparsed": [],
                         "twice_eq": false, "sanre_eq": false, "reser_eq": false, "sanre_text_eq": false, "helper_eq": false, "out": ""}),
    }
}

pub fn run(args: &[String]) {
    let n = arg_usize(args, "--n", 1000);
    let mut rng = rng(14);
    let mut out = Out::new();
    let mut i = 0usize;
    // hand-written probes: attribute orders around href/src, nesting at the depth limit
    let mut probes: Vec<String> = vec![
        r#"<a data-x="1" href="javascript:alert(1)">x</a>"#.into(), r#"<img alt="a" src="http://evil/x.png">"#.into(),
        r#"<a href="javascript:x" target="_blank">x</a>"#.into(), r#"<a aaa="1" zzz="2" href="matrix:u/a:b">m</a>"#.into(),
        r#"<mx-reply><blockquote><a href="https://x/">In reply to</a> text</blockquote></mx-reply>after"#.into(),
        r##"<font color="#f00" data-x="1">c<strike>s</strike></font>"##.into(), r#"<code class="language-rust evil">x</code><code class="evil">y</code>"#.into(),
        r#"<script>alert(1)</script><style>x</style><b>ok</b>"#.into(), r#"<p><p>nested</p><a href="https://x/"><a href="https://y/">aa</a></a>"#.into(),
        r#"<table><tr><td>c</td></tr>stray</table>"#.into(), r#"<svg><a href="javascript:x">s</a></svg>"#.into(),
        // attributes in a namespace inside foreign content: written back with their prefix
        r#"<svg><a xlink:href="https://a.b/">t</a></svg>"#.into(), r#"<math><a xlink:href="https://a.b/" xml:lang="en">t</a></math>"#.into(),
        r#"<svg><img xlink:href="mxc://s/m" src="mxc://s/m"></svg><b xml:lang="x">b</b>"#.into(),
    ];
    for d in [1usize, 2, 3, 98, 99, 100, 101, 102, 110] {
        probes.push(format!("{}x{}", "<div>".repeat(d), "</div>".repeat(d)));
        probes.push(format!("{}<b>x</b>{}", "<x-foo>".repeat(d), "</x-foo>".repeat(d)));
    }
    probes.push("<table><caption>cap</caption><thead><tr><th>h</th></tr></thead><tbody><tr><td>c</td></tr></tbody></table>".into());
    probes.push("<ul><li>a</li><li><b>b</b></li></ul><hr><p>x<br>y</p><img src=\"mxc://s/m\" alt=\"a\" title=\"t\" width=\"1\" height=\"2\">".into());
    probes.push("<center><mx-reply><b>q</b></mx-reply>reply</center>".into());
    // elements that the parser accepts inside a table and that the sanitiser unwraps: their text ends up directly in the table
    probes.push("<table><tr><td>one </td></tr><script>two</script></table>".into());
    probes.push("<table><tbody><tr><td>one </td></tr><style>two</style></tbody></table>three".into());
    probes.push("<table><template><td>x</td></template></table>".into());
    // a newline right after the start tag of pre is dropped by the parser: one that is part of the text must be written twice
    probes.push("<font color=\"#ff0000\" data-mx-color=\"#00ff00\">x</font>".into());
    // elements of foreign content that share their local name with an allowed HTML element
    probes.push("<svg><td>x</td></svg>".into());
    probes.push("<math><tr><td>x</td></tr></math>".into());
    probes.push("<p><svg><caption>x</caption><font>f</font><a href=\"https://x/\">a</a></svg></p>".into());
    probes.push("<pre>\n\n\nfn main() {}\n</pre>".into());
    probes.push("<pre><x-foo></x-foo>\nx</pre><p>\nkept</p>".into());
    probes.push("<pre><code class=\"language-rust\">\n\nx</code></pre>".into());
    // the doubled newline belongs to the FIRST child of pre, whatever follows it (element siblings, several text runs)
    probes.push("<pre>\n\nfn main() {}\n<b>done</b></pre>".into());
    probes.push("<pre>\n\nx<b>y</b>\nz</pre>".into());
    probes.push("<pre><b>a</b>\nx</pre>".into());
    probes.push("<pre>\n\n<b>a</b>x</pre>".into());
    probes.push("<x-foo><x-foo><mx-reply>q</mx-reply></x-foo>r</x-foo>".into());
    for p in &probes {
        for c in CONFIGS {
            i += 1;
            out.put(&record(i, p, c, "probe"));
        }
    }
    // cross product: the attributes whose values are interpreted (links, image sources, classes) with every value under every
    // configuration, alone and with a neighbouring attribute sorting before / after them
    for (el, at) in [("a", "href"), ("img", "src"), ("code", "class"), ("span", "class"), ("a", "class"), ("img", "href")] {
        for (vi, v) in VALUES.iter().enumerate() {
            for (ci, c) in CONFIGS.iter().enumerate() {
                let extra = match (vi + ci) % 3 { 0 => "", 1 => " aaa=\"1\"", _ => " zzz=\"2\" alt=\"x\"" };
                let doc = if el == "img" { format!("<{el}{extra} {at}=\"{v}\">") } else { format!("<{el}{extra} {at}=\"{v}\">t</{el}>") };
                i += 1;
                out.put(&record(i, &doc, c, "cross"));
            }
        }
    }
    // every element directly inside a representative of every parent class (kept, ignored, removed, replaced, reply, foreign)
    let parents = ["div", "b", "center", "x-foo", "a href=\"javascript:x\"", "a href=\"https://x/\"", "script", "font color=\"#f00\"", "strike", "mx-reply",
                   "table", "svg", "code class=\"evil\""];
    for (pi, p) in parents.iter().enumerate() {
        let pname = p.split(' ').next().unwrap();
        for (ei, el) in ELEMENTS.iter().enumerate() {
            for (k, c) in ["strict", "compat", "compat+noreply", "none", "strict.replace(b->strong)", "strict.ignore(a,i)"].iter().enumerate() {
                if (pi + ei + k) % 2 == 1 && k >= 2 {
                    continue;
                }
                let attrs = match *el { "font" => " color=\"#0f0\" data-x=\"1\"", "a" => " href=\"https://y/\"", "img" => " src=\"mxc://s/m\"", _ => "" };
                let inner = if matches!(*el, "hr" | "br" | "img") { format!("<{el}{attrs}>") } else { format!("<{el}{attrs}>in<i>ner</i></{el}>") };
                let doc = format!("pre<{p}>{inner} and plain</{pname}>post");
                i += 1;
                out.put(&record(i, &doc, c, "pair"));
            }
        }
    }
    for k in 0..n {
        let mut doc = String::new();
        let clean = k % 4 == 3;
        for _ in 0..rng.gen_range(1..4) {
            if clean { gen_clean(&mut rng, 0, &mut doc) } else { gen_node(&mut rng, 0, &mut doc) }
        }
        let cname = if clean { CONFIGS[k % 4] } else { CONFIGS[rng.gen_range(0..CONFIGS.len())] };
        i += 1;
        out.put(&record(i, &doc, cname, if clean { "clean" } else { "random" }));
    }
}

//! C12 push evaluation: glob / word matching, rule priority, property paths, member count.
use js_int::{int, UInt};
use rand::{seq::SliceRandom, Rng};
use ruma_common::{
    push::{
        Action, ConditionalPushRule, FlattenedJson, FlattenedJsonValue, NewConditionalPushRule, NewPatternedPushRule,
        NewSimplePushRule, PatternedPushRule, PushCondition, PushConditionRoomCtx, RoomMemberCountIs, Ruleset,
        ScalarJsonValue, SimplePushRule,
    },
    serde::Raw,
    OwnedRoomId, OwnedUserId,
};
use serde_json::{json, Value};

use crate::util::*;

fn ctx(display: &str, count: u64) -> PushConditionRoomCtx {
    PushConditionRoomCtx {
        room_id: OwnedRoomId::try_from("!room:s.co").unwrap(),
        member_count: UInt::try_from(count).unwrap(),
        user_id: OwnedUserId::try_from("@me:s.co").unwrap(),
        user_display_name: display.to_owned(),
        power_levels: None,
    }
}

fn flat(ev: &Value) -> FlattenedJson {
    let raw: Raw<Value> = Raw::new(ev).unwrap();
    FlattenedJson::from_raw(&raw)
}

pub fn glob_obs(p: &str, t: &str, lit: bool) -> Value {
    let ev = json!({"sender": "@s:s.co", "type": "m.room.message", "room_id": "!room:s.co", "content": {"x": t, "body": t}});
    let f = flat(&ev);
    let c = ctx("zz", 2);
    let whole = PushCondition::EventMatch { key: "content.x".into(), pattern: p.to_owned() }.applies(&f, &c);
    let word = PushCondition::EventMatch { key: "content.body".into(), pattern: p.to_owned() }.applies(&f, &c);
    let mut o = json!({"whole": whole, "word": word});
    if !p.is_empty() {
        o["dn"] = json!(PushCondition::ContainsDisplayName.applies(&f, &ctx(p, 2)));
    }
    if lit && !p.is_empty() {
        // a content rule is an event_match on content.body
        let mut rs = Ruleset::new();
        rs.content.insert(PatternedPushRule::from(NewPatternedPushRule::new("c".into(), p.to_owned(), vec![Action::Notify])));
        let raw: Raw<Value> = Raw::new(&ev).unwrap();
        o["content_rule"] = json!(rs.get_match(&raw, &c).is_some());
    }
    o
}

/// tagged compact JSON of the model -> serde_json value
fn untag(v: &Value) -> Value {
    if let Some(o) = v.get("o") {
        let mut m = serde_json::Map::new();
        for e in o.as_array().unwrap() {
            m.insert(from_cps(&e["k"]), untag(&e["v"]));
        }
        Value::Object(m)
    } else if let Some(s) = v.get("s") {
        json!(from_cps(s))
    } else if let Some(i) = v.get("i") {
        json!(i.as_i64().unwrap())
    } else if let Some(b) = v.get("b") {
        json!(b.as_bool().unwrap())
    } else if v.get("z").is_some() {
        Value::Null
    } else if let Some(f) = v.get("f") {
        // a number that is not an integer in the range of js_int::Int: 1 -> 1.5, 2 -> 2^53 + 1
        if f.as_i64() == Some(1) { json!(1.5) } else { json!(9007199254740993u64) }
    } else if let Some(a) = v.get("a") {
        Value::Array(a.as_array().unwrap().iter().map(untag).collect())
    } else {
        panic!("bad tagged value {v}")
    }
}

fn scalar(v: &Value) -> ScalarJsonValue {
    match untag(v) {
        Value::String(s) => ScalarJsonValue::String(s),
        Value::Number(n) => ScalarJsonValue::Integer(js_int::Int::try_from(n.as_i64().unwrap()).unwrap()),
        Value::Bool(b) => ScalarJsonValue::Bool(b),
        Value::Null => ScalarJsonValue::Null,
        _ => unreachable!(),
    }
}

fn describe(v: Option<&FlattenedJsonValue>) -> Value {
    match v {
        None => json!({"absent": 1}),
        Some(FlattenedJsonValue::Null) => json!({"z": 0}),
        Some(FlattenedJsonValue::Bool(b)) => json!({"b": b}),
        Some(FlattenedJsonValue::Integer(i)) => json!({"i": i64::from(*i)}),
        Some(FlattenedJsonValue::String(s)) => json!({"s": cps(s)}),
        Some(FlattenedJsonValue::Array(a)) => json!({"a": a.iter().map(|x| match x {
            ScalarJsonValue::Null => json!({"z": 0}),
            ScalarJsonValue::Bool(b) => json!({"b": b}),
            ScalarJsonValue::Integer(i) => json!({"i": i64::from(*i)}),
            ScalarJsonValue::String(s) => json!({"s": cps(s)}),
            _ => json!({"other": 1}),
        }).collect::<Vec<_>>()}),
        Some(FlattenedJsonValue::EmptyObject) => json!({"o": []}),
        Some(_) => json!({"other": 1}),
    }
}

fn run_case(c: &Value) -> Value {
    match c["part"].as_str().unwrap() {
        "glob" => glob_obs(&from_cps(&c["p"]), &from_cps(&c["t"]), c["lit"].as_bool().unwrap()),
        "count" => {
            let s = format!("{}{}", c["op"].as_str().unwrap(), c["n"].as_u64().unwrap());
            let is: RoomMemberCountIs = s.parse().expect("member count");
            let f = flat(&json!({"sender": "@s:s.co", "content": {}}));
            json!({"res": PushCondition::RoomMemberCount { is }.applies(&f, &ctx("zz", c["count"].as_u64().unwrap()))})
        }
        "prio" => {
            let own = c["own"].as_bool().unwrap();
            let mut rs = Ruleset::new();
            let mut ids: Vec<String> = vec![];
            for (i, r) in c["rules"].as_array().unwrap().iter().enumerate() {
                let n = i + 1;
                let m = r["matches"].as_bool().unwrap();
                let en = r["enabled"].as_bool().unwrap();
                let acts: Vec<Action> = (0..n).map(|_| Action::Notify).collect();
                let id = match r["kind"].as_str().unwrap() {
                    k @ ("override" | "underride") => {
                        let conds = if m { vec![] } else { vec![PushCondition::EventMatch { key: "type".into(), pattern: "nomatch".into() }] };
                        let mut x = ConditionalPushRule::from(NewConditionalPushRule::new(format!("r{n}"), conds, acts));
                        x.enabled = en;
                        if k == "override" { rs.override_.insert(x); } else { rs.underride.insert(x); }
                        format!("r{n}")
                    }
                    "content" => {
                        let mut x = PatternedPushRule::from(NewPatternedPushRule::new(format!("r{n}"), if m { "hello".into() } else { "zzz".into() }, acts));
                        x.enabled = en;
                        rs.content.insert(x);
                        format!("r{n}")
                    }
                    "room" => {
                        let id = if m { "!room:s.co".to_owned() } else { format!("!other{n}:s.co") };
                        let mut x = SimplePushRule::from(NewSimplePushRule::new(OwnedRoomId::try_from(id.as_str()).unwrap(), acts));
                        x.enabled = en;
                        rs.room.insert(x);
                        id
                    }
                    "sender" => {
                        let id = if m { (if own { "@me:s.co" } else { "@sender:s.co" }).to_owned() } else { format!("@other{n}:s.co") };
                        let mut x = SimplePushRule::from(NewSimplePushRule::new(OwnedUserId::try_from(id.as_str()).unwrap(), acts));
                        x.enabled = en;
                        rs.sender.insert(x);
                        id
                    }
                    _ => unreachable!(),
                };
                ids.push(id);
            }
            let ev = json!({"sender": if own { "@me:s.co" } else { "@sender:s.co" }, "type": "m.room.message", "room_id": "!room:s.co",
                            "content": {"body": "hello world", "msgtype": "m.text"}});
            let raw: Raw<Value> = Raw::new(&ev).unwrap();
            let c2 = ctx("zz", 2);
            let got = rs.get_match(&raw, &c2).map(|r| r.rule_id().to_owned());
            let idx = got.as_ref().map(|g| ids.iter().position(|x| x == g).map(|p| p + 1).unwrap_or(99)).unwrap_or(0);
            json!({"match": idx, "nactions": rs.get_actions(&raw, &c2).len()})
        }
        "flat" => {
            let mut ev = untag(&c["ev"]);
            ev["sender"] = json!("@s:s.co");
            let f = flat(&ev);
            let cx = ctx("zz", 2);
            let mut leaves = vec![];
            for l in c["leaves"].as_array().unwrap() {
                let path = from_cps(&l["path"]);
                let probes: Vec<Value> = c["probes"].as_array().expect("probes").clone();
                let is: Vec<Value> = probes.iter().filter(|p| PushCondition::EventPropertyIs { key: path.clone(), value: scalar(p) }.applies(&f, &cx)).cloned().collect();
                let contains: Vec<Value> = probes.iter().filter(|p| PushCondition::EventPropertyContains { key: path.clone(), value: scalar(p) }.applies(&f, &cx)).cloned().collect();
                leaves.push(json!({
                    "path": l["path"], "leaf": describe(f.get(&path)),
                    "star": PushCondition::EventMatch { key: path.clone(), pattern: "*".into() }.applies(&f, &cx),
                    "lit": PushCondition::EventMatch { key: path.clone(), pattern: "x".into() }.applies(&f, &cx),
                    "is": is, "contains": contains,
                }));
            }
            let absent: Vec<Value> = c["absent"].as_array().unwrap().iter().filter(|p| f.get(&from_cps(p)).is_none()).cloned().collect();
            json!({"leaves": leaves, "absent": absent})
        }
        _ => unreachable!(),
    }
}

pub fn replay(_args: &[String]) {
    let mut out = Out::new();
    for_each_case(|i, c| {
        let mut o = match guard(|| run_case(&c)) {
            Ok(o) => o,
            Err(p) => json!({"panic": p}),
        };
        o["i"] = json!(i);
        out.put(&o);
    });
}

/// impl -> spec: random longer patterns and bodies; TLC recomputes Glob / WordVerdict.
pub fn record(args: &[String]) {
    let n = arg_usize(args, "--n", 2000);
    let mut rng = rng(12);
    let mut out = Out::new();
    let _ = int!(0);
    let palpha: Vec<char> = "abAB-_ .*?*?xé".chars().collect();
    let talpha: Vec<char> = "abAB-_ .\n,!xéÉ0".chars().collect();
    for i in 0..n {
        // derive the text from the pattern half of the time so that matches are frequent
        let plen = rng.gen_range(0..=6);
        let p: String = (0..plen).map(|_| *palpha.choose(&mut rng).unwrap()).collect();
        let pc: Vec<char> = p.chars().collect();
        let t: String = if !pc.is_empty() && rng.gen_bool(0.25) {
            // repeated partial matches: prefixes of the pattern glued together, then (maybe) the pattern
            let mut s = String::new();
            for _ in 0..rng.gen_range(1..4) {
                let k = rng.gen_range(1..=pc.len());
                s.extend(pc[..k].iter());
                if rng.gen_bool(0.3) { s.push(*talpha.choose(&mut rng).unwrap()); }
            }
            if rng.gen_bool(0.7) { s.extend(pc.iter()); }
            if rng.gen_bool(0.5) { s.push(*talpha.choose(&mut rng).unwrap()); }
            s
        } else if rng.gen_bool(0.6) {
            let mut s = String::new();
            for _ in 0..rng.gen_range(0..3) { s.push(*talpha.choose(&mut rng).unwrap()); }
            for ch in p.chars() {
                match ch {
                    '*' => for _ in 0..rng.gen_range(0..3) { s.push(*talpha.choose(&mut rng).unwrap()); },
                    '?' => s.push(*talpha.choose(&mut rng).unwrap()),
                    c => s.push(if rng.gen_bool(0.3) { c.to_ascii_uppercase() } else { c }),
                }
            }
            for _ in 0..rng.gen_range(0..3) { s.push(*talpha.choose(&mut rng).unwrap()); }
            s
        } else {
            (0..rng.gen_range(0..10)).map(|_| *talpha.choose(&mut rng).unwrap()).collect()
        };
        let lit = !p.contains(['*', '?']);
        let o = match guard(|| glob_obs(&p, &t, lit)) { Ok(o) => o, Err(e) => json!({"panic": e}) };
        out.put(&json!({"i": i + 1, "p": cps(&p), "t": cps(&t), "panic": o.get("panic").is_some(),
                        "whole": o.get("whole").and_then(|b| b.as_bool()).unwrap_or(false),
                        "word": o.get("word").and_then(|b| b.as_bool()).unwrap_or(false),
                        "hasdn": o.get("dn").is_some(),
                        "dn": o.get("dn").and_then(|b| b.as_bool()).unwrap_or(false)}));
    }
}

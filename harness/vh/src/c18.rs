//! C18 typed events: dispatch, accessors, content fixpoints, Raw.
use std::collections::BTreeSet;
use std::fmt;

use ruma_common::serde::Raw;
use ruma_events::{
    AnyEphemeralRoomEventContent, AnyGlobalAccountDataEvent, AnyGlobalAccountDataEventContent, AnyMessageLikeEvent,
    AnyMessageLikeEventContent, AnyRoomAccountDataEvent, AnyRoomAccountDataEventContent, AnyStateEvent, AnyStateEventContent,
    AnyStrippedStateEvent, AnySyncEphemeralRoomEvent, AnySyncMessageLikeEvent, AnySyncStateEvent, AnySyncTimelineEvent,
    AnyTimelineEvent, AnyToDeviceEvent, AnyToDeviceEventContent, EventContentFromType,
};
use serde::de::{Deserialize, Deserializer, MapAccess, SeqAccess, Visitor};
use serde_json::{json, value::RawValue, Value};

use crate::util::*;

const SCHEMAS: &str = include_str!("../../schemas/events.json");

// ---- duplicate-key detection on serialised JSON text
struct NoDup;
impl<'de> Deserialize<'de> for NoDup {
    fn deserialize<D: Deserializer<'de>>(d: D) -> Result<Self, D::Error> {
        struct V;
        impl<'de> Visitor<'de> for V {
            type Value = NoDup;
            fn expecting(&self, f: &mut fmt::Formatter<'_>) -> fmt::Result { f.write_str("json") }
            fn visit_bool<E>(self, _: bool) -> Result<NoDup, E> { Ok(NoDup) }
            fn visit_i64<E>(self, _: i64) -> Result<NoDup, E> { Ok(NoDup) }
            fn visit_u64<E>(self, _: u64) -> Result<NoDup, E> { Ok(NoDup) }
            fn visit_f64<E>(self, _: f64) -> Result<NoDup, E> { Ok(NoDup) }
            fn visit_str<E>(self, _: &str) -> Result<NoDup, E> { Ok(NoDup) }
            fn visit_unit<E>(self) -> Result<NoDup, E> { Ok(NoDup) }
            fn visit_seq<A: SeqAccess<'de>>(self, mut a: A) -> Result<NoDup, A::Error> {
                while a.next_element::<NoDup>()?.is_some() {}
                Ok(NoDup)
            }
            fn visit_map<A: MapAccess<'de>>(self, mut a: A) -> Result<NoDup, A::Error> {
                let mut seen = BTreeSet::new();
                while let Some(k) = a.next_key::<String>()? {
                    if !seen.insert(k.clone()) {
                        return Err(serde::de::Error::custom(format!("duplicate key {k}")));
                    }
                    a.next_value::<NoDup>()?;
                }
                Ok(NoDup)
            }
        }
        d.deserialize_any(V)
    }
}
fn no_duplicate_keys(text: &str) -> bool {
    serde_json::from_str::<NoDup>(text).is_ok()
}

/// every value of `input` that is also present (same path) in `out` is equal there
fn subsumes(out: &Value, input: &Value) -> bool {
    match (out, input) {
        (Value::Object(o), Value::Object(i)) => i.iter().all(|(k, v)| o.get(k).map(|ov| subsumes(ov, v)).unwrap_or(true)),
        (Value::Array(o), Value::Array(i)) => o.len() == i.len() && o.iter().zip(i).all(|(a, b)| subsumes(a, b)),
        (Value::Number(a), Value::Number(b)) => a.as_f64() == b.as_f64(),
        (a, b) => a == b,
    }
}

/// JSON text of a value with object keys in reversed order (serde_json::Value sorts keys)
fn reversed_text(v: &Value) -> String {
    match v {
        Value::Object(m) => format!("{{{}}}", m.iter().rev().map(|(k, v)| format!("{}:{}", serde_json::to_string(k).unwrap(), reversed_text(v))).collect::<Vec<_>>().join(",")),
        Value::Array(a) => format!("[{}]", a.iter().map(reversed_text).collect::<Vec<_>>().join(",")),
        x => x.to_string(),
    }
}

struct Obs {
    ok: bool,
    known: bool,
    redacted: bool,
    type_out: String,
    acc_ok: bool,
    content: Option<Value>, // serialised typed content (original events only)
    err: String,
}

/// the Debug text of the event enums starts with the variant path, e.g. `State(RoomMember(Original(` or `MessageLike(_Custom(`
fn dbg_known(d: &str) -> bool {
    let head: String = d.chars().take(48).collect();
    !head.contains("_Custom(")
}

macro_rules! room_event {
    ($t:ty, $text:expr, $ev:expr, $state:expr, $full:expr) => {{
        match serde_json::from_str::<$t>($text) {
            Err(e) => Obs { ok: false, known: false, redacted: false, type_out: String::new(), acc_ok: false, content: None, err: e.to_string() },
            Ok(x) => {
                let d = format!("{x:?}");
                let ev: &Value = $ev;
                let mut acc_ok = x.sender().as_str() == ev["sender"].as_str().unwrap_or("")
                    && x.event_id().as_str() == ev["event_id"].as_str().unwrap_or("")
                    && u64::from(x.origin_server_ts().0) == ev["origin_server_ts"].as_u64().unwrap_or(0);
                let _ = $state;
                let _ = $full;
                // the type accessor is judged through `type_out` (an alias spelling may come back as the stable name)
                Obs { ok: true, known: dbg_known(&d), redacted: d.contains("(Redacted("), type_out: x.event_type().to_string(), acc_ok,
                      content: None, err: String::new() }
            }
        }
    }};
}

fn content_fixpoint<C: EventContentFromType + serde::Serialize>(ty: &str, input: &Value) -> (bool, bool, bool, bool, String) {
    // typed content from the input, serialise, deserialise under the same type, serialise again
    let raw = serde_json::value::to_raw_value(input).unwrap();
    let c1 = match C::from_parts(ty, &raw) {
        Ok(c) => c,
        Err(e) => return (false, false, false, false, format!("content: {e}")),
    };
    let t1 = serde_json::to_string(&c1).unwrap_or_default();
    let nodup = no_duplicate_keys(&t1);
    let j1: Value = match serde_json::from_str(&t1) { Ok(v) => v, Err(e) => return (false, false, false, false, format!("invalid json: {e}")) };
    let raw1: Box<RawValue> = RawValue::from_string(t1.clone()).unwrap();
    let fix = match C::from_parts(ty, &raw1) {
        Ok(c2) => serde_json::to_value(&c2).ok() == Some(j1.clone()),
        Err(_) => false,
    };
    let sub = subsumes(&j1, input);
    // key order independence: the same content with keys reversed
    let rraw = RawValue::from_string(reversed_text(input)).unwrap();
    let order = match C::from_parts(ty, &rraw) { Ok(c) => serde_json::to_value(&c).ok() == Some(j1.clone()), Err(_) => false };
    (fix, nodup, sub, order, t1)
}

/// fixpoint of the typed *redacted* content of the event types that keep fields when redacted
fn redacted_fixpoint(ty: &str, input: &Value) -> Option<(bool, bool, bool, String)> {
    use ruma_events::room::{aliases::RedactedRoomAliasesEventContent, create::RedactedRoomCreateEventContent,
        history_visibility::RedactedRoomHistoryVisibilityEventContent, join_rules::RedactedRoomJoinRulesEventContent,
        member::RedactedRoomMemberEventContent, power_levels::RedactedRoomPowerLevelsEventContent, redaction::RedactedRoomRedactionEventContent};
    fn go<T: serde::Serialize + serde::de::DeserializeOwned>(input: &Value) -> (bool, bool, bool, String) {
        let c1: T = match serde_json::from_value(input.clone()) { Ok(c) => c, Err(e) => return (false, false, false, format!("redacted content: {e}")) };
        let t1 = serde_json::to_string(&c1).unwrap_or_default();
        let j1: Value = match serde_json::from_str(&t1) { Ok(v) => v, Err(_) => return (false, false, false, t1) };
        let fix = serde_json::from_value::<T>(j1.clone()).ok().and_then(|c2| serde_json::to_value(&c2).ok()) == Some(j1.clone());
        (fix, no_duplicate_keys(&t1), subsumes(&j1, input), t1)
    }
    Some(match ty {
        "m.room.member" => go::<RedactedRoomMemberEventContent>(input),
        "m.room.create" => go::<RedactedRoomCreateEventContent>(input),
        "m.room.join_rules" => go::<RedactedRoomJoinRulesEventContent>(input),
        "m.room.power_levels" => go::<RedactedRoomPowerLevelsEventContent>(input),
        "m.room.history_visibility" => go::<RedactedRoomHistoryVisibilityEventContent>(input),
        "m.room.aliases" => go::<RedactedRoomAliasesEventContent>(input),
        "m.room.redaction" => go::<RedactedRoomRedactionEventContent>(input),
        _ => return None,
    })
}

fn event_json(s: &Value, format: &str, redacted: bool, content: &Value, extras: bool) -> Value {
    let kind = s["kind"].as_str().unwrap();
    let mut ev = json!({"type": s["type"], "content": content});
    match kind {
        "state" | "message_like" => {
            ev["sender"] = json!("@sender:s.co");
            if kind == "state" { ev["state_key"] = s["state_key"].clone(); }
            if format != "stripped" {
                ev["event_id"] = json!("$ev:s.co");
                ev["origin_server_ts"] = json!(1234);
                ev["unsigned"] = json!({"age": 5});
            }
            if format == "full" { ev["room_id"] = json!("!room:s.co"); }
            if let Some(top) = s.get("top").and_then(|t| t.as_object()) {
                for (k, v) in top { ev[k] = v.clone(); }
            }
            if let (Some(extra), true) = (s.get("unsigned").and_then(|t| t.as_object()), format != "stripped") {
                for (k, v) in extra { ev["unsigned"][k] = v.clone(); }
            }
            if redacted {
                ev["unsigned"] = json!({"redacted_because": {"type": "m.room.redaction", "sender": "@mod:s.co", "event_id": "$red:s.co", "origin_server_ts": 2000,
                                                               "content": {"reason": "x"}, "redacts": "$ev:s.co", "room_id": "!room:s.co"}});
            }
        }
        "to_device" => { ev["sender"] = json!("@sender:s.co"); }
        "ephemeral" => { if format == "full" { ev["room_id"] = json!("!room:s.co"); } }
        _ => {}
    }
    if extras {
        ev["org.example.unknown_top"] = json!({"x": [1, null]});
    }
    ev
}

fn redacted_content(ty: &str, content: &Value, v: u64) -> Value {
    let mut c: ruma_common::CanonicalJsonObject = serde_json::from_value(content.clone()).unwrap_or_default();
    let rules = crate::c04::rules_for(v);
    let _ = ruma_common::canonical_json::redact_content_in_place(&mut c, &rules, ty);
    serde_json::to_value(&c).unwrap()
}

fn observe(target: &str, text: &str, ev: &Value) -> Obs {
    match target {
        "AnySyncStateEvent" => room_event!(AnySyncStateEvent, text, ev, true, false),
        "AnyStateEvent" => room_event!(AnyStateEvent, text, ev, true, true),
        "AnySyncMessageLikeEvent" => room_event!(AnySyncMessageLikeEvent, text, ev, false, false),
        "AnyMessageLikeEvent" => room_event!(AnyMessageLikeEvent, text, ev, false, true),
        "AnySyncTimelineEvent" => room_event!(AnySyncTimelineEvent, text, ev, false, false),
        "AnyTimelineEvent" => room_event!(AnyTimelineEvent, text, ev, false, true),
        "AnyStrippedStateEvent" => match serde_json::from_str::<AnyStrippedStateEvent>(text) {
            Err(e) => Obs { ok: false, known: false, redacted: false, type_out: String::new(), acc_ok: false, content: None, err: e.to_string() },
            Ok(x) => {
                let d = format!("{x:?}");
                Obs { ok: true, known: dbg_known(&d), redacted: false, type_out: x.event_type().to_string(),
                      acc_ok: x.sender().as_str() == ev["sender"].as_str().unwrap_or("") && x.state_key() == ev["state_key"].as_str().unwrap_or("\u{1}"),
                      content: None, err: String::new() }
            }
        },
        "AnySyncEphemeralRoomEvent" => match serde_json::from_str::<AnySyncEphemeralRoomEvent>(text) {
            Err(e) => Obs { ok: false, known: false, redacted: false, type_out: String::new(), acc_ok: false, content: None, err: e.to_string() },
            Ok(x) => { let d = format!("{x:?}"); Obs { ok: true, known: dbg_known(&d), redacted: false, type_out: x.event_type().to_string(), acc_ok: true, content: None, err: String::new() } }
        },
        "AnyGlobalAccountDataEvent" => match serde_json::from_str::<AnyGlobalAccountDataEvent>(text) {
            Err(e) => Obs { ok: false, known: false, redacted: false, type_out: String::new(), acc_ok: false, content: None, err: e.to_string() },
            Ok(x) => { let d = format!("{x:?}"); Obs { ok: true, known: dbg_known(&d), redacted: false, type_out: x.event_type().to_string(), acc_ok: true, content: None, err: String::new() } }
        },
        "AnyRoomAccountDataEvent" => match serde_json::from_str::<AnyRoomAccountDataEvent>(text) {
            Err(e) => Obs { ok: false, known: false, redacted: false, type_out: String::new(), acc_ok: false, content: None, err: e.to_string() },
            Ok(x) => { let d = format!("{x:?}"); Obs { ok: true, known: dbg_known(&d), redacted: false, type_out: x.event_type().to_string(), acc_ok: true, content: None, err: String::new() } }
        },
        "AnyToDeviceEvent" => match serde_json::from_str::<AnyToDeviceEvent>(text) {
            Err(e) => Obs { ok: false, known: false, redacted: false, type_out: String::new(), acc_ok: false, content: None, err: e.to_string() },
            Ok(x) => { let d = format!("{x:?}"); Obs { ok: true, known: dbg_known(&d), redacted: false, type_out: x.event_type().to_string(),
                       acc_ok: x.sender().as_str() == ev["sender"].as_str().unwrap_or(""), content: None, err: String::new() } }
        },
        _ => unreachable!(),
    }
}

fn targets(kind: &str, format: &str) -> Vec<&'static str> {
    match (kind, format) {
        ("state", "sync") => vec!["AnySyncStateEvent", "AnySyncTimelineEvent"],
        ("state", "full") => vec!["AnyStateEvent", "AnyTimelineEvent", "AnySyncStateEvent", "AnySyncTimelineEvent"],
        ("state", _) => vec!["AnyStrippedStateEvent"],
        ("message_like", "sync") => vec!["AnySyncMessageLikeEvent", "AnySyncTimelineEvent"],
        ("message_like", _) => vec!["AnyMessageLikeEvent", "AnyTimelineEvent", "AnySyncMessageLikeEvent", "AnySyncTimelineEvent"],
        ("ephemeral", _) => vec!["AnySyncEphemeralRoomEvent"],
        ("global_account_data", _) => vec!["AnyGlobalAccountDataEvent"],
        ("room_account_data", _) => vec!["AnyRoomAccountDataEvent"],
        _ => vec!["AnyToDeviceEvent"],
    }
}

pub fn run(_args: &[String]) {
    let schemas: Vec<Value> = serde_json::from_str(SCHEMAS).expect("schemas");
    let mut out = Out::new();
    let mut i = 0u64;
    for s in &schemas {
        let kind = s["kind"].as_str().unwrap();
        let ty = s["type"].as_str().unwrap();
        let wildcard = ty.starts_with("m.secret_storage.key.");
        let full = &s["content"];
        // content variants: all optional fields present, each one absent, all absent, unknown field added
        let mut variants: Vec<(String, Value)> = vec![("full".into(), full.clone())];
        let opts = strs(&s["optional"]);
        for o in &opts {
            let mut c = full.clone();
            c.as_object_mut().unwrap().remove(o);
            variants.push((format!("without:{o}"), c));
        }
        if opts.len() > 1 {
            let mut c = full.clone();
            for o in &opts { c.as_object_mut().unwrap().remove(o); }
            variants.push(("minimal".into(), c));
        }
        if s.get("maplike").is_none() {
            let mut c = full.clone();
            c.as_object_mut().unwrap().insert("org.example.unknown_field".into(), json!({"deep": [1, {"x": null}]}));
            variants.push(("unknown-field".into(), c));
        }
        // an unknown field inside every nested object that is a structure (not a map keyed by ids)
        fn nest_unknown(v: &mut Value, hits: &mut u32) {
            const STRUCTS: &[&str] = &["info", "thumbnail_info", "m.relates_to", "m.in_reply_to", "m.new_content", "m.mentions", "predecessor",
                                       "third_party_invite", "signed", "file", "m.poll", "question", "body", "unsigned"];
            if let Value::Object(m) = v {
                for (k, x) in m.iter_mut() {
                    if STRUCTS.contains(&k.as_str()) {
                        if let Value::Object(inner) = x {
                            inner.insert("org.example.unknown_nested".into(), json!([{"x": 1}]));
                            *hits += 1;
                        }
                    }
                    nest_unknown(x, hits);
                }
            } else if let Value::Array(a) = v {
                for x in a {
                    nest_unknown(x, hits);
                }
            }
        }
        {
            let mut c = full.clone();
            let mut hits = 0;
            nest_unknown(&mut c, &mut hits);
            if hits > 0 {
                variants.push(("unknown-nested".into(), c));
            }
        }
        let formats: &[&str] = match kind { "state" => &["sync", "full", "stripped"], "message_like" => &["sync", "full"], "ephemeral" => &["sync"], _ => &["plain"] };
        for (vname, content) in &variants {
            for format in formats {
                let reds: &[(bool, u64)] = if matches!(kind, "state" | "message_like") && *format != "stripped" { &[(false, 0), (true, 1), (true, 11)] } else { &[(false, 0)] };
                for (red, rv) in reds {
                    let cont = if *red { redacted_content(ty, content, *rv) } else { content.clone() };
                    for extras in [false, true] {
                        let ev = event_json(s, format, *red, &cont, extras);
                        let text = serde_json::to_string(&ev).unwrap();
                        for target in targets(kind, format) {
                            i += 1;
                            let rec = guard(|| {
                                let o = observe(target, &text, &ev);
                                // key order independence of the whole event
                                let o2 = observe(target, &reversed_text(&ev), &ev);
                                let order_ev = o.ok == o2.ok && o.known == o2.known && o.redacted == o2.redacted && o.type_out == o2.type_out;
                                // spelling independence: the same event with the value of `type` written with JSON escapes
                                // (first character as \uXXXX, every '/' as \/) is the same JSON value and must give the same answer
                                let spell_ok = match &ev {
                                    Value::Object(m) => {
                                        let t3 = format!("{{{}}}", m.iter().map(|(k, v)| {
                                            let val = match (k.as_str(), v.as_str()) {
                                                ("type", Some(t)) if !t.is_empty() && t.is_ascii() => {
                                                    let rest = serde_json::to_string(&t[1..]).unwrap().replace('/', "\\/");
                                                    format!("\"\\u{:04x}{}", t.as_bytes()[0] as u32, &rest[1..])
                                                }
                                                _ => v.to_string(),
                                            };
                                            format!("{}:{}", serde_json::to_string(k).unwrap(), val)
                                        }).collect::<Vec<_>>().join(","));
                                        let o3 = observe(target, &t3, &ev);
                                        o.ok == o3.ok && o.known == o3.known && o.redacted == o3.redacted && o.type_out == o3.type_out && o.acc_ok == o3.acc_ok
                                    }
                                    _ => true,
                                };
                                // content laws on original (unredacted) events
                                // typed content exists for original events of known types only (custom contents are not retained)
                                let red_fix = if *red && o.known { redacted_fixpoint(ty, &cont) } else { None };
                                let hascontent = (!*red && o.known) || red_fix.is_some();
                                let (fix, nodup, sub, order, ctext) = if let Some((f, n, su, t)) = red_fix { (f, n, su, true, t) } else if hascontent {
                                    match kind {
                                        "state" => content_fixpoint::<AnyStateEventContent>(ty, &cont),
                                        "message_like" => content_fixpoint::<AnyMessageLikeEventContent>(ty, &cont),
                                        "ephemeral" => content_fixpoint::<AnyEphemeralRoomEventContent>(ty, &cont),
                                        "global_account_data" => content_fixpoint::<AnyGlobalAccountDataEventContent>(ty, &cont),
                                        "room_account_data" => content_fixpoint::<AnyRoomAccountDataEventContent>(ty, &cont),
                                        _ => content_fixpoint::<AnyToDeviceEventContent>(ty, &cont),
                                    }
                                } else { (true, true, true, true, String::new()) };
                                // Raw wrapper
                                let raw: Raw<Value> = Raw::from_json_string(text.clone()).unwrap();
                                let raw_identical = raw.json().get() == text;
                                let raw_field_ok = raw.get_field::<String>("type").ok().flatten().as_deref() == Some(ty)
                                    && raw.get_field::<Value>("content").ok().flatten().as_ref() == Some(&cont)
                                    && raw.get_field::<Value>("no_such_field").ok().flatten().is_none();
                                // the same object with its top-level keys spelled with JSON escapes and an unknown escaped key in front
                                let escaped_text = match &ev {
                                    Value::Object(m) => format!("{{\"org.example.caf\\u00e9\":1,\"org.example.nullf\":null,{}}}", m.iter().map(|(k, v)| {
                                        let key = if k == "type" { "\"\\u0074ype\"".to_owned() } else if k == "content" { "\"c\\u006fntent\"".to_owned() } else { serde_json::to_string(k).unwrap() };
                                        format!("{key}:{v}")
                                    }).collect::<Vec<_>>().join(",")),
                                    _ => text.clone(),
                                };
                                let raw_escaped_ok = match Raw::<Value>::from_json_string(escaped_text.clone()) {
                                    Ok(r) => r.json().get() == escaped_text
                                        && r.get_field::<String>("type").ok().flatten().as_deref() == Some(ty)
                                        && r.get_field::<Value>("content").ok().flatten().as_ref() == Some(&cont)
                                        && r.get_field::<i64>("org.example.caf\u{e9}").ok().flatten() == Some(1)
                                        && r.get_field::<Value>("no_such_field").ok().flatten().is_none()
                                        // a field that is null reads as absent, as in a full parse into an Option
                                        && matches!(r.get_field::<String>("org.example.nullf"), Ok(None)),
                                    Err(_) => false,
                                };
                                let raw_field_ok = raw_field_ok && raw_escaped_ok;
                                let _ = &o.content;
                                json!({"i": i, "sample": s["sample"], "kind": kind, "type": ty, "alias": s.get("alias").and_then(|a| a.as_bool()).unwrap_or(false), "wildcard": wildcard, "format": format, "variant": vname, "redacted_in": red, "rv": rv,
                                       "extras": extras, "target": target, "ok": o.ok, "known": o.known, "redacted_out": o.redacted, "type_out": o.type_out,
                                       "acc_ok": o.acc_ok, "hascontent": hascontent, "fix_ok": fix, "nodup": nodup, "subsumes": sub, "order_indep": order && order_ev, "spelling_indep": spell_ok,
                                       "extras_ok": o.ok, "raw_identical": raw_identical, "raw_field_ok": raw_field_ok, "panic": false,
                                       "err": o.err, "content_text": ctext, "tag": s.get("tag").cloned().unwrap_or(json!("")), "event": text})
                            });
                            out.put(&rec.unwrap_or_else(|p| json!({"i": i, "kind": kind, "type": ty, "alias": false, "wildcard": wildcard, "format": format, "variant": vname,
                                "redacted_in": red, "rv": rv, "extras": extras, "target": target, "ok": false, "known": false, "redacted_out": false, "type_out": "",
                                "acc_ok": false, "hascontent": false, "fix_ok": false, "nodup": false, "subsumes": false, "order_indep": false, "spelling_indep": false, "extras_ok": false,
                                "raw_identical": false, "raw_field_ok": false, "panic": true, "err": p, "content_text": "", "tag": "", "event": text})));
                        }
                    }
                }
            }
        }
    }
}

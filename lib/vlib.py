"""Common machinery for /verif checks: TLC runner, harness runner, evidence, known findings.

Exit code conventions (DESIGN.md 2.2): 0 held / 1 violation (with VIOLATION line) / 2 tool error.
"""
import hashlib
import json
import os
import re
import shutil
import subprocess
import sys
import time

VERIF = os.path.dirname(os.path.dirname(os.path.abspath(__file__)))
REPO = os.environ.get("VERIF_REPO", "/repo")
SPEC = os.path.join(VERIF, "spec")
MC = os.path.join(VERIF, "mc")
HARNESS = os.path.join(VERIF, "harness")
WORK = os.path.join(VERIF, "work")
EVIDENCE = os.path.join(VERIF, "evidence")
REPLAYS = os.path.join(VERIF, "replays")
TLA_CP = "/opt/veriftools/tla/tla2tools.jar:/opt/veriftools/tla/CommunityModules-deps.jar"
TOOLCHAIN = os.environ.get("VERIF_TOOLCHAIN", "1.88.0")


class ToolError(Exception):
    pass


def log(*a):
    print(*a, file=sys.stderr, flush=True)


def seed():
    try:
        return int(os.environ.get("VERIF_SEED", "1"))
    except ValueError:
        return 1


def workdir(pid, name=""):
    d = os.path.join(WORK, pid, name) if name else os.path.join(WORK, pid)
    os.makedirs(d, exist_ok=True)
    return d


# --------------------------------------------------------------------------------------------
# TLC
# --------------------------------------------------------------------------------------------
class TlcResult:
    def __init__(self):
        self.rc = None
        self.generated = 0
        self.distinct = 0
        self.lines = []  # raw stdout lines
        self.violated = []  # names of violated invariants / properties
        self.errors = []  # other TLC errors
        self.wall = 0.0
        self.coverage = {}
        self.cmd = ""

    def records(self, tag):
        """Decode lines printed by PrintT(<<tag, ToJson(x)>>) -> list of python objects."""
        out = []
        prefix = '<<"%s", ' % tag
        for ln in self.lines:
            if ln.startswith(prefix) and ln.endswith(">>"):
                body = ln[len(prefix):-2]
                try:
                    out.append(json.loads(tla_string(body)))
                except Exception as e:  # noqa
                    raise ToolError("cannot decode TLC record: %r (%s)" % (ln[:200], e))
        return out

    def tuples(self, tag):
        """Lines printed by PrintT(<<tag, v1, v2...>>) with plain ints/strings -> raw text after tag."""
        prefix = '<<"%s", ' % tag
        return [ln[len(prefix):-2] for ln in self.lines if ln.startswith(prefix) and ln.endswith(">>")]


def tla_string(lit):
    """A TLA+ string literal as printed by TLC ("...") -> python str.

    TLC prints strings with backslash and quote escaped (\\\\ and \\")."""
    lit = lit.strip()
    if not (lit.startswith('"') and lit.endswith('"')):
        raise ValueError("not a string literal")
    s = lit[1:-1]
    out = []
    i = 0
    while i < len(s):
        c = s[i]
        if c == "\\" and i + 1 < len(s):
            n = s[i + 1]
            if n == "n":
                out.append("\n")
            elif n == "t":
                out.append("\t")
            elif n == "r":
                out.append("\r")
            elif n == "f":
                out.append("\f")
            else:
                out.append(n)
            i += 2
        else:
            out.append(c)
            i += 1
    return "".join(out)


# properties decided on another property's model-checking modules
MC_DIR_OF = {"C05": "C03", "C06": "C07", "C09": "C08", "C15": "C14"}


def run_tlc(pid, module, cfg=None, workers=None, simulate=None, depth=None, env=None, timeout=3600,
            extra=None, heap="8g", stack="512m", continue_=False, deque=False, coverage=False, name=None,
            keep_lines=True, line_cb=None, seed_=None, mcdir=None):
    """Run TLC on mc/<pid>/<module>.tla with config cfg (default <module>.cfg)."""
    d = os.path.join(MC, mcdir or MC_DIR_OF.get(pid, pid))
    cfg = cfg or (module + ".cfg")
    name = name or module
    meta = os.path.join(workdir(pid), "tlc_" + name)
    shutil.rmtree(meta, ignore_errors=True)
    os.makedirs(meta, exist_ok=True)
    if workers is None:
        workers = int(os.environ.get("VERIF_TLC_WORKERS", "16"))
    jopts = ["-XX:+UseParallelGC", "-Xmx" + heap, "-Xss" + stack, "-DTLA-Library=" + SPEC]
    if deque:
        jopts.append("-Dtlc2.tool.queue.IStateQueue=StateDeque")
    cmd = ["java"] + jopts + ["-cp", TLA_CP, "tlc2.TLC", "-workers", str(workers), "-metadir", meta,
                               "-cleanup", "-noGenerateSpecTE", "-config", cfg]
    if simulate:
        cmd += ["-simulate", "num=%d" % simulate]
        if depth:
            cmd += ["-depth", str(depth)]
        cmd += ["-seed", str(seed_ if seed_ is not None else seed())]
    if continue_:
        cmd.append("-continue")
    if coverage:
        cmd += ["-coverage", "1"]
    if extra:
        cmd += extra
    cmd.append(module + ".tla")
    e = dict(os.environ)
    e.pop("JAVA_TOOL_OPTIONS", None)
    if env:
        e.update({k: str(v) for k, v in env.items()})
    res = TlcResult()
    res.cmd = " ".join(cmd)
    t0 = time.time()
    log("[tlc] %s (cwd %s)" % (" ".join(cmd[-6:]), d))
    p = subprocess.Popen(cmd, cwd=d, env=e, stdout=subprocess.PIPE, stderr=subprocess.STDOUT, text=True,
                         errors="replace", bufsize=1 << 20)
    tail = []
    try:
        for ln in p.stdout:
            ln = ln.rstrip("\n")
            if line_cb is not None and line_cb(ln):
                continue
            if keep_lines:
                res.lines.append(ln)
            tail.append(ln)
            if len(tail) > 400:
                del tail[:200]
            m = re.match(r"^(\d+) states generated, (\d+) distinct states found", ln)
            if m:
                res.generated = int(m.group(1))
                res.distinct = int(m.group(2))
            m = re.match(r"^Error: Invariant (\S+) is violated", ln)
            if m:
                res.violated.append(m.group(1))
            m = re.match(r"^Error: (Action property|Temporal properties|Deadlock|Postcondition|The invariant)(.*)", ln)
            if m:
                res.violated.append((m.group(1) + m.group(2)).strip())
            elif ln.startswith("Error:") and "Invariant" not in ln:
                res.errors.append(ln)
            if time.time() - t0 > timeout:
                p.kill()
                raise ToolError("TLC timeout after %ds: %s" % (timeout, module))
        p.wait()
    finally:
        if p.poll() is None:
            p.kill()
    res.rc = p.returncode
    res.wall = time.time() - t0
    shutil.rmtree(meta, ignore_errors=True)
    if not keep_lines:
        res.lines = tail
    # TLC exit codes: 0 ok, 12 safety violation, 13 liveness, 10 assumption failure, 11 deadlock, >=75 errors
    if res.rc not in (0, 12, 13, 11) :
        raise ToolError("TLC failed rc=%s on %s:\n%s" % (res.rc, module, "\n".join(tail[-40:])))
    if res.rc == 0 and res.generated == 0 and not simulate:
        raise ToolError("TLC reported no states for %s:\n%s" % (module, "\n".join(tail[-40:])))
    log("[tlc] %s done rc=%s generated=%d distinct=%d %.1fs" % (module, res.rc, res.generated, res.distinct, res.wall))
    return res


# --------------------------------------------------------------------------------------------
# Rust harness
# --------------------------------------------------------------------------------------------
_built = set()


def cargo_env():
    e = dict(os.environ)
    e["RUSTUP_TOOLCHAIN"] = TOOLCHAIN
    e["CARGO_NET_OFFLINE"] = "true"
    e.setdefault("CARGO_TERM_COLOR", "never")
    return e


def build_harness(pkg="vh"):
    if pkg in _built:
        return
    t0 = time.time()
    cmd = ["cargo", "build", "--release", "--offline", "-q", "-p", pkg]
    log("[cargo] " + " ".join(cmd))
    p = subprocess.run(cmd, cwd=HARNESS, env=cargo_env(), stdout=subprocess.PIPE, stderr=subprocess.STDOUT, text=True)
    if p.returncode != 0:
        raise ToolError("harness build failed:\n" + p.stdout[-6000:])
    log("[cargo] built %s in %.1fs" % (pkg, time.time() - t0))
    _built.add(pkg)


def harness_bin(pkg="vh"):
    return os.path.join(HARNESS, "target", "release", pkg)


def run_harness(args, pkg="vh", stdin_path=None, stdout_path=None, timeout=3600, env=None, check=True):
    """Run the harness binary; returns (rc, stdout_text or None, stderr_text)."""
    build_harness(pkg)
    e = cargo_env()
    e["VERIF_SEED"] = str(seed())
    e.setdefault("RUST_MIN_STACK", str(64 << 20))
    if env:
        e.update({k: str(v) for k, v in env.items()})
    fin = open(stdin_path, "rb") if stdin_path else subprocess.DEVNULL
    fout = open(stdout_path, "wb") if stdout_path else subprocess.PIPE
    t0 = time.time()
    try:
        p = subprocess.run([harness_bin(pkg)] + list(args), stdin=fin, stdout=fout, stderr=subprocess.PIPE,
                           env=e, timeout=timeout)
    except subprocess.TimeoutExpired:
        raise ToolError("harness timeout: %s" % (args,))
    finally:
        if stdin_path:
            fin.close()
        if stdout_path:
            fout.close()
    err = p.stderr.decode("utf-8", "replace")
    if check and p.returncode != 0:
        raise ToolError("harness %s failed rc=%s:\n%s" % (args, p.returncode, err[-4000:]))
    log("[vh] %s rc=%s %.1fs" % (" ".join(map(str, args)), p.returncode, time.time() - t0))
    out = None if stdout_path else p.stdout.decode("utf-8", "replace")
    if stdout_path:
        maybe_corrupt(stdout_path)
    return p.returncode, out, err


SWAP = {"ok": "err", "err": "ok", "allow": "reject", "reject": "allow", "must": "mustnot", "mustnot": "must"}


def _corrupt_value(v):
    if isinstance(v, bool):
        return not v
    if isinstance(v, str):
        return SWAP.get(v, v + "~")
    if isinstance(v, int):
        return v + 1
    if isinstance(v, list):
        return v[:-1] if v else [0]
    if isinstance(v, dict):
        return {k: x for i, (k, x) in enumerate(v.items()) if i > 0} if v else {"x": 0}
    return True


def maybe_corrupt(path):
    """Self-test hook: VERIF_CORRUPT=<file basename>:<field>:<n> corrupts that observation field of the n-th record
    holding it, after the real code has produced the file (bin/selftest expects the check to report a violation)."""
    spec = os.environ.get("VERIF_CORRUPT")
    if not spec:
        return
    base, field, n = spec.split(":")
    if os.path.basename(path) != base:
        return
    lines = open(path, encoding="utf-8").read().split("\n")
    idx = [i for i, ln in enumerate(lines) if ln.startswith("{") and ('"%s":' % field) in ln]
    holders = []
    for i in idx:
        try:
            r = json.loads(lines[i])
        except Exception:
            continue
        if field in r:
            holders.append(i)
    if not holders:
        raise ToolError("selftest: no record of %s has the field %s" % (base, field))
    i = holders[int(n) % len(holders)]
    r = json.loads(lines[i])
    old = r[field]
    r[field] = _corrupt_value(old)
    lines[i] = json.dumps(r, ensure_ascii=False)
    with open(path, "w", encoding="utf-8") as f:
        f.write("\n".join(lines))
    print("SELFTEST corrupted %s line %d field %s: %s -> %s" % (base, i + 1, field, json.dumps(old)[:80], json.dumps(r[field])[:80]))


def read_ndjson(path):
    out = []
    with open(path, "rb") as f:
        for ln in f.read().split(b"\n"):
            if ln.strip():
                out.append(json.loads(ln))
    return out


def write_ndjson(path, recs):
    with open(path, "w") as f:
        for r in recs:
            f.write(json.dumps(r, separators=(",", ":"), ensure_ascii=True))
            f.write("\n")


# --------------------------------------------------------------------------------------------
# Findings, violations, evidence
# --------------------------------------------------------------------------------------------
def load_known():
    p = os.path.join(VERIF, "known_findings.json")
    if not os.path.exists(p):
        return []
    with open(p) as f:
        return json.load(f).get("findings", [])


def _level_of(pid):
    try:
        import manifest_data
        return manifest_data.CHECKS.get(pid, {}).get("category", "model_checking")
    except Exception:
        return "model_checking"


class Report:
    """Collects violations of one property run, classifies against known findings."""

    def __init__(self, pid, tier):
        self.pid = pid
        self.tier = tier
        self.level = _level_of(pid)
        self.t0 = time.time()
        self.known = [k for k in load_known() if k.get("property") == pid and k.get("status", "open") == "open"]
        self.violations = []  # (cls, detail)
        self.known_hits = {}
        self.cov = {"states": 0, "transitions": 0, "traces_validated_against_impl": 0, "evaluations": 0,
                    "distinct_nontrivial": 0, "samples": [], "exhaustive": False, "rule": "", "parts": {}}
        self.assumptions = []
        self.max_report = 25

    # -- coverage helpers
    def add_tlc(self, res, part):
        self.cov["states"] += res.distinct
        self.cov["transitions"] += res.generated
        self.cov["parts"][part] = {"tlc_distinct": res.distinct, "tlc_generated": res.generated,
                                   "tlc_wall_s": round(res.wall, 1)}

    def part(self, name, **kw):
        self.cov["parts"].setdefault(name, {}).update(kw)

    def sample(self, s):
        if len(self.cov["samples"]) < 6:
            self.cov["samples"].append(s)

    # -- violations
    def violation(self, cls, detail):
        """cls: stable violation class string; detail: json-able dict with the concrete failing case."""
        for k in self.known:
            if k.get("class") == cls:
                self.known_hits.setdefault(cls, {"n": 0, "what": k.get("what", cls)})
                self.known_hits[cls]["n"] += 1
                return
        self.violations.append((cls, detail))

    def finish(self):
        os.makedirs(EVIDENCE, exist_ok=True)
        paths = []
        seen_cls = {}
        for cls, detail in self.violations:
            seen_cls.setdefault(cls, []).append(detail)
        for cls, details in seen_cls.items():
            for detail in details[:1]:
                blob = json.dumps({"property": self.pid, "class": cls, "detail": detail}, sort_keys=True,
                                  ensure_ascii=True, indent=1)
                h = hashlib.sha256(blob.encode()).hexdigest()[:16]
                d = os.path.join(REPLAYS, self.pid)
                os.makedirs(d, exist_ok=True)
                path = os.path.join(d, h + ".json")
                with open(path, "w") as f:
                    f.write(blob)
                paths.append((cls, path, len(details)))
        for cls, path, n in paths[: self.max_report]:
            print("VIOLATION property=%s replay=%s class=%s count=%d" % (self.pid, path, cls, n))
        for cls, hit in sorted(self.known_hits.items()):
            print("KNOWN-FINDING: property=%s %s (class %s, %d cases this run)" % (self.pid, hit["what"], cls, hit["n"]))
        cov = dict(self.cov)
        cov["violation_classes"] = {c: len(d) for c, d in seen_cls.items()}
        cov["known_finding_classes"] = {c: h["n"] for c, h in self.known_hits.items()}
        if cov["states"] == 0:
            cov.pop("states")
            cov.pop("transitions")
        ev = {
            "property_id": self.pid,
            "tier": self.tier,
            "seed": seed(),
            "level": self.level,
            "coverage": cov,
            "assumptions": self.assumptions,
            "wall_s": round(time.time() - self.t0, 1),
            "violations": len(self.violations),
        }
        with open(os.path.join(EVIDENCE, self.pid + ".json"), "w") as f:
            json.dump(ev, f, indent=1, ensure_ascii=True)
        sys.stdout.flush()
        return 1 if self.violations else 0


def cp_to_str(cps):
    return "".join(chr(c) for c in cps)


def str_to_cp(s):
    return [ord(c) for c in s]


# --------------------------------------------------------------------------------------------
# Pipelines shared by the function-style properties
# --------------------------------------------------------------------------------------------
def model_check(rep, pid, module, cfg=None, part="mc", tag="CASE", **kw):
    """Run an MC module; a violated model theorem is a specification error (tool error), never a verdict
    about ruma. Returns the decoded, de-duplicated emitted cases."""
    res = run_tlc(pid, module, cfg=cfg, name=part, **kw)
    if res.violated or res.rc != 0:
        raise ToolError("model theorem violated in %s/%s: %s\n%s" % (pid, module, res.violated, "\n".join(res.lines[-30:])))
    rep.add_tlc(res, part)
    cases = res.records(tag)
    seen = set()
    out = []
    for c in cases:
        k = json.dumps(c, sort_keys=True)
        if k not in seen:
            seen.add(k)
            out.append(c)
    rep.part(part, emitted=len(out), cmd=res.cmd)
    return out, res


def replay_cases(pid, cases, args, pkg="vh", part="replay", timeout=3600, env=None):
    """cases -> harness stdin; returns observations (list aligned with cases by field i)."""
    wd = workdir(pid)
    cpath = os.path.join(wd, part + "_cases.ndjson")
    opath = os.path.join(wd, part + "_obs.ndjson")
    write_ndjson(cpath, cases)
    run_harness(args, pkg=pkg, stdin_path=cpath, stdout_path=opath, timeout=timeout, env=env)
    obs = read_ndjson(opath)
    if len(obs) != len(cases):
        raise ToolError("harness returned %d observations for %d cases" % (len(obs), len(cases)))
    return obs


def record_trace(pid, args, pkg="vh", part="trace", timeout=3600, env=None):
    wd = workdir(pid)
    tpath = os.path.join(wd, part + ".ndjson")
    run_harness(args, pkg=pkg, stdout_path=tpath, timeout=timeout, env=env)
    return tpath


def validate_trace(rep, pid, module, tpath, part="trace", cfg=None, workers=None, **kw):
    """Independent-record trace validation: Init == i \\in 1..Len(Rec); prints <<"MISMATCH", i>> lines.
    Returns (number of records checked, list of mismatching 1-based indices)."""
    res = run_tlc(pid, module, cfg=cfg, name=part, env={"TRACE": tpath}, workers=workers, **kw)
    if res.violated or res.rc != 0:
        raise ToolError("trace spec %s/%s failed: %s\n%s" % (pid, module, res.violated, "\n".join(res.lines[-30:])))
    rep.add_tlc(res, part)
    rep.last_trace_result = res        # further tags of the trace specification (read by the check that defines them)
    bad = []
    for t in res.tuples("MISMATCH"):
        bad.append(int(t.split(",")[0].strip()))
    n = res.distinct
    rep.part(part, records=n, mismatches=len(bad))
    rep.cov["traces_validated_against_impl"] += n
    return n, sorted(set(bad))


def stream_cases(rep, pid, module, cfg, out_path, part, tag="CASE", append=False, **kw):
    """Like model_check, but CASE lines are decoded and written straight to out_path (no list in memory).
    Returns (count, TlcResult)."""
    prefix = '<<"%s", ' % tag
    n = [0]
    f = open(out_path, "a" if append else "w")
    sample = []

    def cb(ln):
        if ln.startswith(prefix) and ln.endswith(">>"):
            body = tla_string(ln[len(prefix):-2])
            f.write(body)
            f.write("\n")
            n[0] += 1
            if len(sample) < 2 and n[0] % 997 == 1:
                sample.append(body)
            return True
        return False

    try:
        res = run_tlc(pid, module, cfg=cfg, name=part, line_cb=cb, **kw)
    finally:
        f.close()
    if res.violated or res.rc != 0:
        raise ToolError("model theorem violated in %s/%s (%s): %s\n%s" % (pid, module, cfg, res.violated, "\n".join(res.lines[-30:])))
    rep.add_tlc(res, part)
    rep.part(part, emitted=n[0], cmd=res.cmd)
    for s in sample[:1]:
        rep.sample(json.loads(s))
    return n[0], res
